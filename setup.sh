#!/bin/sh
# Build the verification framework from files on disk only (offline).
set -e
cd "$(dirname "$0")"
export CARGO_NET_OFFLINE=true
python3 tools/translate.py
(cd lean && lake build)
cp /repo/Cargo.lock harness/Cargo.lock
(cd harness && cargo build --offline)
