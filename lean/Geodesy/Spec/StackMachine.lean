/-
Reference semantics for C12 (DESIGN.md, Appendix A.1): the abstract stack machine of
Rumination 002, acting on ONE coordinate tuple.  Written from the documentation, independent of
the column representation of the code.

The stack is a list whose HEAD is the top of stack (TOS).
-/
import Geodesy.Model.Stack

namespace Geodesy
namespace Spec
variable {α : Type}

structure TState (α : Type) where
  stk : List α
  x : Coor α

/-- `push [a₁ … aₖ]`: for `i = 1..k`: `stk := x[aᵢ] :: stk` (TOS becomes `x[aₖ]`) -/
def tpush : List (Fin 4) → TState α → TState α
  | [], s => s
  | a :: rest, s => tpush rest { s with stk := s.x.get a :: s.stk }

/-- `pop [a₁ … aₖ]`: for `i = 1..k`: `x[aᵢ] := head stk; stk := tail stk` (repeated index: the
last wins) -/
def tpop : List (Fin 4) → TState α → TState α
  | [], s => s
  | a :: rest, s =>
    match s.stk with
    | [] => s
    | v :: stk' => tpop rest { stk := stk', x := s.x.set a v }

/-- `flip [a₁ … aₖ]`: for `j = 0..k-1`: exchange `x[a_{j+1}]` and `stk[j]` -/
def tflip : List (Fin 4) → Nat → TState α → TState α
  | [], _, s => s
  | a :: rest, j, s =>
    match s.stk[j]? with
    | none => s
    | some v => tflip rest (j + 1) { stk := s.stk.set j (s.x.get a), x := s.x.set a v }

/-- remove the TOS and insert it as the bottom of the top-`m` window -/
def trollOnce (m : Nat) : List α → List α
  | [] => []
  | e :: rest => rest.take (m - 1) ++ [e] ++ rest.drop (m - 1)

/-- the effective number of single rolls of `roll m n`: a negative `n` counts from the bottom
of the window -/
def rollCount (m n : Int) : Nat := (if n < 0 then (m.natAbs : Int) + n else n).toNat

/-- one instruction on one tuple.  `none` = guard failure (underflow): the instruction reports
zero and every element of the operand becomes NaN, the stack is left as it was. -/
def tstep (s : TState α) : Stack.Action → Option (TState α)
  | .push a => some (tpush a s)
  | .pop a => if s.stk.length < a.length then none else some (tpop a s)
  | .flip a => if s.stk.length < a.length then none else some (tflip a 0 s)
  | .roll m n =>
    if m.natAbs > s.stk.length then none
    else some { s with stk := Nat.repeat (trollOnce m.natAbs) (rollCount m n) s.stk }
  | .unroll m n =>
    -- `unroll m n = roll m (m - n)`
    if m.natAbs > s.stk.length then none
    else some { s with stk := Nat.repeat (trollOnce m.natAbs) (rollCount m (m - n)) s.stk }
  | .swap =>
    -- exchange the two topmost elements (unspecified below two: the code leaves the stack alone)
    match s.stk with
    | a :: b :: rest => some { s with stk := b :: a :: rest }
    | _ => some s
  | .drop => some s

/-- the result of a failed guard -/
def stomped (nan : α) (s : TState α) : TState α := { s with x := Coor.splat nan }

/-- total version: what the tuple and its stack look like after the instruction -/
def trun (nan : α) (s : TState α) (a : Stack.Action) : TState α :=
  match tstep s a with
  | some s' => s'
  | none => stomped nan s

/-- the dual instruction executed when a pipeline runs backwards -/
def dual : Stack.Action → Stack.Action
  | .push a => .pop a.reverse
  | .pop a => .push a.reverse
  | .roll m n => .unroll m n
  | .unroll m n => .roll m n
  | .flip a => .flip a
  | .swap => .swap
  | .drop => .drop

end Spec
end Geodesy
