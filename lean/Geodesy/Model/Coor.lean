/-
The 4-D coordinate tuple (`Coor4D`) as a plain structure, polymorphic in the element type.
-/
namespace Geodesy

structure Coor (α : Type) where
  c0 : α
  c1 : α
  c2 : α
  c3 : α
  deriving Repr, DecidableEq, Inhabited

namespace Coor
variable {α : Type}

def get (c : Coor α) : Fin 4 → α
  | 0 => c.c0 | 1 => c.c1 | 2 => c.c2 | 3 => c.c3

def set (c : Coor α) (i : Fin 4) (v : α) : Coor α :=
  match i with
  | 0 => { c with c0 := v } | 1 => { c with c1 := v }
  | 2 => { c with c2 := v } | 3 => { c with c3 := v }

def ofFn (f : Fin 4 → α) : Coor α := ⟨f 0, f 1, f 2, f 3⟩
def splat (v : α) : Coor α := ⟨v, v, v, v⟩
def map {β : Type} (f : α → β) (c : Coor α) : Coor β := ⟨f c.c0, f c.c1, f c.c2, f c.c3⟩
def toList (c : Coor α) : List α := [c.c0, c.c1, c.c2, c.c3]

@[simp] theorem get_set_same (c : Coor α) (i : Fin 4) (v : α) : (c.set i v).get i = v := by
  match i with
  | 0 => rfl | 1 => rfl | 2 => rfl | 3 => rfl

@[simp] theorem get_set_ne (c : Coor α) (i j : Fin 4) (v : α) (h : j ≠ i) :
    (c.set i v).get j = c.get j := by
  match i, j, h with
  | 0, 1, _ => rfl | 0, 2, _ => rfl | 0, 3, _ => rfl
  | 1, 0, _ => rfl | 1, 2, _ => rfl | 1, 3, _ => rfl
  | 2, 0, _ => rfl | 2, 1, _ => rfl | 2, 3, _ => rfl
  | 3, 0, _ => rfl | 3, 1, _ => rfl | 3, 2, _ => rfl
  | 0, 0, h => exact absurd rfl h | 1, 1, h => exact absurd rfl h
  | 2, 2, h => exact absurd rfl h | 3, 3, h => exact absurd rfl h

@[simp] theorem set_get (c : Coor α) (i : Fin 4) : c.set i (c.get i) = c := by
  match i with
  | 0 => rfl | 1 => rfl | 2 => rfl | 3 => rfl

theorem ext_get {a b : Coor α} (h : ∀ i, a.get i = b.get i) : a = b := by
  cases a; cases b
  have h0 := h 0; have h1 := h 1; have h2 := h 2; have h3 := h 3
  simp [get] at h0 h1 h2 h3
  simp [h0, h1, h2, h3]

end Coor

/-- direction of application -/
inductive Dir | fwd | inv
  deriving Repr, DecidableEq, Inhabited

def Dir.flip : Dir → Dir
  | .fwd => .inv | .inv => .fwd

end Geodesy
