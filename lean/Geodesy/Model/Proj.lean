/-
Model of `token::parse_proj` and `tidy_proj` (`src/token/mod.rs`): translation of PROJ
definitions into Geodesy syntax.
-/
import Geodesy.Model.Params

namespace Geodesy
open Text
namespace Proj

/-- helper of `splitOnStr`: characters still to skip, remaining input, current piece (reversed) -/
def splitOnStrAux (pat : Str) : Nat → Str → Str → List Str
  | _, [], cur => [cur.reverse]
  | k + 1, _ :: cs, cur => splitOnStrAux pat k cs cur
  | 0, c :: cs, cur =>
    if pat.isPrefixOf (c :: cs) then cur.reverse :: splitOnStrAux pat (pat.length - 1) cs []
    else splitOnStrAux pat 0 cs (c :: cur)

/-- `str::split(pat)` for a non-empty string pattern -/
def splitOnStr (pat : Str) (s : Str) : List Str := splitOnStrAux pat 0 s []

/-- `str::trim_start_matches(pat)` for a string pattern: strip the prefix as often as it occurs.
The fuel is the length of the text, which bounds the number of occurrences. -/
def trimStartMatchesStr (pat : Str) : Nat → Str → Str
  | 0, s => s
  | fuel + 1, s => if !pat.isEmpty && pat.isPrefixOf s then trimStartMatchesStr pat fuel (s.drop pat.length) else s

def listSet {β : Type} (l : List β) (i : Nat) (v : β) : List β := l.set i v
def listRemove {β : Type} (l : List β) (i : Nat) : List β := l.take i ++ l.drop (i + 1)
def listInsert {β : Type} (l : List β) (i : Nat) (v : β) : List β := l.take i ++ v :: l.drop i

/-- index of the last element with the given prefix -/
def lastWithPrefix (pre : Str) (elements : List Str) : Option Nat :=
  (List.range elements.length).reverse.find? fun i => startsWith pre (elements.getD i [])

/-- `tidy_proj` -/
def tidyProj (elements : List Str) : List Str :=
  let e := lastWithPrefix (S "ellps=") elements
  let a := lastWithPrefix (S "a=") elements
  let rf := lastWithPrefix (S "rf=") elements
  let elements :=
    match e, a, rf with
    | none, some ai, some ri =>
      let av := (elements.getD ai []).drop 2
      let rv := (elements.getD ri []).drop 3
      let es := elements ++ [S "ellps=" ++ av ++ S "," ++ rv]
      if ai > ri then listRemove (listRemove es ai) ri else listRemove (listRemove es ri) ai
    | _, _, _ => elements
  -- the first `k=` becomes `k_0=`
  match (List.range elements.length).find? fun i => startsWith (S "k=") (elements.getD i []) with
  | some i => listSet elements i (S "k_0=" ++ (elements.getD i []).drop 2)
  | none => elements

structure Acc where
  steps : List Str := []
  globals : Str := []
  inverted : Bool := false

/-- the first half of a round: move `proj=…` to the front; for `proj=pipeline` collect the
pipeline globals and the pipeline-level `inv` instead of producing a step -/
def headStep (acc : Acc) (stepIndex : Nat) (elements : List Str) : Except Err (List Str × Acc) :=
  match (List.range elements.length).find? fun i => startsWith (S "proj=") (elements.getD i []) with
  | none => .ok (elements, acc)
  | some i =>
    let e0 := elements.getD 0 []
    let ei := elements.getD i []
    let elements := (elements.set i e0).set 0 (ei.drop 5)
    if elements.getD 0 [] == S "pipeline" then
      if stepIndex != 0 then .error .unsupported else
      let rest := elements.drop 1
      let inverted := acc.inverted || rest.contains (S "inv")
      let gl := (splitWs (trim (join (S " ") rest))).filter (fun x => trim x != S "inv") |>.map trim
      let gl := tidyProj gl
      .ok ([], { acc with globals := trim (join (S " ") gl), inverted := inverted })
    else .ok (elements, acc)

/-- the text of one translated step: globals right after the name, `inv` against the
pipeline's, `omit_*` exchanged when the pipeline is inverted -/
def stepText (acc : Acc) (elements : List Str) : Str :=
  let elements := if !acc.globals.isEmpty then listInsert elements 1 acc.globals else elements
  let stepInverted := elements.contains (S "inv")
  let elements := (elements.filter (· != S "inv")).map fun x =>
    if acc.inverted && x == S "omit_fwd" then S "omit_inv"
    else if acc.inverted && x == S "omit_inv" then S "omit_fwd" else x
  let elements := if stepInverted != acc.inverted then listInsert elements 1 (S "inv") else elements
  trim (join (S " ") elements)

/-- the second half: tidy, skip empty steps, add the step at the end (or the front, for an
inverted pipeline) -/
def finishStep (acc : Acc) (elements : List Str) : Acc :=
  let elements := tidyProj elements
  if (trim (join (S " ") elements)).isEmpty then acc else
  { acc with steps := if acc.inverted then stepText acc elements :: acc.steps else acc.steps ++ [stepText acc elements] }

/-- one round of the step loop of `parse_proj` -/
def stepRound (acc : Acc) (stepIndex : Nat) (step : Str) : Except Err Acc :=
  let elements := splitWs step
  if elements.any (startsWith (S "init=")) then .error .unsupported else
  match headStep acc stepIndex elements with
  | .error e => .error e
  | .ok (elements, acc) => .ok (finishStep acc elements)

def stepLoop : List Str → Nat → Acc → Except Err Acc
  | [], _, acc => .ok acc
  | s :: rest, i, acc =>
    match stepRound acc i s with
    | .error e => .error e
    | .ok acc' => stepLoop rest (i + 1) acc'

/-- `parse_proj` -/
def parseProj (definition : Str) : Except Err Str :=
  if definition.contains '|' || !containsStr (S "proj") definition then .ok definition else
  let all := replace (S "\r\n") (S "\n") definition
  let all := replace (S "\r") (S "\n") all
  let all := replace (S " +") (S " ") all
  let all := replace (S "\n+") (S "\n") all
  let all := trimStartMatches '+' (trim all)
  let trimmed := (lines all).foldl (fun acc line =>
      let part0 := (splitOn '#' (trim (trim line))).headD []
      acc ++ S " " ++ trim part0) []
  let trimmed := S " " ++ normalize trimmed ++ S " "
  let strip (x : Str) : Str := trimStartMatchesStr (S "step ") x.length (trim x)
  let steps := ((splitOnStr (S " step ") trimmed).filter fun x => !(strip x).isEmpty).map strip
  match stepLoop steps 0 {} with
  | .error e => .error e
  | .ok acc => .ok (trim (join (S " | ") acc.steps))

end Proj
end Geodesy
