/-
Model of `src/bin/kp.rs`: reading coordinate lines from the input files, defaults, batching,
transformation, formatting.  The library call (`ctx.apply`) is a parameter.
-/
import Geodesy.Model.Params
import Geodesy.Model.Coor

namespace Geodesy
open Text
namespace Kp

variable {R : Type} [Scalar R]

structure Opts (R : Type) where
  inverse : Bool := false
  roundtrip : Bool := false
  height : Option R := none
  time : Option R := none
  decimals : Option Nat := none
  dimension : Option Nat := none

/-- one input line: `none` for blank lines and comments, else the tuple and its column count -/
def parseLine (opts : Opts R) (line : Str) : Option (Coor R × Nat) :=
  let args := splitWs (trim line)
  -- remove comments: everything from the first word starting with '#'
  let args := args.takeWhile fun a => !(startsWith (S "#") a)
  let n := args.length
  if n < 1 then none else
  let defaults : List Str := [S "0", S "0", S "0", S "NaN", S "0"]
  let args := args ++ defaults.drop (min n 5)
  let b : List R := args.map fun e =>
    match Sexa.parse e with
    | some x => Sexa.eval x
    | none => Scalar.nan
  let b2 := match opts.height with | some h => h | none => b.getD 2 Scalar.nan
  let b3 := match opts.time with | some t => t | none => b.getD 3 Scalar.nan
  some (⟨b.getD 0 Scalar.nan, b.getD 1 Scalar.nan, b2, b3⟩, n)

/-- the state of the reading loop -/
structure St (R : Type) where
  operands : List (Coor R) := []
  dims : Nat := 0
  out : List String := []
  failed : Bool := false

/-- what `transform` prints for one batch (`none` = it returns an error) -/
abbrev Transform (R : Type) := Nat → List (Coor R) → Option (List String)

/-- one line of input -/
def feedLine (opts : Opts R) (batch : Nat) (tr : Transform R) (st : St R) (line : Str) : St R :=
  if st.failed then st else
  match parseLine opts line with
  | none => st
  | some (c, n) =>
    let dims := max st.dims n
    let operands := st.operands ++ [c]
    if operands.length == batch then
      match tr dims operands with
      | some lines => { st with operands := [], dims := dims, out := st.out ++ lines }
      | none => { st with operands := [], dims := dims, failed := true }
    else { st with operands := operands, dims := dims }

/-- a file: its lines, or unreadable -/
def feedFile (opts : Opts R) (batch : Nat) (tr : Transform R) (st : St R) (file : Option (List Str)) : St R :=
  if st.failed then st else
  match file with
  | none => { st with failed := true }
  | some lines => lines.foldl (feedLine opts batch tr) st

/-- `main` after the operator has been instantiated: stdout lines and success -/
def run (opts : Opts R) (batch : Nat) (tr : Transform R) (files : List (Option (List Str))) : List String × Bool :=
  let st := files.foldl (feedFile opts batch tr) {}
  if st.failed then (st.out, false) else
  match tr st.dims st.operands with
  | some lines => (st.out ++ lines, true)
  | none => (st.out, false)

/-- `transform`, given the library call and the number formatter -/
def transform (opts : Opts R) (apply : Dir → List (Coor R) → List (Coor R) × Nat)
    (fmt : Nat → R → String) (dims : Nat) (operands : List (Coor R)) : Option (List String) :=
  if operands.isEmpty then some [] else
  let outDim := opts.dimension.getD dims
  let dir : Dir := if opts.inverse then .inv else .fwd
  let r1 := apply dir operands
  let res : Option (List (Coor R)) :=
    if opts.roundtrip then
      let r2 := apply dir.flip r1.1
      if r2.2 != r1.2 then none else
      -- the residual of every tuple (NaN for the ones that failed)
      some (List.zipWith (fun (a b : Coor R) => (⟨a.c0 - b.c0, a.c1 - b.c1, a.c2 - b.c2, a.c3 - b.c3⟩ : Coor R))
              r2.1 operands)
    else some r1.1
  match res with
  | none => none
  | some data =>
    let first := (data.headD ⟨Scalar.nan, Scalar.nan, Scalar.nan, Scalar.nan⟩).c0
    let decimals := opts.decimals.getD (if Scalar.gt first (Scalar.ofNatLit 1000) then 5 else 10)
    some (data.map fun c =>
      let cols : List R :=
        if outDim == 1 then [c.c0] else if outDim == 2 then [c.c0, c.c1]
        else if outDim == 3 then [c.c0, c.c1, c.c2] else [c.c0, c.c1, c.c2, c.c3]
      String.join (cols.map fun v => fmt decimals v ++ " "))

/-! ### `{:.N}` formatting of a binary64 (executable reading) -/

/-- exact decimal rendering with `prec` fraction digits, round-half-even on the exact binary
value, as Rust's `format!("{:.prec$}", x)` -/
def fmtFloat (prec : Nat) (x : Float) : String :=
  if x.isNaN then "NaN"
  else if x.isInf then (if x < 0 then "-inf" else "inf")
  else
    let bits := x.toBits
    let neg := (bits >>> 63) == 1
    let expBits := ((bits >>> 52) &&& 0x7FF).toNat
    let frac := (bits &&& 0xFFFFFFFFFFFFF).toNat
    -- value = mant * 2^e
    let (mant, e) : Nat × Int := if expBits == 0 then (frac, -1074) else (frac + 2 ^ 52, (expBits : Int) - 1075)
    -- scaled = value * 10^prec as a rational p/q
    let (p, q) : Nat × Nat := if e ≥ 0 then (mant * 2 ^ e.toNat * 10 ^ prec, 1) else (mant * 10 ^ prec, 2 ^ (-e).toNat)
    let n := Lit.divRoundEven p q
    let digits := toString n
    let digits := if digits.length ≤ prec then String.ofList (List.replicate (prec + 1 - digits.length) '0') ++ digits else digits
    let ip := (digits.toList.take (digits.length - prec))
    let fp := (digits.toList.drop (digits.length - prec))
    (if neg then "-" else "") ++ String.ofList ip ++ (if prec > 0 then "." ++ String.ofList fp else "")

end Kp
end Geodesy
