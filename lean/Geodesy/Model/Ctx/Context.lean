/-
Model of the context providers (`context/minimal.rs`, `context/plain.rs`) as a state machine
over histories of API calls: `register_op`, `register_resource`, `op`, `apply`, `steps`,
`params`, and Plain's file based register look-up.
-/
import Geodesy.Model.Op
import Geodesy.Model.Proj

namespace Geodesy
open Text
namespace Ctx

variable {R : Type} [Scalar R]

/-- the state of a context: registrations and instantiated operators (handles are ordinals:
`OpHandle::new()` is a fresh UUID, modelled as a fresh number) -/
structure State (R : Type) where
  users : List (Str × Str)          -- name ↦ constructor id, later registrations win
  resources : List (Str × Str)
  operators : List (Op R)           -- handle k = position k
  plain : Bool := false

inductive Call (R : Type) where
  | registerOp (name ctor : Str)
  | registerResource (name body : Str)
  | op (definition : Str)
  | apply (handle : Nat) (dir : Dir) (data : List (Coor R))
  | steps (handle : Nat)
  | params (handle : Nat) (index : Nat)

inductive Out (R : Type) where
  | unit
  | handle (k : Nat)
  | err (e : Err)
  | applied (n : Nat) (data : List (Coor R))
  | stepList (l : List Str)
  | parsed (p : Parsed R)

/-- everything outside the state a context needs: constructors by id, built-ins, the files of
Plain, leaf semantics -/
structure World (R : Type) where
  ctorById : Str → Option (Ctor R)
  builtin : Str → Option (Ctor R)
  ellpsKnown : Str → Bool
  fileResource : Str → Option Str      -- Plain: look-up in resource files and registers
  sem : LeafSem R
  nan : R
  actionOf : ActionOf R
  globals : PMap

def lookupLast (l : List (Str × Str)) (k : Str) : Option Str := (l.reverse.find? (·.1 == k)).map (·.2)

def env (w : World R) (s : State R) : Env R :=
  { builtin := w.builtin
    user := fun name => match lookupLast s.users name with | some id => w.ctorById id | none => none
    resource := fun name =>
      match lookupLast s.resources name with
      | some b => some b
      | none => if s.plain then w.fileResource name else none
    ellpsKnown := w.ellpsKnown }

/-- one API call -/
def step (w : World R) (s : State R) : Call R → State R × Out R
  | .registerOp name ctor => ({ s with users := s.users ++ [(name, ctor)] }, .unit)
  | .registerResource name body => ({ s with resources := s.resources ++ [(name, body)] }, .unit)
  | .op definition =>
    match (if s.plain then Proj.parseProj definition else .ok definition) with
    | .error e => (s, .err e)
    | .ok d =>
      match Op.new (env w s) w.globals d with
      | .error e => (s, .err e)
      | .ok o => ({ s with operators := s.operators ++ [o] }, .handle s.operators.length)
  | .apply h dir data =>
    match s.operators[h]? with
    | none => (s, .err .general)
    | some o => let r := Geodesy.apply w.sem w.nan w.actionOf o dir data; (s, .applied r.2 r.1)
  | .steps h =>
    match s.operators[h]? with
    | none => (s, .err .general)
    | some o => (s, .stepList (splitIntoSteps o.node.definition))
  | .params h index =>
    match s.operators[h]? with
    | none => (s, .err .general)
    | some o =>
      if o.steps.isEmpty then
        (if index > 0 then (s, .err .general) else (s, .parsed o.node.params))
      else
        match o.steps[index]? with
        | none => (s, .err .general)
        | some st => (s, .parsed st.node.params)

def run (w : World R) : State R → List (Call R) → State R
  | s, [] => s
  | s, c :: rest => run w (step w s c).1 rest

/-! ### Plain: items of a register file -/

def findStr (pat : Str) : Str → Option Nat
  | [] => if pat.isEmpty then some 0 else none
  | c :: cs => if pat.isPrefixOf (c :: cs) then some 0 else (findStr pat cs).map (· + 1)

/-- the register branch of `Plain::get_resource`: text of the item fenced by
`` ```geodesy:suffix `` … `` ``` `` (or the end of the file) -/
def registerItem (content : Str) (suffix : Str) : Option Str :=
  let text := replace (S "\r") (S "\n") content
  let tag := S "```geodesy:" ++ suffix ++ S "\n"
  match findStr tag text with
  | none => none
  | some i =>
    let rest := text.drop (i + tag.length)
    match findStr (S "```") rest with
    | none => some (trim rest)
    | some len => some (trim (rest.take len))

end Ctx
end Geodesy
