/-
Line protocol helpers shared by the driver: escaping, hex floats, canonical dumps.
-/
import Geodesy.Model.Registry

namespace Geodesy
open Text
namespace Wire

def hexDigit (n : Nat) : Char := if n < 10 then Char.ofNat (48 + n) else Char.ofNat (87 + n)

def hexVal (c : Char) : Option Nat :=
  if '0' ≤ c && c ≤ '9' then some (c.toNat - 48)
  else if 'a' ≤ c && c ≤ 'f' then some (c.toNat - 87)
  else if 'A' ≤ c && c ≤ 'F' then some (c.toNat - 55)
  else none

def parseHex (s : Str) : Nat := s.foldl (fun acc c => acc * 16 + (hexVal c).getD 0) 0

def toHex (n : Nat) (width : Nat) : String :=
  let rec go : Nat → Nat → List Char → List Char
    | 0, _, acc => acc
    | w + 1, n, acc => go w (n / 16) (hexDigit (n % 16) :: acc)
  String.ofList (go width n [])

def natToHexMin (n : Nat) : String :=
  if n == 0 then "0" else
  let rec go : Nat → Nat → List Char → List Char
    | 0, _, acc => acc
    | f + 1, n, acc => if n == 0 then acc else go f (n / 16) (hexDigit (n % 16) :: acc)
  String.ofList (go 16 n [])

/-- escape a text: printable ASCII except backslash stays, the rest becomes \u{hex} -/
def escape (s : Str) : String :=
  String.join (s.map fun c =>
    if c == '\\' then "\\\\"
    else if c.toNat ≥ 0x20 && c.toNat ≤ 0x7E then String.singleton c
    else "\\u{" ++ natToHexMin c.toNat ++ "}")

/-- modes of the unescaper: 0 plain, 1 after a backslash, 2 after `\\u`, 3 inside `{…}` -/
def unescapeAux : Nat → Nat → Str → Str
  | _, _, [] => []
  | 0, _, c :: rest => if c == '\\' then unescapeAux 1 0 rest else c :: unescapeAux 0 0 rest
  | 1, _, c :: rest =>
    if c == '\\' then '\\' :: unescapeAux 0 0 rest
    else if c == 'u' then unescapeAux 2 0 rest
    else c :: unescapeAux 0 0 rest
  | 2, _, _ :: rest => unescapeAux 3 0 rest
  | _, acc, c :: rest =>
    if c == '}' then Char.ofNat acc :: unescapeAux 0 0 rest
    else unescapeAux 3 (acc * 16 + (hexVal c).getD 0) rest

def unescape (s : Str) : Str := unescapeAux 0 0 s

def fbits (x : Float) : String :=
  if x.isNaN then "7ff8000000000000" else toHex x.toBits.toNat 16

def parseFloat (s : String) : Float := Float.ofBits (UInt64.ofNat (parseHex s.toList))

def parseCoor (s : String) : Coor Float :=
  match (s.splitOn ",").map parseFloat with
  | [a, b, c, d] => ⟨a, b, c, d⟩
  | _ => ⟨0, 0, 0, 0⟩

def parseData (s : String) : List (Coor Float) :=
  if s.isEmpty then [] else (s.splitOn ";").map parseCoor

def dumpCoor (c : Coor Float) : String :=
  ",".intercalate (c.toList.map fbits)

def dumpData (d : List (Coor Float)) : String := ";".intercalate (d.map dumpCoor)

/-- byte-wise (= code point) lexicographic order of Rust `String`s -/
def strLt : Str → Str → Bool
  | [], [] => false
  | [], _ :: _ => true
  | _ :: _, [] => false
  | a :: as, b :: bs => if a.toNat < b.toNat then true else if a.toNat > b.toNat then false else strLt as bs

def sortBy {β : Type} (key : β → Str) (l : List β) : List β :=
  (l.toArray.qsort (fun a b => strLt (key a) (key b))).toList

def dumpPMap (m : PMap) : String :=
  "{" ++ ",".intercalate ((sortBy (·.1) m).map fun e => escape e.1 ++ "=" ++ escape e.2) ++ "}"

def dumpParsed (p : Parsed Float) : String :=
  let bools := ",".intercalate ((sortBy id p.boolean).map escape)
  let nats := ",".intercalate ((sortBy (·.1) p.natural).map fun e => escape e.1 ++ "=" ++ toString e.2)
  let ints := ",".intercalate ((sortBy (·.1) p.integer).map fun e => escape e.1 ++ "=" ++ toString e.2)
  let implicitDefault (e : Str × Float) : Bool :=
    (Parsed.zeroImplicit.contains e.1 && e.2.toBits == 0) || (Parsed.unitImplicit.contains e.1 && e.2 == 1.0)
  let reals := ",".intercalate (((sortBy (·.1) p.real).filter (fun e => !implicitDefault e)).map fun e =>
    escape e.1 ++ "=f:" ++ fbits e.2)
  let series := ",".intercalate ((sortBy (·.1) p.series).map fun e =>
    escape e.1 ++ "=[" ++ " ".intercalate (e.2.map fun x => "f:" ++ fbits x) ++ "]")
  let texts := ",".intercalate ((sortBy (·.1) p.texts).map fun e =>
    escape e.1 ++ "=[" ++ "|".intercalate (e.2.map escape) ++ "]")
  "name=" ++ escape p.name ++ " bool={" ++ bools ++ "} nat={" ++ nats ++ "} int={" ++ ints ++
  "} real={" ++ reals ++ "} series={" ++ series ++ "} text=" ++ dumpPMap p.text ++
  " texts={" ++ texts ++ "} given=" ++ dumpPMap p.given

/-- structure only: what every operator has, whatever its constructor derives -/
def dumpSkel (p : Parsed Float) : String :=
  let bools := ",".intercalate (((sortBy id p.boolean).filter fun k =>
    k == S "inv" || k == S "omit_fwd" || k == S "omit_inv").map escape)
  "name=" ++ escape p.name ++ " bool={" ++ bools ++ "} given=" ++ dumpPMap p.given

partial def dumpOpWith (full : Bool) (o : Op Float) : String :=
  let n := o.node
  "(" ++ (if n.inverted then "inverted " else "") ++ (if n.invertible then "invertible " else "") ++
  "def=" ++ escape n.definition ++ " " ++ (if full then dumpParsed n.params else dumpSkel n.params) ++
  " steps=[" ++ " ".intercalate (o.steps.map (dumpOpWith full)) ++ "])"

def dumpOp (o : Op Float) : String := dumpOpWith true o

end Wire
end Geodesy
