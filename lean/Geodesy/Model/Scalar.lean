/-
The scalar operations the numeric model is written against (no laws).  Three readings:
`Float` (this file; executable, used by the driver for the correspondence check),
`ℝ` and `ℚ` (in `Geodesy/Lemmas/Real.lean`; the readings theorems are stated in).
-/
import Geodesy.Model.Lit

namespace Geodesy

class Scalar (R : Type) extends Add R, Sub R, Mul R, Div R, Neg R where
  ofLit : Lit → R
  sqrt : R → R
  sin : R → R
  cos : R → R
  tan : R → R
  asin : R → R
  atan : R → R
  sinh : R → R
  cosh : R → R
  tanh : R → R
  asinh : R → R
  atanh : R → R
  exp : R → R
  ln : R → R
  floor : R → R
  ceil : R → R
  trunc : R → R
  abs : R → R
  /-- Rust `f64::signum`: ±1 according to the sign bit (so `signum 0 = 1`), NaN for NaN -/
  signum : R → R
  atan2 : R → R → R
  hypot : R → R → R
  pow : R → R → R
  copysign : R → R → R
  /-- Rust `%` on f64 (C `fmod`): truncated remainder, sign of the dividend -/
  fmod : R → R → R
  lt : R → R → Bool
  le : R → R → Bool
  beq : R → R → Bool
  isNaN : R → Bool
  /-- Rust `x as i64`: truncation towards zero, saturating, NaN ↦ 0 -/
  toI64 : R → Int
  /-- Rust `x as usize` (64 bit): truncation, saturating at 0 and 2^64-1, NaN ↦ 0 -/
  toUsize : R → Nat
  ofInt : Int → R
  /-- Rust `x as f32 as f64`: rounding to binary32 (the identity in the exact readings) -/
  toF32 : R → R
  isFinite : R → Bool
  pi : R
  /-- Rust `a.mul_add(b, c)`: fused in binary64, `a * b + c` in the exact readings -/
  mulAdd : R → R → R → R

namespace Scalar
variable {R : Type} [Scalar R]

def nan : R := ofLit .nan
def ofNatLit (n : Nat) : R := ofLit (.fin false n 0)
def ofSci (m : Nat) (s : Bool) (e : Nat) : R := ofLit (.fin false m (if s then -(e : Int) else e))

/-- low priority: must not capture numerals in theorem statements over ℝ / ℚ -/
instance (priority := low) instOfNat {n : Nat} : OfNat R n := ⟨ofNatLit n⟩
instance (priority := low) instOfScientific : OfScientific R := ⟨ofSci⟩

def gt (a b : R) : Bool := lt b a
def ge (a b : R) : Bool := le b a
def ne (a b : R) : Bool := !(beq a b)
/-- Rust `f64::to_radians`: `x * (π / 180)` -/
def toRadians (x : R) : R := x * (pi / (ofNatLit 180 : R))
/-- Rust `f64::to_degrees`: `x * (180 / π)` -/
def toDegrees (x : R) : R := x * ((ofNatLit 180 : R) / pi)
/-- Rust `f64::max` (NaN-ignoring) -/
def max (a b : R) : R := if isNaN a then b else if isNaN b then a else if lt a b then b else a
def min (a b : R) : R := if isNaN a then b else if isNaN b then a else if lt b a then b else a
def recip (a : R) : R := ofNatLit 1 / a
def sq (a : R) : R := a * a

/-- the loop of compiler-rt's `__powidf2` (what `f64::powi` compiles to): square and multiply -/
def powiLoop : Nat → R → R → Nat → R
  | 0, _, r, _ => r
  | fuel + 1, a, r, n =>
    let r := if n % 2 == 1 then r * a else r
    let n := n / 2
    if n == 0 then r else powiLoop fuel (a * a) r n

/-- Rust `f64::powi` -/
def powi (x : R) (n : Int) : R :=
  let r := powiLoop 64 x (ofNatLit 1) n.natAbs
  if n < 0 then ofNatLit 1 / r else r

/-- Rust `f64::fract`: `x - x.trunc()` -/
def fract (x : R) : R := x - trunc x
/-- Rust `f64::clamp` for `lo ≤ hi` (NaN stays NaN) -/
def clamp (x lo hi : R) : R := if lt x lo then lo else if gt x hi then hi else x
def isInfinite (x : R) : Bool := !isNaN x && !isFinite x

end Scalar

/-! ### the executable reading -/

namespace FloatImpl

def signBit (x : Float) : Bool := (x.toBits >>> 63) == 1

def copysign (x y : Float) : Float :=
  Float.ofBits ((x.toBits &&& 0x7FFFFFFFFFFFFFFF) ||| (y.toBits &&& 0x8000000000000000))

def signum (x : Float) : Float := if x.isNaN then x else copysign 1.0 x

def trunc (x : Float) : Float := if signBit x then Float.ceil x else Float.floor x

/-- exact remainder by binary long division: every subtraction `r - |y|·2^k` is exact -/
def fmodLoop (ay : Float) : Nat → Float → Float
  | 0, r => r
  | fuel + 1, r =>
    if r < ay then r else
    let k := (Float.frExp r).2 - (Float.frExp ay).2
    let t := ay.scaleB k
    let t := if t > r then ay.scaleB (k - 1) else t
    fmodLoop ay fuel (r - t)

/-- C `fmod` / Rust `%`: exact, sign of the dividend -/
def fmod (x y : Float) : Float :=
  if x.isNaN || y.isNaN || x.isInf || y == 0.0 then Float.ofBits 0x7FF8000000000000
  else if y.isInf then x
  else copysign (fmodLoop y.abs 2200 x.abs) x

def toI64 (x : Float) : Int :=
  if x.isNaN then 0
  else if x ≥ 9223372036854775808.0 then 9223372036854775807
  else if x ≤ -9223372036854775808.0 then -9223372036854775808
  else x.toInt64.toInt

def toUsize (x : Float) : Nat :=
  if x.isNaN then 0
  else if x ≥ 18446744073709551616.0 then 18446744073709551615
  else if x ≤ 0.0 then 0
  else x.toUInt64.toNat

/-! The C library functions that Lean's `Float` does not offer but Rust's `f64` calls.  They are
bound for the executable reading only (the driver is compiled and linked against libm, as the
implementation is); no theorem mentions them. -/
@[extern "hypot"] opaque hypot : Float → Float → Float
@[extern "log1p"] opaque log1p : Float → Float
@[extern "fma"] opaque fma : Float → Float → Float → Float

/-- Rust's `f64::asinh` (std, not libm): `(|x| + |x| / (hypot(1, 1/|x|) + 1/|x|)).ln_1p().copysign(x)` -/
def asinh (x : Float) : Float :=
  let ax := x.abs
  let ix := 1.0 / ax
  copysign (log1p (ax + ax / (hypot 1.0 ix + ix))) x

/-- Rust's `f64::atanh` (std, not libm): `0.5 * ((2 x) / (1 - x)).ln_1p()` -/
def atanh (x : Float) : Float := 0.5 * log1p ((2.0 * x) / (1.0 - x))

end FloatImpl

instance : Scalar Float where
  ofLit := Lit.toFloat
  sqrt := Float.sqrt
  sin := Float.sin
  cos := Float.cos
  tan := Float.tan
  asin := Float.asin
  atan := Float.atan
  sinh := Float.sinh
  cosh := Float.cosh
  tanh := Float.tanh
  asinh := FloatImpl.asinh
  atanh := FloatImpl.atanh
  exp := Float.exp
  ln := Float.log
  floor := Float.floor
  ceil := Float.ceil
  trunc := FloatImpl.trunc
  abs := Float.abs
  signum := FloatImpl.signum
  atan2 := Float.atan2
  hypot := FloatImpl.hypot
  pow := Float.pow
  copysign := FloatImpl.copysign
  fmod := FloatImpl.fmod
  lt := fun a b => a < b
  le := fun a b => a ≤ b
  beq := fun a b => a == b
  isNaN := Float.isNaN
  toI64 := FloatImpl.toI64
  toUsize := FloatImpl.toUsize
  ofInt := Float.ofInt
  toF32 := fun x => x.toFloat32.toFloat
  isFinite := Float.isFinite
  pi := Float.ofBits 0x400921FB54442D18
  mulAdd := FloatImpl.fma

end Geodesy
