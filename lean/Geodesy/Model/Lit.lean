/-
Numeric literals: the acceptance grammar of Rust's `f64::from_str`, `usize::from_str`,
`i64::from_str`, the exact value of an accepted literal, and (for the executable
`Float` reading only) the correctly rounded IEEE-754 binary64 bit pattern, which is what
Rust documents `f64::from_str` to return.
-/
import Geodesy.Model.Text

namespace Geodesy
open Text

/-- what `f64::from_str` can return, before rounding: `mant · 10^exp10` with sign -/
inductive Lit where
  | nan
  | inf (neg : Bool)
  | fin (neg : Bool) (mant : Nat) (exp10 : Int)
  deriving Repr, DecidableEq, Inhabited

namespace Lit

def isDigit (c : Char) : Bool := '0' ≤ c && c ≤ '9'

def digitsToNat (ds : Str) : Nat := ds.foldl (fun acc c => acc * 10 + (c.toNat - '0'.toNat)) 0

/-- split a leading run of ASCII digits -/
def spanDigits (s : Str) : Str × Str := (s.takeWhile isDigit, s.dropWhile isDigit)

/-- optional sign -/
def takeSign : Str → Bool × Str
  | '-' :: r => (true, r)
  | '+' :: r => (false, r)
  | r => (false, r)

/-- exponent part after the mantissa: "" or [eE][+-]?digit+ ; returns the exponent -/
def parseExp : Str → Option Int
  | [] => some 0
  | c :: r =>
    if c == 'e' || c == 'E' then
      let (neg, r) := takeSign r
      let (ds, rest) := spanDigits r
      if ds.isEmpty || !rest.isEmpty then none
      else some (if neg then -(digitsToNat ds : Int) else (digitsToNat ds : Int))
    else none

/-- `f64::from_str` acceptance and exact value -/
def parseF64 (s : Str) : Option Lit :=
  let (neg, r) := takeSign s
  let lower := toLowerAscii r
  if lower == S "inf" || lower == S "infinity" then some (.inf neg)
  else if lower == S "nan" then some .nan
  else
    let (ip, r1) := spanDigits r
    match r1 with
    | '.' :: r2 =>
      let (fp, r3) := spanDigits r2
      if ip.isEmpty && fp.isEmpty then none else
      match parseExp r3 with
      | some e => some (.fin neg (digitsToNat (ip ++ fp)) (e - fp.length))
      | none => none
    | _ =>
      if ip.isEmpty then none else
      match parseExp r1 with
      | some e => some (.fin neg (digitsToNat ip) e)
      | none => none

/-- `usize::from_str` (64 bit): `+`? digit+, no overflow -/
def parseUsize (s : Str) : Option Nat :=
  let r := match s with | '+' :: r => r | r => r
  if r.isEmpty || !r.all isDigit then none
  else
    let v := digitsToNat r
    if v < 2 ^ 64 then some v else none

/-- `i64::from_str`: [+-]? digit+, in range -/
def parseI64 (s : Str) : Option Int :=
  let (neg, r) := takeSign s
  if r.isEmpty || !r.all isDigit then none
  else
    let v : Int := digitsToNat r
    let v := if neg then -v else v
    if -(2 ^ 63 : Int) ≤ v && v < (2 ^ 63 : Int) then some v else none

/-! ### correctly rounded conversion to binary64 (executable reading only) -/

/-- round-half-even of `p / q` (q > 0) to a natural number -/
def divRoundEven (p q : Nat) : Nat :=
  let m := p / q
  let r := p % q
  if 2 * r < q then m else if 2 * r > q then m + 1 else if m % 2 == 0 then m else m + 1

/-- bits of the binary64 nearest (ties to even) to `p / q`, `p, q > 0`, sign excluded -/
def ratToBits (p q : Nat) : UInt64 :=
  -- estimate e = floor(log2(p/q)), off by at most one
  let e0 : Int := (p.log2 : Int) - (q.log2 : Int)
  -- exact: p/q ≥ 2^e0 ?
  let ge (e : Int) : Bool := if e ≥ 0 then p ≥ q * 2 ^ e.toNat else p * 2 ^ (-e).toNat ≥ q
  let e : Int := if ge e0 then (if ge (e0 + 1) then e0 + 1 else e0) else e0 - 1
  let unitExp : Int := max (e - 52) (-1074)
  let m := if unitExp ≥ 0 then divRoundEven p (q * 2 ^ unitExp.toNat)
           else divRoundEven (p * 2 ^ (-unitExp).toNat) q
  let (m, unitExp) := if m == 2 ^ 53 then (2 ^ 52, unitExp + 1) else (m, unitExp)
  if m < 2 ^ 52 then UInt64.ofNat m            -- subnormal (or zero)
  else
    let biased := unitExp + 52 + 1023
    if biased ≥ 2047 then 0x7FF0000000000000
    else UInt64.ofNat (biased.toNat * 2 ^ 52 + (m - 2 ^ 52))

def decimalDigits (n : Nat) : Nat := (Nat.toDigits 10 n).length

/-- the bit pattern `f64::from_str` returns for the literal -/
def toBits : Lit → UInt64
  | .nan => 0x7FF8000000000000
  | .inf false => 0x7FF0000000000000
  | .inf true => 0xFFF0000000000000
  | .fin neg mant e10 =>
    let sign : UInt64 := if neg then 0x8000000000000000 else 0
    if mant == 0 then sign else
    let d : Int := decimalDigits mant
    if d - 1 + e10 ≥ 309 then sign ||| 0x7FF0000000000000
    else if d + e10 ≤ -324 then sign
    else if e10 ≥ 0 then sign ||| ratToBits (mant * 10 ^ e10.toNat) 1
    else sign ||| ratToBits mant (10 ^ (-e10).toNat)

def toFloat (l : Lit) : Float := Float.ofBits l.toBits

end Lit
end Geodesy
