/-
Model of the string handling the Rust code relies on (`str::trim`, `split_whitespace`,
`replace`, `lines`, `split`) and of `src/token/mod.rs` (`normalize`, `split_into_steps`,
`split_into_parameters`, `is_pipeline`, `operator_name`, `is_resource_name`).

Strings are `List Char` (Unicode scalar values).  No Mathlib, everything computable and
structurally recursive so that the functions can be both run by the driver and reasoned
about.
-/
namespace Geodesy

abbrev Str := List Char

namespace Text

/-- Rust's `char::is_whitespace` = Unicode `White_Space` (25 code points). -/
def isWs (c : Char) : Bool :=
  let n := c.toNat
  (0x9 ≤ n && n ≤ 0xD) || n == 0x20 || n == 0x85 || n == 0xA0 || n == 0x1680 ||
  (0x2000 ≤ n && n ≤ 0x200A) || n == 0x2028 || n == 0x2029 || n == 0x202F ||
  n == 0x205F || n == 0x3000

def trimStart (s : Str) : Str := s.dropWhile isWs
def trimEnd (s : Str) : Str := (s.reverse.dropWhile isWs).reverse
/-- `str::trim` -/
def trim (s : Str) : Str := trimEnd (trimStart s)

/-- `str::trim_matches(c)` -/
def trimMatches (c : Char) (s : Str) : Str :=
  ((s.dropWhile (· == c)).reverse.dropWhile (· == c)).reverse
def trimStartMatches (c : Char) (s : Str) : Str := s.dropWhile (· == c)
def trimEndMatches (c : Char) (s : Str) : Str := (s.reverse.dropWhile (· == c)).reverse

/-- helper of `splitWs`: remaining input, current token (reversed) -/
def splitWsAux : Str → Str → List Str
  | [], cur => if cur.isEmpty then [] else [cur.reverse]
  | c :: cs, cur =>
    if isWs c then
      (if cur.isEmpty then splitWsAux cs [] else cur.reverse :: splitWsAux cs [])
    else splitWsAux cs (c :: cur)

/-- `str::split_whitespace().collect()` -/
def splitWs (s : Str) : List Str := splitWsAux s []

def splitOnAux (sep : Char) : Str → Str → List Str
  | [], cur => [cur.reverse]
  | c :: cs, cur =>
    if c == sep then cur.reverse :: splitOnAux sep cs [] else splitOnAux sep cs (c :: cur)

/-- `str::split(char).collect()` : always at least one element -/
def splitOn (sep : Char) (s : Str) : List Str := splitOnAux sep s []

def splitOnAnyAux (seps : List Char) : Str → Str → List Str
  | [], cur => [cur.reverse]
  | c :: cs, cur =>
    if seps.contains c then cur.reverse :: splitOnAnyAux seps cs []
    else splitOnAnyAux seps cs (c :: cur)

/-- `str::split(&[c1, c2][..])` -/
def splitOnAny (seps : List Char) (s : Str) : List Str := splitOnAnyAux seps s []

/-- `[..].join(sep)` -/
def join (sep : Str) : List Str → Str
  | [] => []
  | [a] => a
  | a :: b :: rest => a ++ sep ++ join sep (b :: rest)

/-- helper of `replace`: number of characters still to skip (they belong to a match
already replaced), then the remaining input -/
def replaceAux (pat to : Str) : Nat → Str → Str
  | _, [] => []
  | k + 1, _ :: cs => replaceAux pat to k cs
  | 0, c :: cs =>
    if pat.isPrefixOf (c :: cs) then to ++ replaceAux pat to (pat.length - 1) cs
    else c :: replaceAux pat to 0 cs

/-- `str::replace(pat, to)` for a non-empty pattern: non-overlapping, left to right -/
def replace (pat to : Str) (s : Str) : Str := replaceAux pat to 0 s

/-- helper of `containsStr` -/
def containsStr (pat : Str) : Str → Bool
  | [] => pat.isEmpty
  | c :: cs => pat.isPrefixOf (c :: cs) || containsStr pat cs

def startsWith (pat s : Str) : Bool := pat.isPrefixOf s
def endsWith (pat s : Str) : Bool := pat.reverse.isPrefixOf s.reverse

def stripPrefix (pat s : Str) : Option Str :=
  if pat.isPrefixOf s then some (s.drop pat.length) else none

/-- `str::lines()`: split at `\n`, drop one trailing `\r` of each line, no final empty line -/
def lines (s : Str) : List Str :=
  let parts := splitOn '\n' s
  -- every part but the last was terminated by `\n`: one trailing `\r` goes with it
  let stripped := parts.dropLast.map fun l => if l.getLast? == some '\r' then l.dropLast else l
  match parts.getLast? with
  | some [] => stripped
  | some l => stripped ++ [l]
  | none => stripped

/-- ASCII part of `str::to_lowercase` (the only use is a comparison with "true"; the
claim that no non-ASCII scalar lowercases into one of t, r, u, e is validated
exhaustively by the correspondence run) -/
def toLowerAscii (s : Str) : Str :=
  s.map fun c => if 'A' ≤ c && c ≤ 'Z' then Char.ofNat (c.toNat + 32) else c

def S (s : String) : Str := s.toList

/-- the subscript digits and their `_n` spellings -/
def subscripts : List (Str × Str) :=
  [ (S "₀=", S "_0="), (S "₁=", S "_1="), (S "₂=", S "_2="), (S "₃=", S "_3="), (S "₄=", S "_4="),
    (S "₅=", S "_5="), (S "₆=", S "_6="), (S "₇=", S "_7="), (S "₈=", S "_8="), (S "₉=", S "_9=") ]

/-- the twelve "glue" replacements of `normalize`, in the order of the code -/
def glue : List (Str × Str) :=
  [ (S "= ", S "="), (S ": ", S ":"), (S ", ", S ","), (S "| ", S "|"), (S "> ", S ">"), (S "< ", S "<"),
    (S " =", S "="), (S " :", S ":"), (S " ,", S ","), (S " |", S "|"), (S " >", S ">"), (S " <", S "<") ]

def replaceAll (rs : List (Str × Str)) (s : Str) : Str :=
  rs.foldl (fun acc r => replace r.1 r.2 acc) s

/-- `Tokenize::normalize` -/
def normalize (s : Str) : Str :=
  -- line ending sanity, continuation markers and comments (as `split_into_steps` does for pipelines)
  let s := trim s
  let s := replace (S "\r\n") (S "\n") s
  let s := replace (S "\r") (S "\n") s
  let s := replace (S "\n:") (S "\n") s
  let s := join (S "\n") ((lines s).map fun line => (splitOn '#' line).headD [])
  let s := trim s
  let s := trimMatches ':' s
  let s := join (S " ") (splitWs s)
  let s := replaceAll glue s
  let s := replace (S ">") (S "|omit_inv ") s
  let s := replace (S "<") (S "|omit_fwd ") s
  let s := replaceAll subscripts s
  let s := replace (S "$ ") (S "$") s
  join (S " ") (splitWs s)

/-- `Tokenize::split_into_steps` -/
def splitIntoSteps (s : Str) : List Str :=
  let all := trim s
  let all := replace (S "\r\n") (S "\n") all
  let all := replace (S "\r") (S "\n") all
  let all := replace (S "\n:") (S "\n") all
  let trimmed := (lines all).foldl (fun acc line =>
      let line := trim line
      let part0 := (splitOn '#' (trim line)).headD []
      -- `line[0].starts_with('#')` can never be true: part0 holds no '#'
      acc ++ S " " ++ trim part0) []
  (splitOn '|' (normalize trimmed)).filter (fun x => !x.isEmpty)

def modifiers : List Str := [S "inv", S "omit_fwd", S "omit_inv"]

/-- the modifier rotation loop of `split_into_parameters`, as the (repaired) code has it:
at most `elements.len()` rotations -/
def rotateModifiers : Nat → List Str → List Str
  | 0, es => es
  | _ + 1, [] => []
  | fuel + 1, e :: es =>
    if modifiers.contains e then rotateModifiers fuel (es ++ [e]) else e :: es

/-- `BTreeMap<String,String>` as an association list with unique keys -/
abbrev PMap := List (Str × Str)

def PMap.get? (m : PMap) (k : Str) : Option Str := (m.find? (·.1 == k)).map (·.2)
def PMap.erase (m : PMap) (k : Str) : PMap := m.filter (·.1 != k)
/-- `BTreeMap::insert`: the new binding replaces any earlier one for the key (the order of the
list is immaterial: look-ups are by key and every dump is sorted) -/
def PMap.insert (m : PMap) (k v : Str) : PMap := (k, v) :: m.filter (·.1 != k)
def PMap.extend (m : PMap) (n : PMap) : PMap := n.foldl (fun acc e => acc.insert e.1 e.2) m
def PMap.contains (m : PMap) (k : Str) : Bool := m.any (·.1 == k)

def nameKey : Str := S "_name"

/-- the loop over the elements of `split_into_parameters` -/
def collectParams (elements : List Str) : PMap :=
  elements.foldl (fun params element =>
    let parts := splitOn '=' (trim element) ++ [S "true"]
    if params.isEmpty && parts.length == 2 then params.insert nameKey (parts.headD [])
    else params.insert (parts.headD []) (parts.getD 1 [])) []

/-- `Tokenize::split_into_parameters` -/
def splitIntoParameters (s : Str) : PMap :=
  let elements := splitWs (normalize s)
  if elements.isEmpty then [] else
  collectParams (rotateModifiers elements.length elements)

/-- `Tokenize::is_pipeline` -/
def isPipeline (s : Str) : Bool := s.contains '|' || s.contains '<' || s.contains '>'

/-- `Tokenize::operator_name` -/
def operatorName (s : Str) : Str :=
  if isPipeline s then [] else ((splitIntoParameters s).get? nameKey).getD []

/-- `Tokenize::is_resource_name` -/
def isResourceName (s : Str) : Bool := (operatorName s).contains ':'

end Text
end Geodesy
