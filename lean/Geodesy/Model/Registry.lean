/-
The table of modelled built-in constructors and leaf semantics, i.e. the model's counterpart
of `BUILTIN_OPERATORS` in `src/inner_op/mod.rs`.  The generated file `Gen/Tables.lean` holds
the operator names found in the source; the check compares the two lists.
-/
import Geodesy.Model.Ops.Basic
import Geodesy.Model.Ops.Helmert
import Geodesy.Model.Ops.Adapt
import Geodesy.Model.Ops.Merc
import Geodesy.Model.Ops.Omerc
import Geodesy.Model.Ops.Geodesic
import Geodesy.Model.Ops.Latitude
import Geodesy.Model.Ops.Curvature
import Geodesy.Model.Ops.Gravity
import Geodesy.Model.Ops.Iso6709
import Geodesy.Model.Ops.Tmerc
import Geodesy.Model.Ops.Btmerc
import Geodesy.Model.Ops.Laea
import Geodesy.Model.Ops.Somerc
import Geodesy.Model.Ops.Cart
import Geodesy.Model.Ops.Lcc
import Geodesy.Model.Ops.GridOps

namespace Geodesy
open Text
namespace Registry

variable (R : Type) [Scalar R]

/-- constructors by built-in name -/
def builtin (ce : Ops.CtorEnv) (name : Str) : Option (Ctor R) :=
  if name == S "addone" then some (Ops.addone ce)
  else if [S "noop", S "longlat", S "latlon", S "latlong", S "lonlat"].contains name then some (Ops.noop ce)
  else if name == S "stack" then some (Ops.stackNew R ce)
  else if name == S "push" then some (Ops.legacyPush ce)
  else if name == S "pop" then some (Ops.legacyPop ce)
  else if name == S "axisswap" then some (Ops.axisswapNew R ce)
  else if name == S "helmert" then some (Ops.Helmert.new R ce)
  else if name == S "adapt" then some (Ops.Adapt.new R ce)
  else if name == S "unitconvert" then some (Ops.Unitconvert.new R ce)
  else if name == S "merc" then some (Ops.Merc.new R ce)
  else if name == S "webmerc" then some (Ops.Webmerc.new R ce)
  else if name == S "omerc" then some (Ops.Omerc.new R ce)
  else if name == S "geodesic" then some (Ops.Geodesic.new R ce)
  else if name == S "latitude" then some (Ops.Latitude.new R ce)
  else if name == S "curvature" then some (Ops.Curvature.new R ce)
  else if name == S "gravity" then some (Ops.Gravity.new R ce)
  else if name == S "dm" then some (Ops.Iso6709.dmNew R ce)
  else if name == S "dms" then some (Ops.Iso6709.dmsNew R ce)
  else if name == S "tmerc" then some (Ops.Tmerc.new R ce)
  else if name == S "utm" then some (Ops.Tmerc.utmNew R ce)
  else if name == S "btmerc" then some (Ops.Btmerc.new R ce)
  else if name == S "butm" then some (Ops.Btmerc.utmNew R ce)
  else if name == S "laea" then some (Ops.Laea.new R ce)
  else if name == S "somerc" then some (Ops.Somerc.new R ce)
  else if name == S "cart" then some (Ops.Cart.new R ce)
  else if name == S "molodensky" then some (Ops.Molodensky.new R ce)
  else if name == S "permtide" then some (Ops.Permtide.new R ce)
  else if name == S "lcc" then some (Ops.Lcc.new R ce)
  else if name == S "gridshift" then some (Ops.Gridshift.new R ce)
  else if name == S "deformation" then some (Ops.Deformation.new R ce)
  else if name == S "deflection" then some (Ops.Deflection.new R ce)
  else none

/-- names of the built-ins the model covers (besides `pipeline`) -/
def modelled : List String :=
  ["addone", "noop", "longlat", "latlon", "latlong", "lonlat", "stack", "push", "pop", "axisswap", "helmert", "adapt", "unitconvert", "merc", "webmerc", "omerc", "geodesic", "latitude", "curvature", "gravity", "dm", "dms", "tmerc", "utm", "btmerc", "butm", "laea", "somerc", "cart", "molodensky", "permtide", "lcc", "gridshift", "deformation", "deflection"]

/-- leaf semantics by constructor tag; `genv` are the grids the context serves -/
def sem (genv : Grid.GridEnv R) : LeafSem R := fun t params dir data =>
  if t == S "addone" then Ops.addoneSem dir data
  else if t == S "noop" then Ops.noopSem data
  else if t == S "axisswap" then Ops.axisswapSem R params dir data
  else if t == S "helmert" then Ops.Helmert.sem params dir data
  else if t == S "adapt" then Ops.Adapt.sem params dir data
  else if t == S "unitconvert" then Ops.Unitconvert.sem params dir data
  else if t == S "merc" then Ops.Merc.sem params dir data
  else if t == S "webmerc" then Ops.Webmerc.sem params dir data
  else if t == S "omerc" then Ops.Omerc.sem params dir data
  else if t == S "geodesic" then Ops.Geodesic.sem params dir data
  else if t == S "latitude" then Ops.Latitude.sem params dir data
  else if t == S "curvature" then Ops.Curvature.sem params dir data
  else if t == S "gravity" then Ops.Gravity.sem params dir data
  else if t == S "dm" then Ops.Iso6709.dmSem params dir data
  else if t == S "dms" then Ops.Iso6709.dmsSem params dir data
  else if t == S "tmerc" then Ops.Tmerc.sem params dir data
  else if t == S "btmerc" then Ops.Btmerc.sem params dir data
  else if t == S "laea" then Ops.Laea.sem params dir data
  else if t == S "somerc" then Ops.Somerc.sem params dir data
  else if t == S "cart" then Ops.Cart.sem params dir data
  else if t == S "molodensky" then Ops.Molodensky.sem params dir data
  else if t == S "permtide" then Ops.Permtide.sem params dir data
  else if t == S "lcc" then Ops.Lcc.sem params dir data
  else if t == S "gridshift" then Ops.Gridshift.sem genv params dir data
  else if t == S "deformation" then Ops.Deformation.sem genv params dir data
  else if t == S "deflection" then Ops.Deflection.sem genv params dir data
  else if t == S "stack" || t == S "push" || t == S "pop" then Ops.placeholderSem data
  else (data, 0)

end Registry
end Geodesy
