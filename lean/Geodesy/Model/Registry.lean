/-
The table of modelled built-in constructors and leaf semantics, i.e. the model's counterpart
of `BUILTIN_OPERATORS` in `src/inner_op/mod.rs`.  The generated file `Gen/Tables.lean` holds
the operator names found in the source; the check compares the two lists.
-/
import Geodesy.Model.Ops.Basic
import Geodesy.Model.Ops.Helmert
import Geodesy.Model.Ops.Adapt
import Geodesy.Model.Ops.Merc

namespace Geodesy
open Text
namespace Registry

variable (R : Type) [Scalar R]

/-- constructors by built-in name -/
def builtin (ce : Ops.CtorEnv) (name : Str) : Option (Ctor R) :=
  if name == S "addone" then some (Ops.addone ce)
  else if [S "noop", S "longlat", S "latlon", S "latlong", S "lonlat"].contains name then some (Ops.noop ce)
  else if name == S "stack" then some (Ops.stackNew R ce)
  else if name == S "push" then some (Ops.legacyPush ce)
  else if name == S "pop" then some (Ops.legacyPop ce)
  else if name == S "axisswap" then some (Ops.axisswapNew R ce)
  else if name == S "helmert" then some (Ops.Helmert.new R ce)
  else if name == S "adapt" then some (Ops.Adapt.new R ce)
  else if name == S "unitconvert" then some (Ops.Unitconvert.new R ce)
  else if name == S "merc" then some (Ops.Merc.new R ce)
  else if name == S "webmerc" then some (Ops.Webmerc.new R ce)
  else none

/-- names of the built-ins the model covers (besides `pipeline`) -/
def modelled : List String :=
  ["addone", "noop", "longlat", "latlon", "latlong", "lonlat", "stack", "push", "pop", "axisswap", "helmert", "adapt", "unitconvert", "merc", "webmerc"]

/-- leaf semantics by constructor tag -/
def sem : LeafSem R := fun t params dir data =>
  if t == S "addone" then Ops.addoneSem dir data
  else if t == S "noop" then Ops.noopSem data
  else if t == S "axisswap" then Ops.axisswapSem R params dir data
  else if t == S "helmert" then Ops.Helmert.sem params dir data
  else if t == S "adapt" then Ops.Adapt.sem params dir data
  else if t == S "unitconvert" then Ops.Unitconvert.sem params dir data
  else if t == S "merc" then Ops.Merc.sem params dir data
  else if t == S "webmerc" then Ops.Webmerc.sem params dir data
  else if t == S "stack" || t == S "push" || t == S "pop" then Ops.placeholderSem data
  else (data, 0)

end Registry
end Geodesy
