/-
Model of the coordinate containers: `CoordinateTuple` (`coordinate/tuple.rs`: tuples of 2, 3, 4
elements with the trait's default methods) and `CoordinateSet` (`coordinate/set.rs`: how a
container of such tuples presents itself as 4-D tuples, incl. the height / epoch adapters).
-/
import Geodesy.Model.Coor
import Geodesy.Model.Scalar

namespace Geodesy
namespace Data
variable {R : Type}

/-- a coordinate tuple (of dimension 2, 3 or 4 for the library's own types, any dimension for a user's): its
elements in order -/
structure Tuple (R : Type) where
  vals : List R
  deriving Inhabited

namespace Tuple
def dim (t : Tuple R) : Nat := t.vals.length

/-- `nth`: NaN out of range -/
def nth (nan : R) (t : Tuple R) (n : Nat) : R := if n < t.dim then t.vals.getD n nan else nan

/-- `fill` -/
def fill (t : Tuple R) (v : R) : Tuple R := ⟨t.vals.map fun _ => v⟩

/-- `set_nth`: out of range fills the tuple with NaN -/
def setNth (nan : R) (t : Tuple R) (n : Nat) (v : R) : Tuple R :=
  if n < t.dim then ⟨t.vals.set n v⟩ else t.fill nan

/-- the typed accessors `x y z t` (trait defaults) -/
def x (nan : R) (t : Tuple R) : R := t.vals.getD 0 nan
def y (nan : R) (t : Tuple R) : R := if t.dim > 1 then t.vals.getD 1 nan else nan
def z (nan : R) (t : Tuple R) : R := if t.dim > 2 then t.vals.getD 2 nan else nan
def tt (nan : R) (t : Tuple R) : R := if t.dim > 3 then t.vals.getD 3 nan else nan

/-- `set_xy` (default): both or, if the tuple is too short, all-NaN -/
def setXy (nan : R) (t : Tuple R) (a b : R) : Tuple R :=
  if t.dim > 1 then ⟨(t.vals.set 0 a).set 1 b⟩ else t.fill nan

def setXyz (nan : R) (t : Tuple R) (a b c : R) : Tuple R :=
  if t.dim > 2 then ⟨((t.vals.set 0 a).set 1 b).set 2 c⟩ else t.fill nan

def setXyzt (nan : R) (t : Tuple R) (a b c d : R) : Tuple R :=
  if t.dim > 3 then ⟨(((t.vals.set 0 a).set 1 b).set 2 c).set 3 d⟩ else t.fill nan

/-- one round of the loop of `update` -/
def updateStep (value : List R) (vals : List R) (i : Nat) : List R :=
  match value[i]? with
  | some v => vals.set i v
  | none => vals

/-- `update(&[f64])`: `for i in 0..min(value.len(), dim) { set_nth_unchecked(i, value[i]) }` -/
def update (t : Tuple R) (value : List R) : Tuple R :=
  ⟨(List.range (min value.length t.dim)).foldl (updateStep value) t.vals⟩

/-- `scale` (trait default): every element of the tuple, whatever its dimension, times the factor -/
def scale [Mul R] (t : Tuple R) (factor : R) : Tuple R := ⟨t.vals.map fun v => v * factor⟩

/-- `dot` (trait default): the products of the elements, added up from the first one on -/
def dot [Mul R] [Add R] (zero nan : R) (t other : Tuple R) : R :=
  (List.range t.dim).foldl (fun r i => r + t.nth nan i * other.nth nan i) zero
end Tuple

/-- the kinds of container elements and adapters `CoordinateSet` is implemented for -/
inductive Kind (R : Type) where
  | c2 | c3 | c4
  | withHeightEpoch (inner : Kind R) (h t : R)    -- `(T, f64, f64)`
  | withEpoch (inner : Kind R) (t : R)            -- `(T, f64)`

/-- number of elements the underlying tuples store -/
def Kind.stored : Kind R → Nat
  | .c2 => 2 | .c3 => 3 | .c4 => 4
  | .withHeightEpoch k _ _ => k.stored
  | .withEpoch k _ => k.stored

/-- `get_coord`: how a stored tuple (its first `stored` elements) is presented as 4-D -/
def Kind.get (zero nan : R) : Kind R → List R → Coor R
  | .c2, v => ⟨v.getD 0 nan, v.getD 1 nan, zero, nan⟩
  | .c3, v => ⟨v.getD 0 nan, v.getD 1 nan, v.getD 2 nan, nan⟩
  | .c4, v => ⟨v.getD 0 nan, v.getD 1 nan, v.getD 2 nan, v.getD 3 nan⟩
  | .withHeightEpoch k h t, v => let c := k.get zero nan v; ⟨c.c0, c.c1, h, t⟩
  | .withEpoch k t, v => let c := k.get zero nan v; ⟨c.c0, c.c1, c.c2, t⟩

/-- `set_coord`: what is stored of a 4-D tuple -/
def Kind.set : Kind R → Coor R → List R
  | .c2, c => [c.c0, c.c1]
  | .c3, c => [c.c0, c.c1, c.c2]
  | .c4, c => [c.c0, c.c1, c.c2, c.c3]
  | .withHeightEpoch k _ _, c => k.set c
  | .withEpoch k _, c => k.set c

/-- the trait default of `xy(i)`: through `get_coord` -/
def Kind.xyDefault (zero nan : R) (k : Kind R) (v : List R) : R × R :=
  let c := k.get zero nan v; (c.c0, c.c1)

/-- the specialised `xy(i)` of the 2-D/3-D/4-D containers: straight from the stored tuple -/
def Kind.xyFast (nan : R) (v : List R) : R × R := (v.getD 0 nan, v.getD 1 nan)

/-- the trait default of `set_xy(i, x, y)`: get, overwrite two elements, set -/
def Kind.setXyDefault (zero nan : R) (k : Kind R) (v : List R) (a b : R) : List R :=
  let c := k.get zero nan v; k.set { c with c0 := a, c1 := b }

/-- the specialised `set_xy` of the basic containers: overwrite two stored elements -/
def Kind.setXyFast (v : List R) (a b : R) : List R := (v.set 0 a).set 1 b

end Data
end Geodesy
