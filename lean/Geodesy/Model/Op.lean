/-
Model of `src/op/mod.rs` (`Op::op`, `handle_inversion`, `Op::apply`) and of
`src/inner_op/pipeline.rs` (`pipeline::new`, `pipeline_fwd`, `pipeline_inv`).

Leaf operators are abstract here: a constructor table (`Env.ctor`) turns raw parameters into
a node, and a semantics function (`LeafSem`) applies a node to data.  Everything proved about
this file therefore holds for all operators at once.
-/
import Geodesy.Model.Params
import Geodesy.Model.Stack
import Geodesy.Gen.Tables

namespace Geodesy
open Text

/-- what an operator constructor returns, less the steps -/
structure Node (R : Type) where
  /-- which constructor made it (the built-in's name, "pipeline", or a user constructor's id) -/
  tag : Str
  definition : Str
  invertible : Bool
  inverted : Bool := false
  params : Parsed R
  deriving Inhabited

inductive Op (R : Type) where
  | mk (node : Node R) (steps : List (Op R))
  deriving Inhabited

namespace Op
variable {R : Type}
def node : Op R → Node R | .mk n _ => n
def steps : Op R → List (Op R) | .mk _ s => s
def setNode (o : Op R) (n : Node R) : Op R := .mk n o.steps
end Op

abbrev Ctor (R : Type) := RawParameters → Except Err (Node R)

/-- the constructors the context can reach -/
structure Env (R : Type) where
  /-- `inner_op::builtin(name)`: the built-in constructors other than `pipeline` -/
  builtin : Str → Option (Ctor R)
  /-- the user constructors registered with `register_op`, most recent registration wins -/
  user : Str → Option (Ctor R)
  /-- `ctx.get_resource(name)` -/
  resource : Str → Option Str
  ellpsKnown : Str → Bool

def pipelineTag : Str := S "pipeline"
/-- `pipeline::new` parses its own parameters with an empty gamut: modifiers belong to the steps -/
def pipelineGamut : List OpParameter := []

section inst
variable {R : Type} [Scalar R]

/-- `Op::handle_inversion` -/
def handleInversion (o : Op R) (inverted : Bool) : Except Err (Op R) :=
  let n := o.node
  if n.invertible then
    .ok (if inverted then o.setNode { n with inverted := !n.inverted } else o)
  else if inverted then .error .nonInvertible
  else .ok o

/-- `Op::handle_op_inversion` -/
def handleOpInversion (o : Op R) : Except Err (Op R) := handleInversion o (o.node.params.flagSet (S "inv"))

/-- value of a modifier among the arguments of a macro invocation -/
def argSet (args : PMap) (k : Str) : Bool :=
  match args.get? k with
  | some v => Parsed.isTrue v
  | none => false

def setOmits (o : Op R) (args : PMap) : Op R :=
  let n := o.node
  let p := if argSet args (S "omit_fwd") then n.params.setFlag (S "omit_fwd") else n.params
  let p := if argSet args (S "omit_inv") then p.setFlag (S "omit_inv") else p
  o.setNode { n with params := p }

def clearOmits (p : Parsed R) : Parsed R :=
  { p with boolean := p.boolean.filter (fun k => k != S "omit_fwd" && k != S "omit_inv") }

/-- `List::mapM` for `Except`, spelled out -/
def mapExcept {β γ : Type} (f : β → Except Err γ) : List β → Except Err (List γ)
  | [] => .ok []
  | b :: bs =>
    match f b with
    | .error e => .error e
    | .ok c =>
      match mapExcept f bs with
      | .error e => .error e
      | .ok cs => .ok (c :: cs)

/-- the same for functions that may run out of fuel (`none`): in order, stopping at the first
error -/
def mapFuel {β γ : Type} (f : β → Option (Except Err γ)) : List β → Option (Except Err (List γ))
  | [] => some (.ok [])
  | b :: bs =>
    match f b with
    | none => none
    | some (.error e) => some (.error e)
    | some (.ok c) =>
      match mapFuel f bs with
      | none => none
      | some (.error e) => some (.error e)
      | some (.ok cs) => some (.ok (c :: cs))

/-- `pipeline::new`, given the instantiation of the steps -/
def pipelineFinish (env : Env R) (p : RawParameters) (steps : Except Err (List (Op R))) : Except Err (Op R) :=
  match steps with
  | .error e => .error e
  | .ok steps =>
    match Parsed.new env.ellpsKnown p pipelineGamut with
    | .error e => .error e
    | .ok params =>
      .ok (.mk { tag := pipelineTag, definition := p.definition, invertible := true,
                 params := clearOmits params } steps)

/-- the leaf constructors: user-registered first (for names without a colon), then built-in -/
def leafCtor (env : Env R) (p : RawParameters) (c : Ctor R) : Except Err (Op R) :=
  match c p with
  | .ok n => handleOpInversion (.mk n [])
  | .error e => .error e

/-- `Op::op`.  The fuel stands for the recursion counter: every recursive call goes through
`RawParameters::next`, which increases `level`, and `level > 100` is refused; `none` = out of
fuel, which `instantiate_fuel_sufficient` shows impossible for `fuel + level ≥ 102`. -/
def instantiate (env : Env R) : Nat → RawParameters → Option (Except Err (Op R))
  | 0, _ => none
  | fuel + 1, p =>
    if p.nestingTooDeep then some (.error .recursion) else
    let name := operatorName p.definition
    -- `pipeline::new`
    let pipelineNew : Unit → Option (Except Err (Op R)) := fun _ =>
      (mapFuel (fun s => instantiate env fuel (p.next s)) (splitIntoSteps p.definition)).map
        (pipelineFinish env p)
    if isPipeline p.definition then pipelineNew ()
    else
      let viaBuiltin : Unit → Option (Except Err (Op R)) := fun _ =>
        if name == pipelineTag then
          (pipelineNew ()).map fun r =>
            match r with
            | .ok o => handleOpInversion o
            | .error e => .error e
        else
        match env.builtin name with
        | some c => some (leafCtor env p c)
        | none => some (.error .notFound)
      if !isResourceName name then
        match env.user name with
        | some c => some (leafCtor env p c)
        | none => viaBuiltin ()
      else
        match env.resource name with
        | some body =>
          let args := splitIntoParameters p.definition
          let inverted := argSet args (S "inv")
          let nextParam := { p.next p.definition with definition := body }
          (instantiate env fuel nextParam).map fun r =>
            match r with
            | .ok o =>
              match handleInversion o inverted with
              | .ok o => .ok (setOmits o args)
              | .error e => .error e
            | .error e => .error e
        | none => viaBuiltin ()

/-- `Op::new(definition, ctx)` with the full allowance of the recursion counter -/
def Op.new (env : Env R) (globals : PMap) (definition : Str) : Except Err (Op R) :=
  match instantiate env (RawParameters.limit + 2) (RawParameters.new definition globals) with
  | some r => r
  | none => .error .general   -- unreachable (`instantiate_fuel_sufficient`)

end inst

/-! ### application -/

variable {α : Type}

/-- semantics of the leaf operators: constructor tag, parameters, *effective* direction, data
(no built-in looks at its own `inverted` flag: `Op::apply` has already taken it into account) -/
abbrev LeafSem (α : Type) := Str → Parsed α → Dir → List (Coor α) → List (Coor α) × Nat

/-- the stack related meaning of a step inside a pipeline (dispatch is on `params.name`) -/
inductive StackStep where
  | legacyPush (flags : Fin 4 → Bool)
  | legacyPop (flags : Fin 4 → Bool)
  | stack (action : Option Stack.Action)

def legacyFlags (p : Parsed α) : Fin 4 → Bool
  | 0 => p.flagSet (S "v_1") | 1 => p.flagSet (S "v_2")
  | 2 => p.flagSet (S "v_3") | 3 => p.flagSet (S "v_4")

/-- the `action` a `stack` step's parameters stand for (`stackAction` is supplied by the model
of the `stack` constructor: it reads `action` and the argument series back) -/
abbrev ActionOf (α : Type) := Parsed α → Option Stack.Action

def classify (actionOf : ActionOf α) (p : Parsed α) : Option StackStep :=
  if p.name == S "push" then some (.legacyPush (legacyFlags p))
  else if p.name == S "pop" then some (.legacyPop (legacyFlags p))
  else if p.name == S "stack" then some (.stack (actionOf p))
  else none

/-- the stack related meaning of a STEP: only an elementary step can be a stack operator; a nested
pipeline (a macro whose text starts with `push`, `pop` or `stack`) carries that name without
being one -/
def stackClass (actionOf : ActionOf α) : Op α → Option StackStep
  | .mk node [] => classify actionOf node.params
  | .mk _ (_ :: _) => none

structure PState (α : Type) where
  cols : Stack.Cols α
  data : List (Coor α)
  n : Option Nat     -- `usize::MAX` = none

def PState.record (s : PState α) (cols : Stack.Cols α) (data : List (Coor α)) (m : Nat) : PState α :=
  { cols, data, n := some (match s.n with | none => m | some k => min k m) }

mutual
/-- `Op::apply` -/
def apply (sem : LeafSem α) (nan : α) (actionOf : ActionOf α) : Op α → Dir → List (Coor α) → List (Coor α) × Nat
  | .mk node steps, dir, data =>
    -- `inverted != forward` selects the forward function
    let eff : Dir := if node.inverted != (dir == .fwd) then .fwd else .inv
    if node.tag == pipelineTag then
      let s := match eff with
        | .fwd => runFwd sem nan actionOf steps ⟨[], data, none⟩
        | .inv => runInv sem nan actionOf steps ⟨[], data, none⟩
      (s.data, match s.n with | none => data.length | some k => k)
    else sem node.tag node.params eff data

/-- the loop of `pipeline_fwd` -/
def runFwd (sem : LeafSem α) (nan : α) (actionOf : ActionOf α) : List (Op α) → PState α → PState α
  | [], s => s
  | step :: rest, s =>
    let p := step.node.params
    if p.flagSet (S "omit_fwd") then runFwd sem nan actionOf rest s else
    let s' :=
      match stackClass actionOf step with
      | some (.legacyPush f) => let r := Stack.legacyPush s.cols s.data f; s.record r.1 r.2.1 r.2.2
      | some (.legacyPop f) => let r := Stack.legacyPop nan s.cols s.data f; s.record r.1 r.2.1 r.2.2
      | some (.stack (some a)) => let r := Stack.fwd nan s.cols s.data a; s.record r.1 r.2.1 r.2.2
      | some (.stack none) => s.record s.cols s.data 0
      | none => let r := apply sem nan actionOf step .fwd s.data; s.record s.cols r.1 r.2
    runFwd sem nan actionOf rest s'

/-- the loop of `pipeline_inv` (`steps.iter().rev()`): the later steps act first -/
def runInv (sem : LeafSem α) (nan : α) (actionOf : ActionOf α) : List (Op α) → PState α → PState α
  | [], s => s
  | step :: rest, s =>
    let s := runInv sem nan actionOf rest s
    let p := step.node.params
    if p.flagSet (S "omit_inv") then s else
    match stackClass actionOf step with
    | some (.legacyPush f) => let r := Stack.legacyPop nan s.cols s.data f; s.record r.1 r.2.1 r.2.2
    | some (.legacyPop f) => let r := Stack.legacyPush s.cols s.data f; s.record r.1 r.2.1 r.2.2
    | some (.stack (some a)) => let r := Stack.inv nan s.cols s.data a; s.record r.1 r.2.1 r.2.2
    | some (.stack none) => s.record s.cols s.data 0
    | none => let r := apply sem nan actionOf step .inv s.data; s.record s.cols r.1 r.2
end

end Geodesy

namespace Geodesy
open Text
variable {R : Type} [Scalar R]

/-- unfolding of `instantiate` for a pipeline definition -/
theorem instantiate_pipeline (env : Env R) (fuel : Nat) (p : RawParameters)
    (hdeep : p.nestingTooDeep = false) (hpipe : isPipeline p.definition = true) :
    instantiate env (fuel + 1) p =
      (mapFuel (fun s => instantiate env fuel (p.next s)) (splitIntoSteps p.definition)).map
        (pipelineFinish env p) := by
  rw [instantiate]
  simp only [hdeep, hpipe, Bool.false_eq_true, if_false, if_true]

end Geodesy
