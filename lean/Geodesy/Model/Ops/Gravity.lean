/-
Model of `src/ellipsoid/gravity.rs` (the `Gravity` trait: normal gravity formulas and height
corrections) and of `src/inner_op/gravity.rs` (the `gravity` operator).  Input is
(latitude in DEGREES, height) in the first two elements; the first element is replaced by the
normal gravity.  Forward only; no tuple can fail.
-/
import Geodesy.Model.Ops.Basic
import Geodesy.Model.Num.Ellipsoid

namespace Geodesy
open Text

/-! ### `trait Gravity` (`src/ellipsoid/gravity.rs`) -/

namespace Ellipsoid

variable {R : Type} [Scalar R] (el : Ellipsoid R)

/-- `somigliana_gravity(latitude, gamma_a, gamma_b)` (`None` = the GRS80 values) -/
def somiglianaGravity (latitude : R) (gammaA gammaB : Option R) : R :=
  let ga : R := gammaA.getD 9.7803267715
  let gb : R := gammaB.getD 9.8321863685
  let a := el.a
  let b := el.semiminorAxis
  let es := el.eccentricitySquared
  let p := b * gb / (a * ga) - 1.0
  let s := Scalar.powi (Scalar.sin latitude) 2
  ga * (1.0 + p * s) / Scalar.sqrt (1.0 - s * es)

/-- the common shape of the 1930, 1948 and 1967 formulas:
`GAMMA_A * (1.0 + s1 * BETA_1 - s2 * BETA_2)` -/
def classicGravity (gammaA beta1 beta2 latitude : R) : R :=
  let s1 := Scalar.powi (Scalar.sin latitude) 2
  let s2 := Scalar.powi (Scalar.sin (latitude * 2.0)) 2
  gammaA * (1.0 + s1 * beta1 - s2 * beta2)

/-- `cassinis_gravity_1930` (the ellipsoid is not used) -/
def cassinisGravity1930 (_el : Ellipsoid R) (latitude : R) : R :=
  classicGravity 9.78049 5.2884e-3 5.9e-6 latitude

/-- `jeffreys_gravity_1948` -/
def jeffreysGravity1948 (_el : Ellipsoid R) (latitude : R) : R :=
  classicGravity 9.780373 5.2884e-3 5.9e-6 latitude

/-- `grs67_gravity` -/
def grs67Gravity (_el : Ellipsoid R) (latitude : R) : R :=
  classicGravity 9.780318 5.3024e-3 5.9e-6 latitude

/-- `grs80_gravity` -/
def grs80Gravity (_el : Ellipsoid R) (latitude : R) : R :=
  let gammaA : R := 9.7803267715
  let c1 : R := 5.2790414e-3
  let c2 : R := 2.327180e-5
  let c3 : R := 1.262e-7
  let c4 : R := 7.0e-10
  let s := Scalar.powi (Scalar.sin latitude) 2
  gammaA * (1.0 + s * (c1 + s * (c2 + s * (c3 + s * c4))))

/-- `cassinis_height_correction(height, density)` -/
def cassinisHeightCorrection (_el : Ellipsoid R) (height density : R) : R :=
  (3.08e-6 - 4.19e-10 * density) * height

/-- `grs67_height_correction(latitude, height)` -/
def grs67HeightCorrection (_el : Ellipsoid R) (latitude height : R) : R :=
  ((3.0877e-6 - 4.3e-9 * Scalar.powi (Scalar.sin latitude) 2) + 7.2e-13 * height) * height

/-- `welmec(latitude, height)` -/
def welmec (_el : Ellipsoid R) (latitude height : R) : R :=
  let s1 := Scalar.powi (Scalar.sin latitude) 2
  let s2 := Scalar.powi (Scalar.sin (latitude * 2.0)) 2
  (1.0 + 0.0053024 * s1 - 0.0000058 * s2) * 9.780318 - 0.000003085 * height

end Ellipsoid

/-! ### the operator (`src/inner_op/gravity.rs`) -/

namespace Ops
namespace Gravity

variable {R : Type} [Scalar R]

def gamut : List OpParameter := Gen.gamut_gravity_GAMUT

/-- the formula flags in the order in which `for flag in &op.params.boolean` (a `BTreeSet`)
meets them -/
def valid : List Str := ["cassinis", "grs67", "grs80", "jeffreys", "welmec"].map S

/-- `gravity::new`: at most one formula; `action` defaults to `grs80`; no inverse -/
def new (R : Type) [Scalar R] (ce : CtorEnv) (raw : RawParameters) : Except Err (Node R) :=
  match plain (R := R) ce "gravity" false gamut raw with
  | .error e => .error e
  | .ok n =>
    let p := n.params
    let given := valid.filter fun flag => p.flagSet flag
    if given.length > 1 then .error .missingParam else
    let p := p.setText (S "action") (S "grs80")
    let p := match given with
      | flag :: _ => p.setText (S "action") flag
      | [] => p
    .ok { n with params := p }

/-- the common loop: `coord[0]` is replaced, every tuple counts -/
def mapFirst (f : R → R → R) (data : List (Coor R)) : List (Coor R) × Nat :=
  (data.map fun c => { c with c0 := f c.c0 c.c1 }, data.length)

def welmecLoop (ellps : Ellipsoid R) (zeroHeight : Bool) (data : List (Coor R)) : List (Coor R) × Nat :=
  mapFirst (fun c0 c1 =>
    let latitude := Scalar.toRadians c0
    let height : R := if zeroHeight then 0.0 else c1
    ellps.welmec latitude height) data

def grs80Loop (ellps : Ellipsoid R) (zeroHeight : Bool) (data : List (Coor R)) : List (Coor R) × Nat :=
  mapFirst (fun c0 c1 =>
    let latitude := Scalar.toRadians c0
    let g := ellps.grs80Gravity latitude
    if !zeroHeight then g - ellps.grs67HeightCorrection latitude c1 else g) data

def grs67Loop (ellps : Ellipsoid R) (zeroHeight : Bool) (data : List (Coor R)) : List (Coor R) × Nat :=
  mapFirst (fun c0 c1 =>
    let latitude := Scalar.toRadians c0
    let g := ellps.grs67Gravity latitude
    if !zeroHeight then g - ellps.grs67HeightCorrection latitude c1 else g) data

def jeffreysLoop (ellps : Ellipsoid R) (zeroHeight : Bool) (data : List (Coor R)) : List (Coor R) × Nat :=
  mapFirst (fun c0 c1 =>
    let latitude := Scalar.toRadians c0
    let g := ellps.jeffreysGravity1948 latitude
    if !zeroHeight then g - ellps.cassinisHeightCorrection c1 2800.0 else g) data

def cassinisLoop (ellps : Ellipsoid R) (zeroHeight : Bool) (data : List (Coor R)) : List (Coor R) × Nat :=
  mapFirst (fun c0 c1 =>
    let latitude := Scalar.toRadians c0
    let g := ellps.cassinisGravity1930 latitude
    if !zeroHeight then g - ellps.cassinisHeightCorrection c1 2800.0 else g) data

def fwd (p : Parsed R) (data : List (Coor R)) : List (Coor R) × Nat :=
  let ellps := p.ellps 0
  let zeroHeight := p.flagSet (S "zero-height")
  match p.text? (S "action") with
  | none => (data, 0)
  | some action =>
    if action == S "welmec" then welmecLoop ellps zeroHeight data
    else if action == S "grs80" then grs80Loop ellps zeroHeight data
    else if action == S "grs67" then grs67Loop ellps zeroHeight data
    else if action == S "jeffreys" then jeffreysLoop ellps zeroHeight data
    else if action == S "cassinis" then cassinisLoop ellps zeroHeight data
    else (data, 0)

/-- the constructor supplies no inverse: the placeholder does nothing and reports 0 -/
def sem (p : Parsed R) (dir : Dir) (data : List (Coor R)) : List (Coor R) × Nat :=
  match dir with
  | .fwd => fwd p data
  | .inv => (data, 0)

end Gravity
end Ops
end Geodesy
