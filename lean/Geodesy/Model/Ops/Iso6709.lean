/-
Model of `src/inner_op/iso6709.rs` (the operators `dm` and `dms`) and of
`Coor4D::{iso_dm, iso_dms}`.  The functions of `src/math/angular.rs` they use (`iso_dm_to_dd`,
`dd_to_iso_dm`, `iso_dms_to_dd`, `dd_to_iso_dms`) are modelled in `Model/Num/Angular.lean`.

Forward: (latitude, longitude) as `DDDMM.mmm` / `DDDMMSS.sss` numbers ↦ (longitude, latitude) in
radians.  Inverse: (longitude, latitude) in radians ↦ (latitude, longitude) as such numbers.
No tuple can fail.
-/
import Geodesy.Model.Ops.Basic
import Geodesy.Model.Num.Angular

namespace Geodesy
open Text

namespace Ops
namespace Iso6709

variable {R : Type} [Scalar R]

def gamut : List OpParameter := Gen.gamut_iso6709_GAMUT

/-- `iso6709::dm` -/
def dmNew (R : Type) [Scalar R] (ce : CtorEnv) : Ctor R := plain ce "dm" true gamut
/-- `iso6709::dms` -/
def dmsNew (R : Type) [Scalar R] (ce : CtorEnv) : Ctor R := plain ce "dms" true gamut

/-- `Coor4D::geo(latitude, longitude, height, time)` -/
def geo (latitude longitude height time : R) : Coor R :=
  ⟨Scalar.toRadians longitude, Scalar.toRadians latitude, height, time⟩

/-- `Coor4D::iso_dm(latitude, longitude, height, time)` -/
def isoDm (latitude longitude height time : R) : Coor R :=
  let longitude := Angular.isoDmToDd longitude
  let latitude := Angular.isoDmToDd latitude
  geo latitude longitude height time

/-- `Coor4D::iso_dms(latitude, longitude, height, time)` -/
def isoDms (latitude longitude height time : R) : Coor R :=
  let longitude := Angular.isoDmsToDd longitude
  let latitude := Angular.isoDmsToDd latitude
  geo latitude longitude height time

def dmFwd (o : Coor R) : Coor R := isoDm o.c0 o.c1 o.c2 o.c3
def dmsFwd (o : Coor R) : Coor R := isoDms o.c0 o.c1 o.c2 o.c3

def dmInv (o : Coor R) : Coor R :=
  let longitude := Angular.ddToIsoDm (Scalar.toDegrees o.c0)
  let latitude := Angular.ddToIsoDm (Scalar.toDegrees o.c1)
  ⟨latitude, longitude, o.c2, o.c3⟩

def dmsInv (o : Coor R) : Coor R :=
  let longitude := Angular.ddToIsoDms (Scalar.toDegrees o.c0)
  let latitude := Angular.ddToIsoDms (Scalar.toDegrees o.c1)
  ⟨latitude, longitude, o.c2, o.c3⟩

def mapAll (f : Coor R → Coor R) (data : List (Coor R)) : List (Coor R) × Nat :=
  (data.map f, data.length)

def dmSem (_p : Parsed R) (dir : Dir) (data : List (Coor R)) : List (Coor R) × Nat :=
  match dir with
  | .fwd => mapAll dmFwd data
  | .inv => mapAll dmInv data

def dmsSem (_p : Parsed R) (dir : Dir) (data : List (Coor R)) : List (Coor R) × Nat :=
  match dir with
  | .fwd => mapAll dmsFwd data
  | .inv => mapAll dmsInv data

end Iso6709
end Ops
end Geodesy
