/-
Model of `src/inner_op/helmert.rs`: constructor (alias resolution, arcsec → rad, ppm, `t_obs`
folding), `rotation_matrix`, `helmert_common` (the per-tuple loop WITH the state it carries from
one tuple to the next: `TT`, `SS`, `ROT`, `prev_t`).
-/
import Geodesy.Model.Ops.Basic

namespace Geodesy
open Text
namespace Ops
namespace Helmert

variable (R : Type) [Scalar R]

def gamut : List OpParameter := Gen.gamut_helmert_GAMUT

structure V3 (R : Type) where
  a : R
  b : R
  c : R
  deriving Inhabited

structure M3 (R : Type) where
  r1 : V3 R
  r2 : V3 R
  r3 : V3 R
  deriving Inhabited

variable {R}

def zero : R := Scalar.ofNatLit 0
def one : R := Scalar.ofNatLit 1

/-- `rotation_matrix(r, exact, position_vector)` -/
def rotationMatrix (r : V3 R) (exact positionVector : Bool) : M3 R :=
  let rx := r.a; let ry := r.b; let rz := r.c
  let sx := if exact then Scalar.sin rx else rx
  let sy := if exact then Scalar.sin ry else ry
  let sz := if exact then Scalar.sin rz else rz
  let cx : R := if exact then Scalar.cos rx else one
  let cy : R := if exact then Scalar.cos ry else one
  let cz : R := if exact then Scalar.cos rz else one
  let r11 := cy * cz
  let r12 := cx * sz
  let r13 := -cx * sy * cz
  let r21 := -cy * sz
  let r22 := cx * cz
  let r23 := sx * cz
  let r31 := sy
  let r32 := -sx * cy
  let r33 := cx * cy
  let r12 := if exact then r12 + sx * sy * cz else r12
  let r13 := if exact then r13 + sx * sz else r13
  let r22 := if exact then r22 - sx * sy * sz else r22
  let r23 := if exact then r23 + cx * sy * sz else r23
  if positionVector then ⟨⟨r11, r21, r31⟩, ⟨r12, r22, r32⟩, ⟨r13, r23, r33⟩⟩
  else ⟨⟨r11, r12, r13⟩, ⟨r21, r22, r23⟩, ⟨r31, r32, r33⟩⟩

/-- the parameters the constructor stores (`T`, `R`, `S`, `DT`, `DR`, `DS`, flags, `t_epoch`) -/
structure Params (R : Type) where
  T : V3 R
  Rot : V3 R
  S : R
  DT : V3 R
  DR : V3 R
  DS : R
  rotated : Bool
  dynamic : Bool
  fixedTime : Bool
  exact : Bool
  positionVector : Bool
  epoch : R
  deriving Inhabited

def Params.rotMatrix (p : Params R) : M3 R := rotationMatrix p.Rot p.exact p.positionVector

def isZero3 (v : V3 R) : Bool :=
  Scalar.beq v.a (zero : R) && Scalar.beq v.b (zero : R) && Scalar.beq v.c (zero : R)

/-- `if params.real(k)? != 0. { params.real(k)? } else { alt }` -/
def pick (x alt : R) : R := if Scalar.ne x (zero : R) then x else alt

/-- arc seconds to radians: `(x / 3600.).to_radians()` -/
def arcsec (x : R) : R := Scalar.toRadians (x / Scalar.ofNatLit 3600)

def ppm : R := Scalar.ofLit (.fin false 1 (-6))

/-- the constructor's computation on the parsed parameters; errors as in the code -/
def derive (p : Parsed R) : Except Err (Params R) :=
  let real (k : String) : R := (p.real? (S k)).getD zero
  let series (k : String) : List R := (p.series? (S k)).getD []
  match series "translation", series "velocity", series "rotation", series "angular_velocity" with
  | [t0, t1, t2], vel, rot, av =>
    let T : V3 R := ⟨pick (real "x") t0, pick (real "y") t1, pick (real "z") t2⟩
    match vel with
    | [v0, v1, v2] =>
      let DT : V3 R := ⟨pick (real "dx") v0, pick (real "dy") v1, pick (real "dz") v2⟩
      match rot with
      | [r0, r1, r2] =>
        let Rr : V3 R := ⟨arcsec (pick (real "rx") r0), arcsec (pick (real "ry") r1), arcsec (pick (real "rz") r2)⟩
        match av with
        | [a0, a1, a2] =>
          let DR : V3 R := ⟨arcsec (pick (real "drx") a0), arcsec (pick (real "dry") a1), arcsec (pick (real "drz") a2)⟩
          let convention := (p.text? (S "convention")).getD []
          let rotated := !(isZero3 Rr && isZero3 DR)
          if rotated && !(convention == S "position_vector" || convention == S "coordinate_frame") then
            .error .badParam
          else
          let positionVector := !(rotated && convention == S "coordinate_frame")
          let scale := pick (real "scale") (real "s")
          let S0 : R := one + scale * ppm
          let scaleTrend := pick (real "scale_trend") (real "ds")
          let DS : R := scaleTrend * ppm
          let dynamic := !(isZero3 DT && isZero3 DR && Scalar.beq DS (zero : R))
          let epoch := (p.real? (S "t_epoch")).getD Scalar.nan
          let tObs := (p.real? (S "t_obs")).getD Scalar.nan
          if dynamic && Scalar.isNaN epoch then .error .missingParam else
          let fixed := dynamic && !(Scalar.isNaN tObs)
          let dt := tObs - epoch
          let T' : V3 R := if fixed then ⟨T.a + DT.a * dt, T.b + DT.b * dt, T.c + DT.c * dt⟩ else T
          let R' : V3 R := if fixed then ⟨Rr.a + DR.a * dt, Rr.b + DR.b * dt, Rr.c + DR.c * dt⟩ else Rr
          let S' : R := if fixed then S0 + DS * dt else S0
          .ok { T := T', Rot := R', S := S', DT, DR, DS, rotated, dynamic, fixedTime := fixed,
                exact := p.flagSet (S "exact"), positionVector, epoch }
        | _ => .error .badParam
      | _ => .error .badParam
    | _ => .error .badParam
  | _, _, _, _ => .error .badParam

variable (R)
/-- `helmert::new` -/
def new (ce : CtorEnv) (raw : RawParameters) : Except Err (Node R) :=
  match plain (R := R) ce "helmert" true gamut raw with
  | .error e => .error e
  | .ok n =>
    match derive n.params with
    | .error e => .error e
    | .ok hp =>
      -- what the constructor stores for use at run time
      let p := n.params
      let p := if hp.rotated then p.setFlag (S "rotated") else p
      let p := if hp.positionVector then p.setFlag (S "position_vector") else p
      let p := if hp.dynamic then p.setFlag (S "dynamic") else p
      let p := if hp.fixedTime then p.setFlag (S "fixed_time") else p
      let v (x : V3 R) : List R := [x.a, x.b, x.c]
      let m := hp.rotMatrix
      let p := (((p.setSeries (S "T") (v hp.T)).setSeries (S "DT") (v hp.DT)).setSeries (S "R") (v hp.Rot)).setSeries
        (S "DR") (v hp.DR)
      let p := (p.setReal (S "S") hp.S).setReal (S "DS") hp.DS
      let p := p.setSeries (S "ROTFLAT") (v m.r1 ++ v m.r2 ++ v m.r3)
      .ok { n with params := p }
variable {R}

/-- the state `helmert_common` carries from one tuple to the next -/
structure LoopState (R : Type) where
  TT : V3 R
  SS : R
  ROT : M3 R
  prevT : R

def initState (p : Params R) : LoopState R := ⟨p.T, p.S, p.rotMatrix, Scalar.nan⟩

/-- the parameter update at the top of the loop body -/
def update (p : Params R) (st : LoopState R) (t : R) : LoopState R :=
  if p.dynamic && !p.fixedTime && Scalar.ne t st.prevT then
    let dt := t - p.epoch
    let TT : V3 R := ⟨p.T.a + dt * p.DT.a, p.T.b + dt * p.DT.b, p.T.c + dt * p.DT.c⟩
    let ROT := if p.rotated then
        rotationMatrix ⟨p.Rot.a + dt * p.DR.a, p.Rot.b + dt * p.DR.b, p.Rot.c + dt * p.DR.c⟩ p.exact p.positionVector
      else st.ROT
    ⟨TT, p.S + dt * p.DS, ROT, t⟩
  else st

/-- the transformation of one tuple with the current parameters -/
def transform (p : Params R) (st : LoopState R) (dir : Dir) (c : Coor R) : Coor R :=
  let m := st.ROT
  match dir with
  | .fwd =>
    if p.rotated then
      let x := c.c0 * m.r1.a + c.c1 * m.r1.b + c.c2 * m.r1.c
      let y := c.c0 * m.r2.a + c.c1 * m.r2.b + c.c2 * m.r2.c
      let z := c.c0 * m.r3.a + c.c1 * m.r3.b + c.c2 * m.r3.c
      ⟨st.SS * x + st.TT.a, st.SS * y + st.TT.b, st.SS * z + st.TT.c, c.c3⟩
    else ⟨st.SS * c.c0 + st.TT.a, st.SS * c.c1 + st.TT.b, st.SS * c.c2 + st.TT.c, c.c3⟩
  | .inv =>
    let x := (c.c0 - st.TT.a) / st.SS
    let y := (c.c1 - st.TT.b) / st.SS
    let z := (c.c2 - st.TT.c) / st.SS
    if p.rotated then
      ⟨x * m.r1.a + y * m.r2.a + z * m.r3.a,
       x * m.r1.b + y * m.r2.b + z * m.r3.b,
       x * m.r1.c + y * m.r2.c + z * m.r3.c, c.c3⟩
    else ⟨x, y, z, c.c3⟩

/-- the loop of `helmert_common` -/
def loop (p : Params R) (dir : Dir) : LoopState R → List (Coor R) → List (Coor R)
  | _, [] => []
  | st, c :: rest =>
    let st' := update p st c.c3
    transform p st' dir c :: loop p dir st' rest

/-- `helmert_fwd` / `helmert_inv` -/
def sem (p : Parsed R) (dir : Dir) (data : List (Coor R)) : List (Coor R) × Nat :=
  match derive p with
  | .ok hp => (loop hp dir (initState hp) data, data.length)
  | .error _ => (data, 0)   -- unreachable: the constructor has checked `derive`

end Helmert
end Ops
end Geodesy
