/-
Model of `src/inner_op/curvature.rs`: radii of curvature of the ellipsoid.  Input is
(latitude, longitude-or-azimuth) in DEGREES in the first two elements; the first element is
replaced by the radius.  Forward only; no tuple can fail.
-/
import Geodesy.Model.Ops.Basic
import Geodesy.Model.Num.Ellipsoid

namespace Geodesy
open Text
namespace Ops
namespace Curvature

variable {R : Type} [Scalar R]

def gamut : List OpParameter := Gen.gamut_curvature_GAMUT

/-- the flags of the gamut that are set, counted as the loop over `GAMUT` in `curvature::new` does -/
def numberOfFlags (p : Parsed R) : Nat :=
  gamut.foldl (fun n parameter =>
    n + match parameter with
        | .flag key => if p.flagSet key then 1 else 0
        | _ => 0) 0

/-- `curvature::new`: exactly one flag; no inverse.  The final `Ellipsoid::named` check cannot
fail: `ParsedParameters::new` has already rejected unknown names with `NotFound`. -/
def new (R : Type) [Scalar R] (ce : CtorEnv) (raw : RawParameters) : Except Err (Node R) :=
  match plain (R := R) ce "curvature" false gamut raw with
  | .error e => .error e
  | .ok n =>
    if numberOfFlags n.params != 1 then .error .missingParam else
    match n.params.text? (S "ellps") with
    | some name => if ce.ellpsKnown name then .ok n else .error .notFound
    | none => .ok n

/-- `xy(i)` … `set_xy(i, …)` for every tuple; all count -/
def mapXY (f : R → R → R × R) (data : List (Coor R)) : List (Coor R) × Nat :=
  (data.map fun c => let r := f c.c0 c.c1; { c with c0 := r.1, c1 := r.2 }, data.length)

def fwd (p : Parsed R) (data : List (Coor R)) : List (Coor R) × Nat :=
  let ellps := p.ellps 0
  if p.flagSet (S "prime") then
    mapXY (fun lat lon => (ellps.primeVerticalRadiusOfCurvature (Scalar.toRadians lat), lon)) data
  else if p.flagSet (S "meridian") then
    mapXY (fun lat lon => (ellps.meridianRadiusOfCurvature (Scalar.toRadians lat), lon)) data
  else if p.flagSet (S "gaussian") then
    mapXY (fun lat lon =>
      let lat := Scalar.toRadians lat
      let m := ellps.meridianRadiusOfCurvature lat
      let n := ellps.primeVerticalRadiusOfCurvature lat
      (Scalar.sqrt (n * m), lon)) data
  else if p.flagSet (S "mean") then
    mapXY (fun lat lon =>
      let lat := Scalar.toRadians lat
      let m := ellps.meridianRadiusOfCurvature lat
      let n := ellps.primeVerticalRadiusOfCurvature lat
      (2.0 * Scalar.recip (Scalar.recip n + Scalar.recip m), lon)) data
  else if p.flagSet (S "azimuthal") then
    -- the second element comes back in radians: `set_xy(i, lat, azi)` with the converted `azi`
    mapXY (fun lat azi =>
      let lat := Scalar.toRadians lat
      let azi := Scalar.toRadians azi
      let m := ellps.meridianRadiusOfCurvature lat
      let n := ellps.primeVerticalRadiusOfCurvature lat
      let s := Scalar.sin azi
      let c := Scalar.cos azi
      (Scalar.recip (c * c / m + s * s / n), azi)) data
  else (data, 0)

/-- the constructor supplies no inverse: the framework never asks for it -/
def sem (p : Parsed R) (dir : Dir) (data : List (Coor R)) : List (Coor R) × Nat :=
  match dir with
  | .fwd => fwd p data
  | .inv => (data, 0)

end Curvature
end Ops
end Geodesy
