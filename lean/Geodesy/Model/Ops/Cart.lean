/-
Model of `src/ellipsoid/geocart.rs` (`GeoCart::{cartesian, geographic}`), `src/inner_op/cart.rs`,
`src/inner_op/molodensky.rs` and `src/inner_op/permtide.rs`.
-/
import Geodesy.Model.Ops.Basic
import Geodesy.Model.Num.Ellipsoid

namespace Geodesy
open Text

/-! ### `GeoCart` (`src/ellipsoid/geocart.rs`) -/

namespace Ellipsoid
variable {R : Type} [Scalar R]

/-- `GeoCart::cartesian`: geographic `(λ, φ, h, t)` to cartesian `(X, Y, Z, t)` -/
def cartesian (el : Ellipsoid R) (geographic : Coor R) : Coor R :=
  let lam := geographic.c0
  let phi := geographic.c1
  let h := geographic.c2
  let t := geographic.c3
  let N := el.primeVerticalRadiusOfCurvature phi
  let sinphi := Scalar.sin phi
  let cosphi := Scalar.cos phi
  let sinlam := Scalar.sin lam
  let coslam := Scalar.cos lam
  let X := (N + h) * cosphi * coslam
  let Y := (N + h) * cosphi * sinlam
  let Z := (N * (1.0 - el.eccentricitySquared) + h) * sinphi
  ⟨X, Y, Z, t⟩

/-- `GeoCart::geographic`: cartesian to geographic, Bowring's method with Fukushima's
(1999, appendix B) starting value -/
def geographic (el : Ellipsoid R) (cartesian : Coor R) : Coor R :=
  let X := cartesian.c0
  let Y := cartesian.c1
  let Z := cartesian.c2
  let t := cartesian.c3
  let b := el.semiminorAxis
  let eps := el.secondEccentricitySquared
  let es := el.eccentricitySquared
  let lam := Scalar.atan2 Y X
  let p := Scalar.hypot X Y
  if Scalar.lt p 1.0e-12 then
    let phi := Scalar.copysign fracPi2 Z
    let h := Scalar.abs Z - el.semiminorAxis
    ⟨lam, phi, h, t⟩
  else
  let a := el.a
  let T := (Z * a) / (p * b)
  let c := 1.0 / Scalar.sqrt (1.0 + T * T)
  let s := c * T
  let phiNum := Z + eps * b * Scalar.powi s 3
  let phiDenom := p - es * a * Scalar.powi c 3
  let phi := Scalar.atan2 phiNum phiDenom
  let lenphi := Scalar.hypot phiNum phiDenom
  let sinphi := phiNum / lenphi
  let cosphi := phiDenom / lenphi
  let a := el.a
  let N := a / Scalar.sqrt (1.0 - Scalar.powi sinphi 2 * es)
  let h := p * cosphi + Z * sinphi - a * a / N
  ⟨lam, phi, h, t⟩

end Ellipsoid

namespace Ops

variable {R : Type} [Scalar R]

/-- `[…].iter().any(|c| c.is_nan())` on a tuple -/
def Coor.anyNaN (c : Coor R) : Bool :=
  Scalar.isNaN c.c0 || Scalar.isNaN c.c1 || Scalar.isNaN c.c2 || Scalar.isNaN c.c3

/-- a per-tuple operator that always stores its result and counts the NaN-free ones -/
def mapCountNonNaN (f : Coor R → Coor R) (data : List (Coor R)) : List (Coor R) × Nat :=
  let out := data.map f
  (out, (out.filter fun c => !Coor.anyNaN c).length)

/-! ### cart -/

namespace Cart

def gamut : List OpParameter := Gen.gamut_cart_GAMUT

def new (R : Type) [Scalar R] (ce : CtorEnv) : Ctor R := plain ce "cart" true gamut

/-- the loop body of `cart_fwd` -/
def fwd (p : Parsed R) (c : Coor R) : Coor R := (p.ellps 0).cartesian c

/-- the loop body of `cart_inv`: Fukushima (2006) / Claessens (2019), one Halley step -/
def inv (p : Parsed R) (coord : Coor R) : Coor R :=
  let ellps := p.ellps 0
  let es := ellps.eccentricitySquared
  let b := ellps.semiminorAxis
  let a := ellps.a
  let ra := 1.0 / ellps.a
  let ar := b * ra
  let ce4 := 1.5 * es * es
  let cutoff := ellps.a * 1e-16
  let X := coord.c0
  let Y := coord.c1
  let Z := coord.c2
  let t := coord.c3
  let lam := Scalar.atan2 Y X
  let pp := Scalar.hypot X Y
  if Scalar.lt pp cutoff then
    let phi := Scalar.copysign Ellipsoid.fracPi2 Z
    let h := Scalar.abs Z - b
    ⟨lam, phi, h, t⟩
  else
  let P := ra * pp
  let S0 := ra * Z
  let C0 := ar * P
  let A := Scalar.hypot S0 C0
  let F := P * A * A * A - es * C0 * C0 * C0
  let B := ce4 * S0 * S0 * C0 * C0 * P * (A - ar)
  let S1 := (ar * S0 * A * A * A + es * S0 * S0 * S0) * F - B * S0
  let C1 := F * F - B * C0
  let CC := ar * C1
  let phi := Scalar.atan2 S1 CC
  let h := (pp * Scalar.abs CC + Scalar.abs Z * Scalar.abs S1 - a * Scalar.hypot CC (ar * S1)) / Scalar.hypot CC S1
  ⟨lam, phi, h, t⟩

def sem (p : Parsed R) (dir : Dir) (data : List (Coor R)) : List (Coor R) × Nat :=
  match dir with
  | .fwd => mapCountNonNaN (fwd p) data
  | .inv => mapCountNonNaN (inv p) data

end Cart

/-! ### molodensky -/

namespace Molodensky

def gamut : List OpParameter := Gen.gamut_molodensky_GAMUT

/-- `molodensky::new`: when both `ellps_0` and `ellps_1` are given (in the definition or by the caller of the macro
the step belongs to), `ellps_0`
replaces a not given `ellps`, and `da`, `df` are overwritten by the differences -/
def new (R : Type) [Scalar R] (ce : CtorEnv) (raw : RawParameters) : Except Err (Node R) :=
  match plain (R := R) ce "molodensky" true gamut raw with
  | .error e => .error e
  | .ok n =>
    let p := n.params
    -- given in the step itself or, for a step of a macro body, by the caller of the macro
    let given (k : Str) : Bool := p.given.contains k || raw.globals.contains k
    if given (S "ellps_0") && given (S "ellps_1") then
      let p1 :=
        -- (the contexts hand a default `ellps` down to every step: only the step's own text counts here)
        if !p.given.contains (S "ellps") then
          match p.text? (S "ellps_0") with
          | some e0 => Except.ok (p.setText (S "ellps") e0)
          | none => Except.error Err.missingParam   -- unreachable: the gamut has a default
        else Except.ok p
      match p1 with
      | .error e => .error e
      | .ok p =>
        let ellps0 := p.ellps 0
        let ellps1 := p.ellps 1
        let da := ellps1.a - ellps0.a
        let df := ellps1.f - ellps0.f
        .ok { n with params := (p.setReal (S "da") da).setReal (S "df") df }
    else .ok n

/-- the `struct Molodensky` that `common` sets up -/
structure Moped (R : Type) where
  a : R
  f : R
  es : R
  dx : R
  dy : R
  dz : R
  da : R
  df : R
  adffda : R
  ellps : Ellipsoid R
  abridged : Bool

/-- `calc_molodensky_params`: `none` is `Coor4D::nan()` -/
def calcParams (op : Moped R) (coord : Coor R) : Option (R × R × R) :=
  let lam := coord.c0
  let phi := coord.c1
  let h := coord.c2
  let slam := Scalar.sin lam
  let clam := Scalar.cos lam
  let sphi := Scalar.sin phi
  let cphi := Scalar.cos phi
  let N := op.ellps.primeVerticalRadiusOfCurvature phi
  let M := op.ellps.meridianRadiusOfCurvature phi
  let fac := op.dx * clam + op.dy * slam
  if op.abridged then
    let dphi := (-fac * sphi + op.dz * cphi + op.adffda * Scalar.sin (2.0 * phi)) / M
    let dlamDenom := N * cphi
    if Scalar.beq dlamDenom 0.0 then none else
    let dlam := (op.dy * clam - op.dx * slam) / dlamDenom
    let dh := fac * cphi + (op.dz + op.adffda * sphi) * sphi - op.da
    some (dlam, dphi, dh)
  else
  let dphi := (op.dz + ((N * op.es * sphi * op.da) / op.a)) * cphi - fac * sphi
    + (M / (1.0 - op.f) + N * (1.0 - op.f)) * op.df * sphi * cphi
  let dphiDenom := M + h
  if Scalar.beq dphiDenom 0.0 then none else
  let dphi := dphi / dphiDenom
  let dlamDenom := (N + h) * cphi
  if Scalar.beq dlamDenom 0.0 then none else
  let dlam := (op.dy * clam - op.dx * slam) / dlamDenom
  let dh := fac * cphi + op.dz * sphi - (op.a / N) * op.da + N * (1.0 - op.f) * op.df * sphi * sphi
  some (dlam, dphi, dh)

/-- the set-up part of `common`; `none` when one of the `let … else { return 0 }` fires -/
def moped (p : Parsed R) : Option (Moped R) :=
  let ellps := p.ellps 0
  match p.real? (S "dx"), p.real? (S "dy"), p.real? (S "dz"), p.real? (S "da"), p.real? (S "df") with
  | some dx, some dy, some dz, some da, some df =>
    some { a := ellps.a, f := ellps.f, es := ellps.eccentricitySquared, dx, dy, dz, da, df,
           adffda := ellps.a * df + ellps.f * da, ellps, abridged := p.flagSet (S "abridged") }
  | _, _, _, _, _ => none

/-- the loop body of `common` -/
def step (m : Moped R) (dir : Dir) (c : Coor R) : Coor R :=
  let par : R × R × R :=
    match calcParams m c with
    | some r => r
    | none => (Scalar.nan, Scalar.nan, Scalar.nan)
  match dir with
  | .fwd => { c with c0 := c.c0 + par.1, c1 := c.c1 + par.2.1, c2 := c.c2 + par.2.2 }
  | .inv => { c with c0 := c.c0 - par.1, c1 := c.c1 - par.2.1, c2 := c.c2 - par.2.2 }

def sem (p : Parsed R) (dir : Dir) (data : List (Coor R)) : List (Coor R) × Nat :=
  match moped p with
  | none => (data, 0)   -- unreachable: the gamut has defaults for all five
  | some m => (data.map (step m dir), data.length)

end Molodensky

/-! ### permtide -/

namespace Permtide

def gamut : List OpParameter := Gen.gamut_permtide_GAMUT

/-- the `match (to, from)` of `permtide::new`; `none` is the NaN of the catch-all arm -/
def coefficient (to fr : Str) (k : R) : Option R :=
  if to == S "mean" && fr == S "mean" then some 0.0
  else if to == S "mean" && fr == S "zero" then some 1.0
  else if to == S "mean" && fr == S "free" then some (1.0 + k)
  else if to == S "zero" && fr == S "zero" then some 0.0
  else if to == S "zero" && fr == S "mean" then some (-1.0)
  else if to == S "zero" && fr == S "free" then some k
  else if to == S "free" && fr == S "free" then some 0.0
  else if to == S "free" && fr == S "mean" then some (-(1.0 + k))
  else if to == S "free" && fr == S "zero" then some (-k)
  else none

/-- `permtide::new` -/
def new (R : Type) [Scalar R] (ce : CtorEnv) (raw : RawParameters) : Except Err (Node R) :=
  match plain (R := R) ce "permtide" true gamut raw with
  | .error e => .error e
  | .ok n =>
    let p := n.params
    match p.real? (S "k") with
    | none => .error .missingParam   -- unreachable: the gamut has a default
    | some k =>
      match p.text? (S "to") with
      | none => .error .missingParam   -- unreachable: `plain` has failed already
      | some to =>
        match p.text? (S "from") with
        | none => .error .missingParam   -- unreachable: `plain` has failed already
        | some fr =>
          match coefficient to fr k with
          | none => .error .badParam
          | some c =>
            -- a `k` that makes the coefficient NaN cannot be given: the parser rejects NaN
            if Scalar.isNaN c then .error .badParam else
            .ok { n with params := p.setReal (S "coefficient") c }

/-- the common loop body: `coord[2] ± coefficient * (-0.198) * (1.5 s² - 0.5)` -/
def delta (ellps : Ellipsoid R) (coefficient : R) (c : Coor R) : R :=
  let phibar := ellps.latitudeGeographicToGeocentric c.c1
  let s := Scalar.sin phibar
  coefficient * (-0.198) * (1.5 * s * s - 0.5)

def sem (p : Parsed R) (dir : Dir) (data : List (Coor R)) : List (Coor R) × Nat :=
  let ellps := p.ellps 0
  match p.real? (S "coefficient") with
  | none => (data, 0)   -- unreachable: the constructor stores it
  | some coefficient =>
    (data.map fun c =>
      match dir with
      | .fwd => { c with c2 := c.c2 + delta ellps coefficient c }
      | .inv => { c with c2 := c.c2 - delta ellps coefficient c }, data.length)

end Permtide

end Ops
end Geodesy
