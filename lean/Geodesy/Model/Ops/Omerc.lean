/-
Model of `src/inner_op/omerc.rs` (Oblique Mercator: Hotine variants A and B, and the
"Laborde" case approximated by Hotine with `gamma_c = alpha`).

The Rust constructor stores nothing beyond the parsed gamut; `fwd` and `inv` each recompute
the same block of constants on every call.  The two blocks are textually identical up to the
way `gamma_c` / `variant` are spelled (same values), so the model has one `consts`.
-/
import Geodesy.Model.Ops.Basic
import Geodesy.Model.Ops.Merc
import Geodesy.Model.Num.Ellipsoid

namespace Geodesy
open Text
namespace Ops
namespace Omerc

variable {R : Type} [Scalar R]

def gamut : List OpParameter := Gen.gamut_omerc_GAMUT

/-- `omerc::new`: only the gamut is parsed; an inverse is supplied -/
def new (R : Type) [Scalar R] (ce : CtorEnv) : Ctor R := plain ce "omerc" true gamut

def fracPi4 : R := Scalar.pi / 4.0

/-- `op.params.real[key]` (the gamut supplies a default for every key read, so the index
never panics; NaN stands for the impossible missing entry) -/
def realOf (p : Parsed R) (key : String) : R := (p.real? (S key)).getD Scalar.nan

/-- the constants computed at the top of both `fwd` and `inv` -/
structure Consts (R : Type) where
  es : R
  e : R
  FE : R
  FN : R
  latc : R
  lonc : R
  ninety : Bool
  variant : Bool
  A : R
  B : R
  H : R
  lambda0 : R
  uc : R
  s0 : R
  c0 : R
  sc : R
  cc : R

def consts (p : Parsed R) : Consts R :=
  let ellps := p.ellps 0
  let es := ellps.eccentricitySquared
  let e := Scalar.sqrt es
  let kc := Parsed.k p 0
  let FE := Parsed.x p 0
  let FN := Parsed.y p 0
  let latc := Scalar.toRadians (realOf p "latc")
  let lonc := Scalar.toRadians (realOf p "lonc")
  let alpha0 := realOf p "alpha"
  let ninety := Scalar.beq alpha0 90.0
  let alpha := Scalar.toRadians alpha0
  -- Detect the Laborde case by a missing gamma_c
  let gammaC0 := realOf p "gamma_c"
  let laborde := Scalar.isNaN gammaC0
  let gammaC := if laborde then alpha else Scalar.toRadians gammaC0
  let variant := p.flagSet (S "variant") || laborde
  let s := Scalar.sin latc
  let c := Scalar.cos latc
  let B := Scalar.sqrt (1.0 + Scalar.powi c 4 * ellps.secondEccentricitySquared)
  let A := ellps.a * B * kc * Scalar.sqrt (1.0 - es) / (1.0 - es * s * s)
  let t0 := Scalar.tan (fracPi4 - latc / 2.0) /
    Scalar.pow ((1.0 - e * s) / (1.0 + e * s)) (e / 2.0)
  let D := B * Scalar.sqrt (1.0 - es) / (c * Scalar.sqrt (1.0 - es * s * s))
  let DD : R := if Scalar.lt D 1.0 then 0.0 else Scalar.sqrt (D * D - 1.0)
  let F := D + DD * Scalar.signum latc
  let H := F * Scalar.pow t0 B
  let G := (F - 1.0 / F) / 2.0
  let gamma0 := Scalar.asin (Scalar.sin alpha / D)
  -- for an initial line running due east or west at the centre, `G * tan(gamma_0)` is 1 or -1: exact
  -- for `alpha = 90`, clamped to the domain of `asin` otherwise (`f64::clamp`: NaN stays NaN)
  let gt := G * Scalar.tan gamma0
  let lambda0 :=
    if ninety then lonc - Scalar.copysign Ellipsoid.fracPi2 gt / B
    else
      let lo := if Scalar.lt gt (-1.0) then (-1.0 : R) else gt
      let cl := if Scalar.gt lo 1.0 then (1.0 : R) else lo
      lonc - Scalar.asin cl / B
  -- (uc, vc): intermediate coordinates of the projection center
  let uc :=
    if ninety then A * (lonc - lambda0)
    else (A / B) * Scalar.atan2 DD (Scalar.cos alpha) * Scalar.signum latc
  { es, e, FE, FN, latc, lonc, ninety, variant, A, B, H, lambda0, uc
    s0 := Scalar.sin gamma0, c0 := Scalar.cos gamma0
    sc := Scalar.sin gammaC, cc := Scalar.cos gammaC }

/-- the loop body of `fwd` -/
def fwdWith (k : Consts R) (lon lat : R) : R × R :=
  let slat := Scalar.sin lat
  let t := Scalar.tan (fracPi4 - lat / 2.0) /
    Scalar.pow ((1.0 - k.e * slat) / (1.0 + k.e * slat)) (k.e / 2.0)
  let Q := k.H / Scalar.pow t k.B
  let S_ := (Q - 1.0 / Q) / 2.0
  let T := (Q + 1.0 / Q) / 2.0
  let V := Scalar.sin (k.B * (lon - k.lambda0))
  let U := (S_ * k.s0 - V * k.c0) / T
  let v := k.A * Scalar.ln ((1.0 - U) / (1.0 + U)) / (2.0 * k.B)
  let cblon := Scalar.cos (k.B * (lon - k.lambda0))
  -- Variant A
  if !k.variant then
    let u := k.A * Scalar.atan2 (S_ * k.c0 + V * k.s0) cblon / k.B
    (v * k.cc + u * k.sc + k.FE, u * k.cc - v * k.sc + k.FN)
  -- Variant B and/or Laborde
  else
    let u := k.A * Scalar.atan2 (S_ * k.c0 + V * k.s0) cblon / k.B - Scalar.copysign k.uc k.latc
    (v * k.cc + u * k.sc + k.FE, u * k.cc - v * k.sc + k.FN)

/-- the loop body of `inv` -/
def invWith (k : Consts R) (E N : R) : R × R :=
  let es := k.es
  let offset : R := if k.variant then Scalar.copysign k.uc k.latc else 0.0
  let v := (E - k.FE) * k.cc - (N - k.FN) * k.sc
  let u := (N - k.FN) * k.cc + (E - k.FE) * k.sc + offset
  let Q := Scalar.exp ((-k.B) * v / k.A)
  let S_ := (Q - 1.0 / Q) / 2.0
  let T := (Q + 1.0 / Q) / 2.0
  let V := Scalar.sin (k.B * u / k.A)
  let U := (V * k.c0 + S_ * k.s0) / T
  let t := Scalar.pow (k.H / Scalar.sqrt ((1.0 + U) / (1.0 - U))) (1.0 / k.B)
  let chi := Ellipsoid.fracPi2 - 2.0 * Scalar.atan t
  -- Fourier coefficients (the outer factor of *es* moved to the summation step)
  let f0 := 1.0 / 2.0 + es * (5.0 / 24.0 + es * (1.0 / 12.0 + es * 13.0 / 360.0))
  let f1 := es * (7.0 / 48.0 + es * (29.0 / 240.0 + es * 811.0 / 11520.0))
  let f2 := es * es * (7.0 / 120.0 + es * 81.0 / 1120.0)
  let f3 := es * es * es * 4279.0 / 161280.0
  -- Fourier sine components
  let s0 := Scalar.sin (2.0 * chi)
  let s1 := Scalar.sin (4.0 * chi)
  let s2 := Scalar.sin (6.0 * chi)
  let s3 := Scalar.sin (8.0 * chi)
  let lat := chi + es * (f0 * s0 + f1 * s1 + f2 * s2 + f3 * s3)
  let lon := k.lambda0 - Scalar.atan2 (S_ * k.c0 - V * k.s0) (Scalar.cos (k.B * u / k.A)) / k.B
  (lon, lat)

def fwd (p : Parsed R) (lon lat : R) : R × R := fwdWith (consts p) lon lat
def inv (p : Parsed R) (E N : R) : R × R := invWith (consts p) E N

/-- neither direction can fail: every tuple is written and counted -/
def sem (p : Parsed R) (dir : Dir) (data : List (Coor R)) : List (Coor R) × Nat :=
  let k := consts p
  match dir with
  | .fwd => mapXY (fwdWith k) data
  | .inv => mapXY (invWith k) data

end Omerc
end Ops
end Geodesy
