/-
Models of the simplest built-in operators: `Op::plain`, `addone`, `noop` (and aliases),
the `stack` / `push` / `pop` constructors, and `axisswap`.
-/
import Geodesy.Model.Op
import Geodesy.Gen.Tables

namespace Geodesy
open Text
namespace Ops

/-- the context of the constructors: what `Ellipsoid::named` accepts -/
structure CtorEnv where
  ellpsKnown : Str → Bool
  /-- `ctx.get_grid(name)`: the number of bands of the grid served under that name, `none` = NotFound -/
  gridBands : Str → Option Nat := fun _ => none
  /-- the error `get_grid` gives for a name it cannot serve: `NotFound` for a context with grid
  access, `General` for `Minimal`, which has none -/
  gridErr : Err := .general

/-- `Op::plain`: parse the gamut; the `lat_n`/`lon_n` re-insertions are the identity because
the implicit gamut already holds them -/
def plain {R : Type} [Scalar R] (ce : CtorEnv) (tag : String) (invertible : Bool) (gamut : List OpParameter)
    (raw : RawParameters) : Except Err (Node R) :=
  match Parsed.new ce.ellpsKnown raw gamut with
  | .error e => .error e
  | .ok params => .ok { tag := S tag, definition := raw.definition, invertible, params }

/-! ### addone, noop -/

def addoneGamut : List OpParameter := Gen.gamut_addone_GAMUT
def addone {R : Type} [Scalar R] (ce : CtorEnv) : Ctor R := plain ce "addone" true addoneGamut
def noop {R : Type} [Scalar R] (ce : CtorEnv) : Ctor R := plain ce "noop" true Gen.gamut_noop_GAMUT

section sem
variable {R : Type} [Scalar R]

def addoneSem (dir : Dir) (data : List (Coor R)) : List (Coor R) × Nat :=
  (data.map fun c =>
    match dir with
    | .fwd => { c with c0 := c.c0 + Scalar.ofNatLit 1 }
    | .inv => { c with c0 := c.c0 - Scalar.ofNatLit 1 }, data.length)

def noopSem (data : List (Coor R)) : List (Coor R) × Nat := (data, data.length)

end sem

/-! ### stack -/

def stackGamut : List OpParameter := Gen.gamut_stack_STACK_GAMUT

section stack
variable (R : Type) [Scalar R]

/-- `valid_indices.contains(i)` for all elements -/
def indicesValid (xs : List R) : Bool :=
  xs.all fun x => [1, 2, 3, 4].any fun k => Scalar.beq x (Scalar.ofNatLit k : R)

/-- `x.fract() != 0.` -/
def hasFract (x : R) : Bool := Scalar.ne (x - Scalar.trunc x) (Scalar.ofNatLit 0 : R)

/-- the rejection test of `roll` / `unroll` -/
def rollBad (xs : List R) : Bool :=
  match xs with
  | [a0, a1] => hasFract R a0 || hasFract R a1 || Scalar.le a0 (Scalar.abs a1)
  | _ => true

def setAction (p : Parsed R) (a : String) : Parsed R := p.setText (S "action") (S a)

/-- the constructor `stack::new` -/
def stackNew (ce : CtorEnv) (raw : RawParameters) : Except Err (Node R) :=
  match Parsed.new ce.ellpsKnown raw stackGamut with
  | .error e => .error e
  | .ok p0 =>
    -- each block: (count, params) or an error
    let idxBlock (key : String) (st : Except Err (Nat × Parsed R)) : Except Err (Nat × Parsed R) :=
      match st with
      | .error e => .error e
      | .ok (cnt, p) =>
        match p.series? (S key) with
        | none => .ok (cnt, p)
        | some xs =>
          if indicesValid R xs then .ok (cnt + 1, setAction R p key) else .error .badParam
    let rollBlock (key : String) (st : Except Err (Nat × Parsed R)) : Except Err (Nat × Parsed R) :=
      match st with
      | .error e => .error e
      | .ok (cnt, p) =>
        match p.series? (S key) with
        | none => .ok (cnt, p)
        | some xs =>
          if rollBad R xs then .error .missingParam else .ok (cnt + 1, setAction R p key)
    let flagBlock (key : String) (st : Except Err (Nat × Parsed R)) : Except Err (Nat × Parsed R) :=
      match st with
      | .error e => .error e
      | .ok (cnt, p) => if p.flagSet (S key) then .ok (cnt + 1, setAction R p key) else .ok (cnt, p)
    let st := flagBlock "drop" (flagBlock "swap" (rollBlock "unroll" (rollBlock "roll"
                (idxBlock "pop" (idxBlock "flip" (idxBlock "push" (.ok (0, p0))))))))
    match st with
    | .error e => .error e
    | .ok (cnt, p) =>
      if cnt != 1 then .error .missingParam
      else .ok { tag := S "stack", definition := raw.definition, invertible := true, params := p }

/-- `series_as_usize(key)` followed by the `- 1` of the 1-based indices; the constructor has
checked that all are in 1..4 -/
def indexArgs (xs : List R) : List (Fin 4) :=
  xs.map fun x =>
    let k := Scalar.toUsize x - 1
    if h : k < 4 then ⟨k, h⟩ else 3

/-- what `stack_fwd` / `stack_inv` read back from the parameters -/
def actionOf (p : Parsed R) : Option Stack.Action :=
  match p.text? (S "action") with
  | none => none
  | some a =>
    let idx (key : String) : List (Fin 4) := indexArgs R ((p.series? (S key)).getD [])
    let ints (key : String) : Int × Int :=
      match ((p.series? (S key)).getD []).map (fun x => Scalar.toI64 x) with
      | [m, n] => (m, n)
      | _ => (0, 0)
    if a == S "push" then some (.push (idx "push"))
    else if a == S "pop" then some (.pop (idx "pop"))
    else if a == S "flip" then some (.flip (idx "flip"))
    else if a == S "roll" then some (.roll (ints "roll").1 (ints "roll").2)
    else if a == S "unroll" then some (.unroll (ints "unroll").1 (ints "unroll").2)
    else if a == S "swap" then some .swap
    else some .drop

end stack

/-! ### the deprecated push / pop -/

def pushPopGamut : List OpParameter := Gen.gamut_pushpop_PUSH_POP_GAMUT
def legacyPush {R : Type} [Scalar R] (ce : CtorEnv) : Ctor R := plain ce "push" true pushPopGamut
def legacyPop {R : Type} [Scalar R] (ce : CtorEnv) : Ctor R := plain ce "pop" true pushPopGamut

/-- the placeholder `InnerOp::default()`: does nothing, reports 0 -/
def placeholderSem {α : Type} (data : List (Coor α)) : List (Coor α) × Nat := (data, 0)

/-! ### axisswap -/

def axisswapGamut : List OpParameter := Gen.gamut_axisswap_GAMUT

section axisswap
variable (R : Type) [Scalar R]

/-- the checks of `axisswap::new` on the evaluated `order` -/
def axisswapOrderOk (order : List R) : Except Err Unit :=
  if order.length > 4 then .error .badParam else
  let elemBad (o : R) : Bool :=
    let i := Scalar.toI64 o
    Scalar.ne (Scalar.ofInt i : R) o || i == 0 || i.natAbs > order.length
  if order.any elemBad then .error .badParam else
  let dup (k : Nat) : Bool := (order.filter fun x => Scalar.toUsize (Scalar.abs x) == k).length > 1
  if [1, 2, 3, 4].any dup then .error .badParam else .ok ()

def axisswapNew (ce : CtorEnv) (raw : RawParameters) : Except Err (Node R) :=
  match plain ce "axisswap" true axisswapGamut raw with
  | .error e => .error e
  | .ok n =>
    match n.params.series? (S "order") with
    | none => .ok n
    | some xs =>
      match axisswapOrderOk R xs with
      | .error e => .error e
      | .ok () => .ok n

/-- `pos[index] = (value.abs() - 1.) as usize`, `sgn[index] = 1_f64.copysign(value)` -/
def axisPos (v : R) : Fin 4 :=
  let k := Scalar.toUsize (Scalar.abs v - Scalar.ofNatLit 1)
  if h : k < 4 then ⟨k, h⟩ else 3
def axisSgn (v : R) : R := Scalar.copysign (Scalar.ofNatLit 1) v

/-- `out[index] = inp[pos[index]] * sgn[index]` for `index = 0, 1, …` -/
def axisswapFwdLoop (inp : Coor R) : List R → Nat → Coor R → Coor R
  | [], _, out => out
  | v :: rest, index, out =>
    let out' := if h : index < 4 then out.set ⟨index, h⟩ (inp.get (axisPos R v) * axisSgn R v) else out
    axisswapFwdLoop inp rest (index + 1) out'

/-- `out[pos[index]] = inp[index] * sgn[index]` -/
def axisswapInvLoop (inp : Coor R) : List R → Nat → Coor R → Coor R
  | [], _, out => out
  | v :: rest, index, out =>
    let out' := if h : index < 4 then out.set (axisPos R v) (inp.get ⟨index, h⟩ * axisSgn R v) else out
    axisswapInvLoop inp rest (index + 1) out'

def axisswapSem (p : Parsed R) (dir : Dir) (data : List (Coor R)) : List (Coor R) × Nat :=
  match p.series? (S "order") with
  | none => (data, data.length)
  | some order =>
    (data.map fun c =>
      match dir with
      | .fwd => axisswapFwdLoop R c order 0 c
      | .inv => axisswapInvLoop R c order 0 c, data.length)

end axisswap

end Ops
end Geodesy
