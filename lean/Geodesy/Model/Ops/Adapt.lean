/-
Models of `src/inner_op/adapt.rs` (`coordinate_order_descriptor`, `combine_descriptors`, the
gather / scatter loops) and `src/inner_op/unitconvert.rs` with the unit tables generated from
`src/inner_op/units.rs`.
-/
import Geodesy.Model.Ops.Basic

namespace Geodesy
open Text
namespace Ops
namespace Adapt

variable {R : Type} [Scalar R]

/-- `CoordinateOrderDescriptor`: for external position `i`, the internal axis `post i` it holds
and the multiplier (sign × angular unit factor) that converts it to the internal form -/
structure Desc (R : Type) where
  post : Fin 4 → Fin 4
  mult : Fin 4 → R
  noop : Bool

def one : R := Scalar.ofNatLit 1

/-- the axis and sign a designator letter stands for -/
def letter (c : Char) : Option (Fin 4 × Bool) :=
  if c == 'e' then some (0, false) else if c == 'n' then some (1, false)
  else if c == 'u' then some (2, false) else if c == 'f' then some (3, false)
  else if c == 'w' then some (0, true) else if c == 's' then some (1, true)
  else if c == 'd' then some (2, true) else if c == 'p' then some (3, true)
  else none

/-- angular unit factor of the suffix: `_deg`, `_gon`, `_rad`, `_any` -/
def suffixFactor (sfx : Str) : Option R :=
  if sfx == S "_deg" then some (Scalar.pi / Scalar.ofNatLit 180)
  else if sfx == S "_gon" then some (Scalar.pi / Scalar.ofNatLit 200)
  else if sfx == S "_rad" || sfx == S "_any" then some one
  else none

def isAscii (s : Str) : Bool := s.all fun c => c.toNat < 128

/-- every internal axis occurs exactly once -/
def isPermutation (ax : Fin 4 → Fin 4) : Bool :=
  [0, 1, 2, 3].all fun (a : Fin 4) => ([0, 1, 2, 3].filter fun (i : Fin 4) => ax i == a).length == 1

/-- `coordinate_order_descriptor` -/
def descriptor (desc : Str) : Option (Desc R) :=
  if desc == S "pass" then some ⟨id, fun _ => one, true⟩ else
  if !isAscii desc || (desc.length != 4 && desc.length != 8) then none else
  match (if desc.length == 8 then suffixFactor (R := R) (desc.drop 4) else some one) with
  | none => none
  | some torad =>
    match (desc.take 4).mapM letter with
    | some [l0, l1, l2, l3] =>
      let ls : Fin 4 → (Fin 4 × Bool) := fun i => match i with | 0 => l0 | 1 => l1 | 2 => l2 | 3 => l3
      let post : Fin 4 → Fin 4 := fun i => (ls i).1
      if !isPermutation post then none else
      let mult : Fin 4 → R := fun i =>
        (if (ls i).2 then -one else one) * (if i.val > 1 then one else torad)
      let noop := [0, 1, 2, 3].all fun (i : Fin 4) => Scalar.beq (mult i) (one : R) && post i == i
      some ⟨post, mult, noop⟩
    | _ => none

/-- position of internal axis `a` in the external tuple described by `post` -/
def positionOf (post : Fin 4 → Fin 4) (a : Fin 4) : Fin 4 :=
  if post 0 == a then 0 else if post 1 == a then 1 else if post 2 == a then 2 else 3

/-- `combine_descriptors` (as repaired): output position `i` takes input position
`give.post i`, times `from.mult[give.post i] / to.mult[i]` -/
def combine (frm to : Desc R) : Desc R :=
  let post : Fin 4 → Fin 4 := fun i => positionOf frm.post (to.post i)
  let mult : Fin 4 → R := fun i => frm.mult (post i) / to.mult i
  let noop := [0, 1, 2, 3].all fun (i : Fin 4) => Scalar.beq (mult i) (one : R) && post i == i
  ⟨post, mult, noop⟩

def gamut : List OpParameter := Gen.gamut_adapt_GAMUT

/-- the combined descriptor an `adapt` operator works with -/
def give (p : Parsed R) : Option (Desc R) :=
  match descriptor (R := R) ((p.text? (S "from")).getD []), descriptor (R := R) ((p.text? (S "to")).getD []) with
  | some f, some t => some (combine f t)
  | _, _ => none

variable (R)
/-- `adapt::new` -/
def new (ce : CtorEnv) (raw : RawParameters) : Except Err (Node R) :=
  match plain (R := R) ce "adapt" true gamut raw with
  | .error e => .error e
  | .ok n =>
    match give n.params with
    | none => .error .operator
    | some g =>
      let p := if g.noop then n.params.setFlag (S "noop") else n.params
      let p := p.setSeries (S "post") ([0, 1, 2, 3].map fun (i : Fin 4) => Scalar.ofNatLit (g.post i).val)
      let p := p.setSeries (S "mult") ([0, 1, 2, 3].map fun (i : Fin 4) => g.mult i)
      .ok { n with params := p }
variable {R}

/-- forward: `out[i] = in[post[i]] * mult[i]` -/
def fwdTuple (g : Desc R) (c : Coor R) : Coor R := Coor.ofFn fun i => c.get (g.post i) * g.mult i

/-- the scatter loop of the inverse: `out[post[j]] = in[j] * (1/mult[j])`, for `j = 0..3` in turn,
starting from `Coor4D::default()` (all zero) -/
def invTuple (g : Desc R) (c : Coor R) : Coor R :=
  let z : R := Scalar.ofNatLit 0
  let step (out : Coor R) (j : Fin 4) : Coor R := out.set (g.post j) (c.get j * (one / g.mult j))
  step (step (step (step ⟨z, z, z, z⟩ 0) 1) 2) 3

def sem (p : Parsed R) (dir : Dir) (data : List (Coor R)) : List (Coor R) × Nat :=
  match give p with
  | none => (data, 0)     -- unreachable: the constructor has checked it
  | some g =>
    if g.noop then (data, data.length) else
    (data.map fun c => match dir with | .fwd => fwdTuple g c | .inv => invTuple g c, data.length)

end Adapt

/-! ### unitconvert -/

namespace Unitconvert
variable {R : Type} [Scalar R]

def gamut : List OpParameter := Gen.gamut_unitconvert_GAMUT

/-- `get_pivot_multiplier`: first match over the linear, then the angular units -/
def multiplier (name : Str) : Option R :=
  match (Gen.linearUnits ++ Gen.angularUnits).find? (fun u => S u.1 == name) with
  | some u => some (Scalar.ofLit u.2.2.1 / Scalar.ofLit u.2.2.2)
  | none => none

/-- Rust evaluates `1852.0` as such, and `100.0 / 3937.0` as one division: for a denominator of
one the quotient is the numerator exactly, so `multiplier` is the table value in every reading -/
structure Factors (R : Type) where
  xyIn : R
  xyOutInv : R
  zIn : R
  zOutInv : R

def factors (p : Parsed R) : Option (Factors R) :=
  let unit (k : String) : Option R := multiplier ((p.text? (S k)).getD [])
  match unit "xy_in", unit "xy_out", unit "z_in", unit "z_out" with
  | some a, some b, some c, some d =>
    some ⟨a, Scalar.ofNatLit 1 / b, c, Scalar.ofNatLit 1 / d⟩
  | _, _, _, _ => none

variable (R)
def new (ce : CtorEnv) (raw : RawParameters) : Except Err (Node R) :=
  match plain (R := R) ce "unitconvert" true gamut raw with
  | .error e => .error e
  | .ok n =>
    match factors n.params with
    | none => .error .badParam
    | some f =>
      let p := (((n.params.setReal (S "xy_in_to_pivot") f.xyIn).setReal (S "pivot_to_xy_out") f.xyOutInv).setReal
        (S "z_in_to_pivot") f.zIn).setReal (S "pivot_to_z_out") f.zOutInv
      .ok { n with params := p }
variable {R}

def sem (p : Parsed R) (dir : Dir) (data : List (Coor R)) : List (Coor R) × Nat :=
  match factors p with
  | none => (data, 0)
  | some f =>
    let xy := f.xyIn * f.xyOutInv
    let z := f.zIn * f.zOutInv
    (data.map fun c =>
      match dir with
      | .fwd => ⟨c.c0 * xy, c.c1 * xy, c.c2 * z, c.c3⟩
      | .inv => ⟨c.c0 / xy, c.c1 / xy, c.c2 / z, c.c3⟩, data.length)

end Unitconvert
end Ops
end Geodesy
