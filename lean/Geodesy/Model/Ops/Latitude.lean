/-
Model of `src/inner_op/latitude.rs`: conversion between the geographic latitude and one of the
auxiliary latitudes (geocentric, reduced = parametric, conformal, rectifying, authalic).
Only the second element of the tuple is touched; no tuple can fail.
-/
import Geodesy.Model.Ops.Basic
import Geodesy.Model.Num.Ellipsoid

namespace Geodesy
open Text
namespace Ops
namespace Latitude

variable {R : Type} [Scalar R]

def gamut : List OpParameter := Gen.gamut_latitude_GAMUT

/-- the number of latitude kinds asked for, as `latitude::new` counts them (`reduced` and
`parametric` are one kind) -/
def numberOfFlags (p : Parsed R) : Nat :=
  (if p.flagSet (S "geocentric") then 1 else 0)
  + (if p.flagSet (S "reduced") || p.flagSet (S "parametric") then 1 else 0)
  + (if p.flagSet (S "conformal") then 1 else 0)
  + (if p.flagSet (S "authalic") then 1 else 0)
  + (if p.flagSet (S "rectifying") then 1 else 0)

/-- `latitude::new`: exactly one kind.  The Fourier coefficients the code stores under
`"coefficients"` are a function of the ellipsoid alone; `sem` recomputes them (with exactly one
kind set, the stored table is the one of that kind). -/
def new (R : Type) [Scalar R] (ce : CtorEnv) (raw : RawParameters) : Except Err (Node R) :=
  match plain (R := R) ce "latitude" true gamut raw with
  | .error e => .error e
  | .ok n => if numberOfFlags n.params != 1 then .error .missingParam else .ok n

/-- `coord[1] = f(coord[1])` for every tuple; all count -/
def mapLat (f : R → R) (data : List (Coor R)) : List (Coor R) × Nat :=
  (data.map fun c => { c with c1 := f c.c1 }, data.length)

def fwd (p : Parsed R) (data : List (Coor R)) : List (Coor R) × Nat :=
  let ellps := p.ellps 0
  if p.flagSet (S "geocentric") then mapLat ellps.latitudeGeographicToGeocentric data
  else if p.flagSet (S "reduced") || p.flagSet (S "parametric") then
    mapLat ellps.latitudeGeographicToReduced data
  else if p.flagSet (S "conformal") then
    let coefficients := ellps.conformalCoefficients
    mapLat (fun lat => Ellipsoid.latitudeFwdSeries lat coefficients) data
  else if p.flagSet (S "rectifying") then
    let coefficients := ellps.rectifyingCoefficients
    mapLat (fun lat => Ellipsoid.latitudeGeographicToRectifying lat coefficients) data
  else if p.flagSet (S "authalic") then
    let coefficients := ellps.authalicCoefficients
    mapLat (fun lat => Ellipsoid.latitudeFwdSeries lat coefficients) data
  else (data, 0)

def inv (p : Parsed R) (data : List (Coor R)) : List (Coor R) × Nat :=
  let ellps := p.ellps 0
  if p.flagSet (S "geocentric") then mapLat ellps.latitudeGeocentricToGeographic data
  else if p.flagSet (S "reduced") || p.flagSet (S "parametric") then
    mapLat ellps.latitudeReducedToGeographic data
  else if p.flagSet (S "conformal") then
    let coefficients := ellps.conformalCoefficients
    mapLat (fun lat => Ellipsoid.latitudeInvSeries lat coefficients) data
  else if p.flagSet (S "rectifying") then
    let coefficients := ellps.rectifyingCoefficients
    mapLat (fun lat => Ellipsoid.latitudeRectifyingToGeographic lat coefficients) data
  else if p.flagSet (S "authalic") then
    let coefficients := ellps.authalicCoefficients
    mapLat (fun lat => Ellipsoid.latitudeInvSeries lat coefficients) data
  else (data, 0)

def sem (p : Parsed R) (dir : Dir) (data : List (Coor R)) : List (Coor R) × Nat :=
  match dir with
  | .fwd => fwd p data
  | .inv => inv p data

end Latitude
end Ops
end Geodesy
