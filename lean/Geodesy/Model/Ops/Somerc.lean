/-
Model of `src/inner_op/somerc.rs`: Swiss oblique Mercator.

The constructor stores `K`, `R`, `c`, `sin_phi_0_p`, `cos_phi_0_p`.  The inverse's latitude
iteration is ported as written (after the repair of the loop that never ran): `prev_phi` starts as
NaN, so the first comparison fails and the iteration runs at least once; it stops when two
consecutive latitudes agree to `EPS_10`, and a tuple for which 20 rounds do not suffice fails.
-/
import Geodesy.Model.Ops.Laea

namespace Geodesy
open Text
namespace Ops
namespace Somerc

variable {R : Type} [Scalar R]

def gamut : List OpParameter := Gen.gamut_somerc_GAMUT

/-- `EPS_10` -/
def eps10 : R := 1.0e-10
/-- `MAX_ITERATIONS` -/
def maxIterations : Nat := 20

def fracPi4 : R := Scalar.pi / 4.0
def fracPi2 : R := Scalar.pi / 2.0

/-- `params.real[key]` (indexing panics when absent; every key used is in the gamut with a
default or inserted by the constructor) -/
def get (p : Parsed R) (k : String) : R := (p.real? (S k)).getD Scalar.nan

/-- `somerc::new` -/
def new (R : Type) [Scalar R] (ce : CtorEnv) (raw : RawParameters) : Except Err (Node R) :=
  match plain (R := R) ce "somerc" true gamut raw with
  | .error e => .error e
  | .ok n =>
    let p := n.params
    let el := p.ellps 0
    let e := el.eccentricity
    let hlfE := e * 0.5
    let es := el.eccentricitySquared
    let a := el.a
    let k0 : R := get p "k_0"
    let phi0 : R := Scalar.toRadians (get p "lat_0")
    let sinPhi0 := Scalar.sin phi0
    let cosPhi0 := Scalar.cos phi0
    let c := Scalar.sqrt (1.0 + (es * Scalar.powi cosPhi0 4 / (1.0 - es)))
    let sinPhi0P := sinPhi0 / c
    let phi0P := Scalar.asin sinPhi0P
    let cosPhi0P := Scalar.cos phi0P
    let bigR := k0 * a * Scalar.sqrt (1.0 - es) / (1.0 - es * Scalar.powi sinPhi0 2)
    let k1 := Scalar.ln (Scalar.tan (fracPi4 + 0.5 * Scalar.asin (sinPhi0 / c)))
    let k2 := Scalar.ln (Scalar.tan (fracPi4 + 0.5 * phi0))
    let k3 := Scalar.ln ((1.0 + e * sinPhi0) / (1.0 - e * sinPhi0))
    let bigK := k1 - c * k2 + c * hlfE * k3
    let p := p.setReal (S "K") bigK
    let p := p.setReal (S "R") bigR
    let p := p.setReal (S "c") c
    let p := p.setReal (S "sin_phi_0_p") sinPhi0P
    let p := p.setReal (S "cos_phi_0_p") cosPhi0P
    .ok { n with params := p }

/-- one tuple of `fwd` -/
def fwd (p : Parsed R) (lam phi : R) : R × R :=
  let el := p.ellps 0
  let e := el.eccentricity
  let hlfE := e * 0.5
  let y0 : R := get p "y_0"
  let x0 : R := get p "x_0"
  let lam0 : R := Scalar.toRadians (get p "lon_0")
  let c : R := get p "c"
  let bigK : R := get p "K"
  let bigR : R := get p "R"
  let sinPhi0P : R := get p "sin_phi_0_p"
  let cosPhi0P : R := get p "cos_phi_0_p"
  let sp := e * Scalar.sin phi
  let phiP := 2.0
      * Scalar.atan (Scalar.exp
          (c * (Scalar.ln (Scalar.tan (fracPi4 + 0.5 * phi)) - hlfE * Scalar.ln ((1.0 + sp) / (1.0 - sp)))
            + bigK))
      - fracPi2
  let lamP := c * (lam - lam0)
  let sinLamP := Scalar.sin lamP
  let cosLamP := Scalar.cos lamP
  let sinPhiP := Scalar.sin phiP
  let cosPhiP := Scalar.cos phiP
  let phiPP := Scalar.asin (cosPhi0P * sinPhiP - sinPhi0P * cosPhiP * cosLamP)
  let lamPP := Scalar.asin (cosPhiP * sinLamP / Scalar.cos phiPP)
  let x := bigR * lamPP + x0
  let y := bigR * Scalar.ln (Scalar.tan (fracPi4 + 0.5 * phiPP)) + y0
  (x, y)

/-- the state of the `while j > 0` loop of `inv` -/
structure Iter (R : Type) where
  phi : R
  prevPhi : R
  j : Nat
  broke : Bool := false

/-- one pass through the loop head and body -/
def iterStep (bigC e : R) (s : Iter R) : Iter R :=
  if s.broke || s.j == 0 then s else
  if Scalar.lt (Scalar.abs (s.phi - s.prevPhi)) eps10 then { s with broke := true } else
  let bigS := bigC + e * Scalar.ln (Scalar.tan (fracPi4 + Scalar.asin (e * Scalar.sin s.phi) / 2.0))
  { phi := 2.0 * Scalar.atan (Scalar.exp bigS) - fracPi2, prevPhi := s.phi, j := s.j - 1 }

/-- one tuple of `inv`; `none`: `j <= 0` after the loop (`set_xy(i, NAN, NAN)`, not counted) -/
def inv (p : Parsed R) (x y : R) : Option (R × R) :=
  let el := p.ellps 0
  let e := el.eccentricity
  let c : R := get p "c"
  let bigK : R := get p "K"
  let bigR : R := get p "R"
  let lam0 : R := Scalar.toRadians (get p "lon_0")
  let sinPhi0P : R := get p "sin_phi_0_p"
  let cosPhi0P : R := get p "cos_phi_0_p"
  let y0 : R := get p "y_0"
  let x0 : R := get p "x_0"
  let bigX := x - x0
  let bigY := y - y0
  let phiPP := 2.0 * (Scalar.atan (Scalar.exp (bigY / bigR)) - fracPi4)
  let lamPP := bigX / bigR
  let sinPhiP := cosPhi0P * Scalar.sin phiPP + sinPhi0P * Scalar.cos phiPP * Scalar.cos lamPP
  let phiP := Scalar.asin sinPhiP
  let sinLamP := (Scalar.cos phiPP * Scalar.sin lamPP) / Scalar.cos phiP
  let lamP := Scalar.asin sinLamP
  let bigC := (Scalar.ln (Scalar.tan (fracPi4 + 0.5 * phiP)) - bigK) / c
  let lam := (lamP / c) + lam0
  -- every pass either breaks or decrements `j`, so `maxIterations` passes exhaust the loop
  let s := (List.range maxIterations).foldl (fun s _ => iterStep bigC e s)
    ({ phi := phiP, prevPhi := Scalar.nan, j := maxIterations } : Iter R)
  if s.j == 0 then none else some (lam, s.phi)

def sem (p : Parsed R) (dir : Dir) (data : List (Coor R)) : List (Coor R) × Nat :=
  match dir with
  | .fwd => mapXY (fwd p) data
  | .inv => mapXYOpt (inv p) data

end Somerc
end Ops
end Geodesy
