/-
Model of `src/ellipsoid/geodesics.rs` (the trait `Geodesics`: Vincenty's direct and inverse
solutions, and `distance`) and of `src/inner_op/geodesic.rs` (the operator `geodesic`).
-/
import Geodesy.Model.Ops.Basic
import Geodesy.Model.Num.Ellipsoid

namespace Geodesy
open Text

variable {R : Type} [Scalar R]

/-! ### `Geodesics` (`src/ellipsoid/geodesics.rs`) -/

namespace Ellipsoid

/-- the `mut` variables of the `while i < 1000` loop of `geodesic_fwd` -/
structure GeodFwdState (R : Type) where
  ss : R
  i : Nat
  t1 : R
  ssmx2cos : R
  done : Bool := false

/-- `geodesic_fwd(from, azimuth, distance)`, `from.xy() = (L1, B1)`: the destination
`(L2, B2, return azimuth, iterations)`, all angles in radians -/
def geodesicFwd (el : Ellipsoid R) (L1 B1 azimuth distance : R) : Coor R :=
  -- The latitude of P1 projected onto the auxiliary sphere
  let U1 := el.latitudeGeographicToReduced B1
  let U1sin := Scalar.sin U1
  let U1cos := Scalar.cos U1

  -- σ_1, here ss1, is the angular distance on the aux sphere from P1 to equator
  let azisin := Scalar.sin azimuth
  let azicos := Scalar.cos azimuth
  let ss1 := Scalar.atan2 ((1.0 - el.f) * Scalar.tan B1) azicos

  -- α, the forward azimuth of the geodesic at equator
  let aasin := U1cos * azisin
  let aasin2 := aasin * aasin
  let aacos2 := 1.0 - aasin2

  -- A and B according to Vincenty's update (1976)
  let eps := el.secondEccentricitySquared
  let us := aacos2 * eps
  let t := Scalar.sqrt (1.0 + us)
  let k1 := (t - 1.0) / (t + 1.0)
  let A := (1.0 + k1 * k1 / 4.0) / (1.0 - k1)
  let B := k1 * (1.0 - 3.0 * k1 * k1 / 8.0)

  -- Initial estimate for λ, the longitude on the auxiliary sphere
  let b := el.semiminorAxis
  let step (s : GeodFwdState R) : GeodFwdState R :=
    if s.done then s else
    let i := s.i + 1
    let ss := s.ss
    -- 2σ_m, where σ_m is the latitude of the midpoint on the aux sphere
    let ssmx2 := 2.0 * ss1 + ss
    -- dσ = dss: The correction term for σ
    let ssmx2cos := Scalar.cos ssmx2
    let ssmx2cos2 := ssmx2cos * ssmx2cos
    let t1 := -1.0 + 2.0 * ssmx2cos2
    let t2 := -3.0 + 4.0 * ssmx2cos2
    let sssin := Scalar.sin ss
    let sscos := Scalar.cos ss
    let t3 := -3.0 + 4.0 * sssin * sssin
    let dss := B * sssin * (ssmx2cos + B / 4.0 * (sscos * t1 - B / 6.0 * ssmx2cos * t2 * t3))
    let prevss := ss
    let ss := distance / (b * A) + dss
    -- Stop criterion: Last update of σ made little difference
    { ss, i, t1, ssmx2cos, done := Scalar.lt (Scalar.abs (prevss - ss)) 1e-13 }
  let st := (List.range 1000).foldl (fun s _ => step s)
    ({ ss := distance / (b * A), i := 0, t1 := 0.0, ssmx2cos := 0.0 } : GeodFwdState R)
  let ss := st.ss
  let t1 := st.t1
  let ssmx2cos := st.ssmx2cos

  -- B2: Latitude of destination
  let sssin := Scalar.sin ss
  let sscos := Scalar.cos ss
  let f := el.f
  let t4 := U1cos * azicos * sssin
  let t5 := U1cos * azicos * sscos
  let B2 := Scalar.atan2 (U1sin * sscos + t4) ((1.0 - f) * Scalar.hypot aasin (U1sin * sssin - t5))

  -- L2: Longitude of destination
  let azisin := Scalar.sin azimuth
  let ll := Scalar.atan2 (sssin * azisin) (U1cos * sscos - U1sin * sssin * azicos)
  let C := (4.0 + f * (4.0 - 3.0 * aacos2)) * f * aacos2 / 16.0
  let L := ll - (1.0 - C) * f * aasin * (ss + C * sssin * (ssmx2cos + C * sscos * t1))
  let L2 := L1 + L

  -- Return azimuth
  let aa2 := Scalar.atan2 aasin (U1cos * sscos * azicos - U1sin * sssin)

  ⟨L2, B2, aa2, Scalar.ofNatLit st.i⟩

/-- the `mut` variables of the `while i < 1000` loop of `geodesic_inv` -/
structure GeodInvState (R : Type) where
  ll : R
  aacos2 : R
  ssmx2cos : R
  sscos : R
  sssin : R
  ss : R
  llsin : R
  llcos : R
  i : Nat
  done : Bool := false

/-- `geodesic_inv(from, to)`, `from.xy() = (L1, B1)`, `to.xy() = (L2, B2)`:
`(forward azimuth, return azimuth, distance, iterations)`, angles in radians -/
def geodesicInv (el : Ellipsoid R) (L1 B1 L2 B2 : R) : Coor R :=
  let B := B2 - B1
  let L := L2 - L1

  -- Below the micrometer level, we don't care about directions
  -- (`Coor4D::geo(0., 0., 0., 0.)`: `0_f64.to_radians()` is `0.`)
  if Scalar.lt (Scalar.hypot L B) 1e-15 then
    ⟨Scalar.toRadians 0.0, Scalar.toRadians 0.0, 0.0, 0.0⟩ else

  let U1 := el.latitudeGeographicToReduced B1
  let U2 := el.latitudeGeographicToReduced B2

  let U1sin := Scalar.sin U1
  let U1cos := Scalar.cos U1
  let U2sin := Scalar.sin U2
  let U2cos := Scalar.cos U2
  let eps := el.secondEccentricitySquared
  let f := el.f

  let step (s : GeodInvState R) : GeodInvState R :=
    if s.done then s else
    let i := s.i + 1
    let ll := s.ll
    -- σ, the angular separation between the points
    let llsin := Scalar.sin ll
    let llcos := Scalar.cos ll
    let t1 := U2cos * llsin
    let t2 := U1cos * U2sin - U2cos * U1sin * llcos
    let sssin := Scalar.hypot t1 t2
    let sscos := U1sin * U2sin + U1cos * U2cos * llcos
    let ss := Scalar.atan2 sssin sscos

    -- α, the forward azimuth of the geodesic at equator
    let aasin := U1cos * U2cos * llsin / sssin
    let aacos2 := 1.0 - aasin * aasin

    -- cosine of 2 times σ_m, the angular separation from the midpoint to the equator
    let ssmx2cos := if Scalar.beq aacos2 0.0 then 0.0 else sscos - 2.0 * U1sin * U2sin / aacos2
    let C := (4.0 + f * (4.0 - 3.0 * aacos2)) * f * aacos2 / 16.0
    let llNext := L
      + (1.0 - C)
          * f
          * aasin
          * (ss + C * sssin * (ssmx2cos + C * sscos * (-1.0 + 2.0 * ssmx2cos * ssmx2cos)))
    let dl := Scalar.abs (ll - llNext)
    { ll := llNext, aacos2, ssmx2cos, sscos, sssin, ss, llsin, llcos, i,
      done := Scalar.lt dl 1e-12 }
  -- Initial estimate for λ, the longitude on the auxiliary sphere
  let st := (List.range 1000).foldl (fun s _ => step s)
    ({ ll := L, aacos2 := 0.0, ssmx2cos := 0.0, sscos := 0.0, sssin := 0.0, ss := 0.0,
       llsin := 0.0, llcos := 1.0, i := 0 } : GeodInvState R)
  let aacos2 := st.aacos2
  let ssmx2cos := st.ssmx2cos
  let sscos := st.sscos
  let sssin := st.sssin
  let ss := st.ss
  let llsin := st.llsin
  let llcos := st.llcos

  -- A and B according to Vincenty's update (1976)
  let us := aacos2 * eps
  let t := Scalar.sqrt (1.0 + us)
  let k1 := (t - 1.0) / (t + 1.0)
  let A := (1.0 + k1 * k1 / 4.0) / (1.0 - k1)
  let B := k1 * (1.0 - 3.0 * k1 * k1 / 8.0)

  -- The difference between the dist on the aux sphere and on the ellipsoid.
  let t1 := -1.0 + 2.0 * ssmx2cos * ssmx2cos
  let t2 := -3.0 + 4.0 * sssin * sssin
  let t3 := -3.0 + 4.0 * ssmx2cos * ssmx2cos
  let dss := B * sssin * (ssmx2cos + B / 4.0 * (sscos * t1 - B / 6.0 * ssmx2cos * t2 * t3))

  -- Distance, forward azimuth, return azimuth
  let s := el.semiminorAxis * A * (ss - dss)
  let a1 := Scalar.atan2 (U2cos * llsin) (U1cos * U2sin - U1sin * U2cos * llcos)
  let a2 := Scalar.atan2 (U1cos * llsin) ((-U1sin) * U2cos + U1cos * U2sin * llcos)
  ⟨a1, a2, s, Scalar.ofNatLit st.i⟩

/-- `distance(from, to)`: `geodesic_inv(from, to)[2]` -/
def distance (el : Ellipsoid R) (L1 B1 L2 B2 : R) : R := (el.geodesicInv L1 B1 L2 B2).c2

end Ellipsoid

/-! ### the operator `geodesic` (`src/inner_op/geodesic.rs`) -/

namespace Ops
namespace Geodesic

def gamut : List OpParameter := Gen.gamut_geodesic_GAMUT

/-- `geodesic::new` -/
def new (R : Type) [Scalar R] (ce : CtorEnv) : Ctor R := plain ce "geodesic" true gamut

/-- `AngularUnits::to_degrees`: the first two elements only -/
def toDegrees (c : Coor R) : Coor R :=
  { c with c0 := Scalar.toDegrees c.c0, c1 := Scalar.toDegrees c.c1 }

/-- forward: (latitude, longitude, azimuth, distance), degrees and metres, to
(latitude, longitude of the destination, latitude, longitude of the origin) -/
def fwd (p : Parsed R) (args : Coor R) : Option (Coor R) :=
  let ellps := p.ellps 0
  -- `Coor2D::geo(args[0], args[1])` = `[args[1].to_radians(), args[0].to_radians()]`
  let originX := Scalar.toRadians args.c1
  let originY := Scalar.toRadians args.c0
  let azimuth := Scalar.toRadians args.c2
  let distance := args.c3
  let destination := toDegrees (ellps.geodesicFwd originX originY azimuth distance)
  -- No convergence?
  if Scalar.gt destination.c3 990.0 then none else
  some ⟨destination.c1, destination.c0, args.c0, args.c1⟩

/-- inverse: (lat, lon, lat, lon) of two points, degrees, to (azimuth, return azimuth, distance,
return azimuth turned half round), or with `reversible` to something `fwd` takes back -/
def inv (p : Parsed R) (coord : Coor R) : Option (Coor R) :=
  let ellps := p.ellps 0
  let reversible := p.flagSet (S "reversible")
  let from0 := Scalar.toRadians coord.c1
  let from1 := Scalar.toRadians coord.c0
  let to0 := Scalar.toRadians coord.c3
  let to1 := Scalar.toRadians coord.c2
  let geodesic := toDegrees (ellps.geodesicInv from0 from1 to0 to1)
  -- No convergence?
  if Scalar.gt geodesic.c3 990.0 then none else
  let geodesic := { geodesic with c3 := Scalar.fmod (geodesic.c1 + 180.0) 360.0 }
  if reversible then
    let distance := geodesic.c2
    let returnAzi := geodesic.c3
    some ⟨coord.c2, coord.c3, returnAzi, distance⟩
  else some geodesic

/-- a failing tuple becomes `Coor4D::nan()` and is not counted -/
def sem (p : Parsed R) (dir : Dir) (data : List (Coor R)) : List (Coor R) × Nat :=
  let f := match dir with
    | .fwd => fwd p
    | .inv => inv p
  let results := data.map f
  (results.map fun r => r.getD (Coor.splat Scalar.nan), (results.filter Option.isSome).length)

end Geodesic
end Ops
end Geodesy
