/-
Model of the three grid operators: `src/inner_op/gridshift.rs`, `deformation.rs`,
`deflection.rs`.  The grids come from the context (`GridEnv`); a constructor records the names
of the grids it could load, in list order (`Parsed.grids`), as the code keeps the grids
themselves in `params.grids`.
-/
import Geodesy.Model.Ops.Cart
import Geodesy.Model.Num.Grid

namespace Geodesy
open Text
namespace Ops

variable {R : Type} [Scalar R]

namespace Coor
def add (a b : Coor R) : Coor R := ⟨a.c0 + b.c0, a.c1 + b.c1, a.c2 + b.c2, a.c3 + b.c3⟩
def sub (a b : Coor R) : Coor R := ⟨a.c0 - b.c0, a.c1 - b.c1, a.c2 - b.c2, a.c3 - b.c3⟩
def scale (a : Coor R) (k : R) : Coor R := ⟨a.c0 * k, a.c1 * k, a.c2 * k, a.c3 * k⟩
def nan4 : Coor R := Coor.splat Scalar.nan
end Coor

/-- the loop over the `grids` names shared by the three constructors: `@` marks an optional
grid, `null` (with or without `@`) sets the null grid flag and ends the list, a grid that the
context cannot serve is an error unless optional; `check` may refuse a grid by its band count -/
def loadGrids (ce : CtorEnv) (check : Nat → Except Err Unit) (names : List Str) (p : Parsed R) :
    Except Err (Parsed R) :=
  match names with
  | [] => .ok p
  | name :: rest =>
    let optional := startsWith (S "@") name
    let name := if optional then trimStartMatches '@' name else name
    if name == S "null" then .ok (p.setFlag (S "null_grid")) else
    match ce.gridBands name with
    | some bands =>
      match check bands with
      | .error e => .error e
      | .ok () => loadGrids ce check rest { p with grids := p.grids ++ [name] }
    | none => if optional then loadGrids ce check rest p else .error ce.gridErr

/-- the grid objects of an operator, in list order (every recorded name is served: the
constructor has seen it) -/
def gridsOf (genv : Grid.GridEnv R) (p : Parsed R) : List (Grid.GridObj R) := p.grids.filterMap genv

/-! ### gridshift -/

namespace Gridshift

def gamut : List OpParameter := Gen.gamut_gridshift_GAMUT

def new (R : Type) [Scalar R] (ce : CtorEnv) (raw : RawParameters) : Except Err (Node R) :=
  match plain (R := R) ce "gridshift" true gamut raw with
  | .error e => .error e
  | .ok n =>
    match n.params.texts? (S "grids") with
    | none => .error .missingParam
    | some names =>
      match loadGrids ce (fun _ => .ok ()) names n.params with
      | .error e => .error e
      | .ok p => .ok { n with params := p }

def fwd (gs : List (Grid.GridObj R)) (useNull : Bool) (c : Coor R) : Option (Coor R) :=
  match Grid.gridsAtObjs gs c.c0 c.c1 useNull with
  | some d =>
    if (gs.head?.map (·.bands)) == some 1 then some { c with c2 := c.c2 - d.c0 }
    else some { c with c0 := c.c0 + d.c0, c1 := c.c1 + d.c1 }
  | none => none

/-- the state of the inverse iteration: current estimate, outcome -/
structure InvState (R : Type) where
  t : Coor R
  done : Option (Option (Coor R)) := none     -- `some (some r)`: converged; `some none`: wandered off

def inv (gs : List (Grid.GridObj R)) (useNull : Bool) (coord : Coor R) : Option (Coor R) :=
  match Grid.gridsAtObjs gs coord.c0 coord.c1 useNull with
  | none => none
  | some t0 =>
    if (gs.head?.map (·.bands)) == some 1 then some { coord with c2 := coord.c2 + t0.c0 } else
    let step (s : InvState R) : InvState R :=
      match s.done with
      | some _ => s
      | none =>
        match Grid.gridsAtObjs gs s.t.c0 s.t.c1 useNull with
        | some t2 =>
          let d := Coor.add (Coor.sub s.t coord) t2
          let t := Coor.sub s.t d
          if Scalar.lt (Scalar.hypot d.c0 d.c1) 1e-12 then { t, done := some (some t) } else { t }
        | none => { t := s.t, done := some none }
    let s := (List.range 10).foldl (fun s _ => step s) ({ t := Coor.sub coord t0 } : InvState R)
    match s.done with
    | some r => r
    | none => none      -- ten rounds without convergence

def sem (genv : Grid.GridEnv R) (p : Parsed R) (dir : Dir) (data : List (Coor R)) : List (Coor R) × Nat :=
  let gs := gridsOf genv p
  if gs.isEmpty then (data, data.length) else
  let useNull := p.flagSet (S "null_grid")
  let f := match dir with
    | .fwd => fwd gs useNull
    | .inv => inv gs useNull
  let results := data.map f
  (results.map fun r => r.getD Coor.nan4, (results.filter Option.isSome).length)

end Gridshift

/-! ### deformation -/

namespace Deformation

def gamut : List OpParameter := Gen.gamut_deformation_GAMUT

def new (R : Type) [Scalar R] (ce : CtorEnv) (raw : RawParameters) : Except Err (Node R) :=
  match plain (R := R) ce "deformation" true gamut raw with
  | .error e => .error e
  | .ok n =>
    let dt : R := (n.params.real? (S "dt")).getD Scalar.nan
    let epoch : R := (n.params.real? (S "t_epoch")).getD Scalar.nan
    if Scalar.isNaN dt && Scalar.isNaN epoch then .error .missingParam else
    match n.params.texts? (S "grids") with
    | none => .error .missingParam
    | some names =>
      match loadGrids ce (fun bands => if bands != 3 then .error .invalid else .ok ()) names n.params with
      | .error e => .error e
      | .ok p => .ok { n with params := p }

/-- `rotate_and_integrate_velocity` -/
def rotateAndIntegrate (v : Coor R) (longitude latitude duration : R) : Coor R :=
  let slon := Scalar.sin longitude
  let clon := Scalar.cos longitude
  let slat := Scalar.sin latitude
  let clat := Scalar.cos latitude
  ⟨duration * (-slat * clon * v.c1 - slon * v.c0 + clat * clon * v.c2),
   duration * (-slat * slon * v.c1 + clon * v.c0 + clat * slon * v.c2),
   duration * (clat * v.c1 + slat * v.c2),
   0.0⟩

/-- the first hit over the two passes (margin 0, then 0.5), as the operator spells it out -/
def firstHit (gs : List (Grid.GridObj R)) (lon lat : R) : Option (Coor R) :=
  match gs.findSome? fun g => g.look lon lat 0.0 with
  | some v => some v
  | none => gs.findSome? fun g => g.look lon lat 0.5

/-- one tuple; `none`: no grid found; `some none`: passes unchanged (null grid) -/
def one (p : Parsed R) (gs : List (Grid.GridObj R)) (dir : Dir) (cart : Coor R) : Option (Coor R) :=
  let dt : R := (p.real? (S "dt")).getD Scalar.nan
  let epoch : R := (p.real? (S "t_epoch")).getD Scalar.nan
  let ellps := p.ellps 0
  let raw := p.flagSet (S "raw")
  let geo := ellps.geographic cart
  match firstHit gs geo.c0 geo.c1 with
  | some v =>
    let d := if Scalar.isFinite dt then dt else epoch - geo.c3
    let v' := match dir with
      | .fwd => Coor.scale v (-1.0)
      | .inv => v
    let deformation := rotateAndIntegrate v' geo.c0 geo.c1 d
    if raw then
      some { deformation with c3 := Scalar.sqrt (deformation.c0 * deformation.c0 + deformation.c1 * deformation.c1
        + deformation.c2 * deformation.c2 + deformation.c3 * deformation.c3) }
    else some { Coor.add cart deformation with c3 := cart.c3 }   -- (the epoch comes back as it was given)
  | none => if p.flagSet (S "null_grid") then some cart else none

def sem (genv : Grid.GridEnv R) (p : Parsed R) (dir : Dir) (data : List (Coor R)) : List (Coor R) × Nat :=
  let gs := gridsOf genv p
  let results := data.map (one p gs dir)
  (results.map fun r => r.getD Coor.nan4, (results.filter Option.isSome).length)

end Deformation

/-! ### deflection -/

namespace Deflection

def gamut : List OpParameter := Gen.gamut_deflection_GAMUT

def new (R : Type) [Scalar R] (ce : CtorEnv) (raw : RawParameters) : Except Err (Node R) :=
  match plain (R := R) ce "deflection" false gamut raw with
  | .error e => .error e
  | .ok n =>
    match n.params.texts? (S "grids") with
    | none => .error .missingParam
    | some names =>
      match loadGrids ce (fun _ => .ok ()) names n.params with
      | .error e => .error e
      | .ok p => .ok { n with params := p }

def one (p : Parsed R) (gs : List (Grid.GridObj R)) (c : Coor R) : Option (Coor R) :=
  let ellps := p.ellps 0
  let useNull := p.flagSet (S "null_grid")
  let lat := Scalar.toRadians c.c0
  let lon := Scalar.toRadians c.c1
  let latDist := ellps.meridianLatitudeToDistance lat
  let dlat := ellps.meridianDistanceToLatitude (latDist + 1.0) - lat
  let dlon := Scalar.recip (Scalar.cos lat * ellps.primeVerticalRadiusOfCurvature lat)
  match Grid.gridsAtObjs gs lon lat useNull with
  | none => none
  | some origin =>
    match Grid.gridsAtObjs gs lon (lat + dlat) useNull with
    | none => none
    | some lat1 =>
      match Grid.gridsAtObjs gs (lon + dlon) lat useNull with
      | none => none
      | some lon1 =>
        let xi := Scalar.atan2 (lat1.c0 - origin.c0) 1.0
        let eta := Scalar.atan2 (lon1.c0 - origin.c0) 1.0
        some ⟨Scalar.toDegrees xi * 3600.0, Scalar.toDegrees eta * 3600.0, c.c2, c.c3⟩

def sem (genv : Grid.GridEnv R) (p : Parsed R) (dir : Dir) (data : List (Coor R)) : List (Coor R) × Nat :=
  match dir with
  | .inv => (data, 0)
  | .fwd =>
    let gs := gridsOf genv p
    if gs.isEmpty then (data, data.length) else
    let results := data.map (one p gs)
    (results.map fun r => r.getD Coor.nan4, (results.filter Option.isSome).length)

end Deflection

end Ops
end Geodesy
