/-
Model of `src/inner_op/btmerc.rs`: the Bowring (1989) transverse mercator (`btmerc`) and its
UTM front end (`butm`).  Nothing is precomputed; no tuple can fail (every tuple is counted).
-/
import Geodesy.Model.Ops.Basic
import Geodesy.Model.Ops.Merc
import Geodesy.Model.Num.Ellipsoid

namespace Geodesy
open Text
namespace Ops
namespace Btmerc

variable {R : Type} [Scalar R]

def gamut : List OpParameter := Gen.gamut_btmerc_GAMUT
def utmGamut : List OpParameter := Gen.gamut_btmerc_UTM_GAMUT

/-- `btmerc::new` -/
def new (R : Type) [Scalar R] (ce : CtorEnv) : Ctor R := plain ce "btmerc" true gamut

/-- `btmerc::utm`: `ParsedParameters::new` (not `Op::plain`), the zone check, the UTM constants -/
def utmNew (R : Type) [Scalar R] (ce : CtorEnv) (raw : RawParameters) : Except Err (Node R) :=
  match Parsed.new (R := R) ce.ellpsKnown raw utmGamut with
  | .error e => .error e
  | .ok p =>
    match p.natural? (S "zone") with
    | none => .error .missingParam
    | some zone =>
      if !(1 ≤ zone && zone < 61) then .error .general else
      let p := p.setReal (S "k_0") 0.9996
      let p := p.setReal (S "lon_0") (-183.0 + 6.0 * Scalar.ofInt (zone : Int))
      let p := p.setReal (S "lat_0") 0.0
      let p := p.setReal (S "x_0") 500000.0
      let p := p.setReal (S "y_0") 0.0
      let p := if p.flagSet (S "south") then p.setReal (S "y_0") 10000000.0 else p
      .ok { tag := S "btmerc", definition := raw.definition, invertible := true, params := p }

/-- one tuple, forward (northings are counted from the latitude of origin) -/
def fwd (p : Parsed R) (c0 c1 : R) : R × R :=
  let ellps := p.ellps 0
  let eps := ellps.secondEccentricitySquared
  let lat0 := Scalar.toRadians (Parsed.lat p 0)
  let lon0 := Scalar.toRadians (Parsed.lon p 0)
  let x0 := Parsed.x p 0
  let y0 := Parsed.y p 0
  let k0 := Parsed.k p 0
  let m0 := ellps.meridianLatitudeToDistance lat0
  let lat := c1
  let s := Scalar.sin lat
  let c := Scalar.cos lat
  let cc := c * c
  let ss := s * s
  let dlon := c0 - lon0
  let oo := dlon * dlon
  let N := ellps.primeVerticalRadiusOfCurvature lat
  let z := eps * Scalar.powi dlon 3 * Scalar.powi c 5 / 6.0
  let sd2 := Scalar.sin (dlon / 2.0)
  let theta2 := Scalar.atan2 (2.0 * s * c * sd2 * sd2) (ss + cc * Scalar.cos dlon)
  -- easting
  let sd := Scalar.sin dlon
  let e := x0 + k0 * N * (Scalar.atanh (c * sd) + z * (1.0 + oo * (36.0 * cc - 29.0) / 10.0))
  -- northing
  let m := ellps.meridianLatitudeToDistance lat
  let znos4 := z * N * dlon * s / 4.0
  let ecc := 4.0 * eps * cc
  let n := y0 + k0 * (m - m0 + N * theta2 + znos4 * (9.0 + ecc + oo * (20.0 * cc - 11.0)))
  (e, n)

/-- one tuple, inverse -/
def inv (p : Parsed R) (c0 c1 : R) : R × R :=
  let ellps := p.ellps 0
  let eps := ellps.secondEccentricitySquared
  let lat0 := Scalar.toRadians (Parsed.lat p 0)
  let lon0 := Scalar.toRadians (Parsed.lon p 0)
  let x0 := Parsed.x p 0
  let y0 := Parsed.y p 0
  let k0 := Parsed.k p 0
  -- footpoint latitude
  let m0 := ellps.meridianLatitudeToDistance lat0
  let lat := ellps.meridianDistanceToLatitude ((c1 - y0) / k0 + m0)
  let s := Scalar.sin lat
  let c := Scalar.cos lat
  let t := s / c
  let cc := c * c
  let N := ellps.primeVerticalRadiusOfCurvature lat
  let x := (c0 - x0) / (k0 * N)
  let xx := x * x
  let theta4 := Scalar.atan2 (Scalar.sinh x) c
  let theta5 := Scalar.atan (t * Scalar.cos theta4)
  -- latitude
  let xet := xx * xx * eps * t / 24.0
  let latOut := (1.0 + cc * eps) * (theta5 - xet * (9.0 - 10.0 * cc)) - eps * cc * lat
  -- longitude
  let approx := lon0 + theta4
  let coef := eps / 60.0 * xx * x * c
  let lonOut := approx - coef * (10.0 - 4.0 * xx / cc + xx * cc)
  (lonOut, latOut)

def sem (p : Parsed R) (dir : Dir) (data : List (Coor R)) : List (Coor R) × Nat :=
  match dir with
  | .fwd => mapXY (fwd p) data
  | .inv => mapXY (inv p) data

end Btmerc
end Ops
end Geodesy
