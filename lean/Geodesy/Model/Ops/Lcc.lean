/-
Model of `src/inner_op/lcc.rs` (Lambert conformal conic): constructor (the derived `n`, `c`,
`rho0`, `lat_0` are stored in the parameters, the angles in radians, as the code does), forward
and inverse per-tuple functions, and the loops with their NaN stomping and success counts.
-/
import Geodesy.Model.Ops.Basic
import Geodesy.Model.Ops.Merc
import Geodesy.Model.Num.Ellipsoid

namespace Geodesy
open Text
namespace Ops
namespace Lcc

variable {R : Type} [Scalar R]

def gamut : List OpParameter := Gen.gamut_lcc_GAMUT

/-- `const EPS10: f64 = 1e-10` -/
def eps10 : R := 1e-10

/-- `std::f64::consts::FRAC_PI_2` -/
def fracPi2 : R := Scalar.pi / 2.0

/-- `lcc::new` -/
def new (R : Type) [Scalar R] (ce : CtorEnv) (raw : RawParameters) : Except Err (Node R) :=
  match plain (R := R) ce "lcc" true gamut raw with
  | .error e => .error e
  | .ok node =>
    let p := node.params
    -- `if !params.real.contains_key("lat_2")` (never true: the gamut has a default for `lat_2`)
    let p := if (p.real? (S "lat_2")).isNone then p.setReal (S "lat_2") (Parsed.lat p 1) else p
    let phi1 : R := Scalar.toRadians (Parsed.lat p 1)
    let phi2 : R := Scalar.toRadians (Parsed.lat p 2)
    let phi2 := if Scalar.isNaN phi2 then phi1 else phi2
    -- `params.real["lon_0"]`, `params.real["lat_0"]`: indexing (both are in the gamut)
    let p := p.setReal (S "lon_0") (Scalar.toRadians ((p.real? (S "lon_0")).getD 0.0))
    let p := p.setReal (S "lat_0") (Scalar.toRadians ((p.real? (S "lat_0")).getD 0.0))
    let p := p.setReal (S "lat_1") phi1
    let p := p.setReal (S "lat_2") phi2
    let lat0 : R := Parsed.lat p 0
    let lat0 : R :=
      if Scalar.isNaN lat0 then
        (if Scalar.lt (Scalar.abs (phi1 - phi2)) eps10 then phi1 else 0.0)
      else lat0
    let s1 := Scalar.sin phi1
    let c1 := Scalar.cos phi1
    let n : R := s1
    let ellps := p.ellps 0
    let e := ellps.eccentricity
    let es := ellps.eccentricitySquared
    if Scalar.lt (Scalar.abs (phi1 + phi2)) eps10 then .error .general else
    if Scalar.lt (Scalar.abs c1) eps10 || Scalar.ge (Scalar.abs phi1) fracPi2 then .error .general else
    if Scalar.lt (Scalar.abs (Scalar.cos phi2)) eps10 || Scalar.ge (Scalar.abs phi2) fracPi2 then
      .error .general else
    let m1 := Ancillary.msfn s1 c1 es
    let ml1 := Ancillary.ts s1 c1 e
    -- secant case?
    let nE : Except Err R :=
      if Scalar.ge (Scalar.abs (phi1 - phi2)) eps10 then
        let s2 := Scalar.sin phi2
        let c2 := Scalar.cos phi2
        let n := Scalar.ln (m1 / Ancillary.msfn s2 c2 es)
        if Scalar.beq n 0.0 then .error .general else
        let ml2 := Ancillary.ts s2 c2 e
        let denom := Scalar.ln (ml1 / ml2)
        if Scalar.beq denom 0.0 then .error .general else
        .ok (n / denom)
      else .ok n
    match nE with
    | .error err => .error err
    | .ok n =>
      let c := m1 * Scalar.pow ml1 (-n) / n
      let rho0 : R :=
        if Scalar.gt (Scalar.abs (Scalar.abs lat0 - fracPi2)) eps10 then
          c * Scalar.pow (Ancillary.ts (Scalar.sin lat0) (Scalar.cos lat0) e) n
        else 0.0
      let p := p.setReal (S "c") c
      let p := p.setReal (S "n") n
      let p := p.setReal (S "rho0") rho0
      let p := p.setReal (S "lat_0") lat0
      .ok { node with params := p }

/-- what `fwd` and `inv` read from the parameters before their loops -/
structure Consts (R : Type) where
  a : R
  e : R
  lon0 : R
  k0 : R
  x0 : R
  y0 : R
  n : R
  c : R
  rho0 : R

/-- `none` where the code returns 0 before the loop (a derived parameter is missing) -/
def consts (p : Parsed R) : Option (Consts R) :=
  let ellps := p.ellps 0
  match p.real? (S "n"), p.real? (S "c"), p.real? (S "rho0") with
  | some n, some c, some rho0 =>
    some { a := ellps.a, e := ellps.eccentricity, lon0 := Parsed.lon p 0, k0 := Parsed.k p 0,
           x0 := Parsed.x p 0, y0 := Parsed.y p 0, n, c, rho0 }
  | _, _, _ => none

/-- one tuple of the forward loop: `none` when the tuple is stomped and not counted -/
def fwd (k : Consts R) (lam phi : R) : Option (R × R) :=
  let lam := lam - k.lon0
  -- close to one of the poles?
  let rhoO : Option R :=
    if Scalar.lt (Scalar.abs (Scalar.abs phi - fracPi2)) eps10 then
      (if Scalar.le (phi * k.n) 0.0 then none else some 0.0)
    else
      some (k.c * Scalar.pow (Ancillary.ts (Scalar.sin phi) (Scalar.cos phi) k.e) k.n)
  match rhoO with
  | none => none
  | some rho =>
    let s := Scalar.sin (lam * k.n)
    let c := Scalar.cos (lam * k.n)
    let x := k.a * k.k0 * rho * s + k.x0
    let y := k.a * k.k0 * (k.rho0 - rho * c) + k.y0
    some (x, y)

/-- one tuple of the inverse loop -/
def inv (k : Consts R) (x y : R) : Option (R × R) :=
  let x := (x - k.x0) / (k.a * k.k0)
  let y := k.rho0 - (y - k.y0) / (k.a * k.k0)
  let rho := Scalar.hypot x y
  -- on one of the poles?
  if Scalar.beq rho 0.0 then some (0.0, Scalar.copysign fracPi2 k.n) else
  -- standard parallel on the southern hemisphere?
  let south := Scalar.lt k.n 0.0
  let rho := if south then -rho else rho
  let x := if south then -x else x
  let y := if south then -y else y
  let ts0 := Scalar.pow (rho / k.c) (1.0 / k.n)
  let lat := Ancillary.phi2 ts0 k.e
  if Scalar.isInfinite lat || Scalar.isNaN lat then none else
  let lon := Scalar.atan2 x y / k.n + k.lon0
  some (lon, lat)

/-- the loops: a failing tuple becomes `Coor4D::nan()` and is not counted; a successful one has
its first two elements replaced (`set_xy`) -/
def sem (p : Parsed R) (dir : Dir) (data : List (Coor R)) : List (Coor R) × Nat :=
  match consts p with
  | none => (data, 0)
  | some k =>
    let f : R → R → Option (R × R) := match dir with
      | .fwd => fwd k
      | .inv => inv k
    let out := data.map fun c =>
      match f c.c0 c.c1 with
      | some r => (({ c with c0 := r.1, c1 := r.2 } : Coor R), 1)
      | none => (Coor.splat Scalar.nan, 0)
    (out.map (·.1), (out.map (·.2)).foldl (· + ·) 0)

end Lcc
end Ops
end Geodesy
