/-
Model of `src/inner_op/tmerc.rs`: the Engsager & Poder transverse mercator (`tmerc`) and its
UTM front end (`utm`).  Both constructors run `precompute`, which stores `scaled_radius` and
`zb` among the real parameters (as the code does); the two Fourier series (`conformal`, `tm`)
the code keeps in `params.fourier_coefficients` are recomputed from the ellipsoid by `sem`
(same functions, same arguments, hence the same values).
-/
import Geodesy.Model.Ops.Basic
import Geodesy.Model.Ops.Merc
import Geodesy.Model.Num.Ellipsoid
import Geodesy.Model.Num.Angular

namespace Geodesy
open Text
namespace Ops
namespace Tmerc

variable {R : Type} [Scalar R]

def gamut : List OpParameter := Gen.gamut_tmerc_GAMUT
def utmGamut : List OpParameter := Gen.gamut_tmerc_UTM_GAMUT

/-- `fourier_coefficients(n, &TRANSVERSE_MERCATOR)` (`etc` stays `[0, 0]`) -/
def tmCoefficients (ellps : Ellipsoid R) : Series.Fourier R :=
  Series.fourierCoefficients ellps.thirdFlattening Gen.polyTmercFwd Gen.polyTmercInv

/-- `precompute`: the scaled radius `qs` and the northing offset `zb` -/
def precompute (p : Parsed R) : Parsed R :=
  let ellps := p.ellps 0
  let lat0 := Scalar.toRadians (Parsed.lat p 0)
  let y0 := Parsed.y p 0
  let qs := Parsed.k p 0 * ellps.a * ellps.normalizedMeridianArcUnit
  let p := p.setReal (S "scaled_radius") qs
  let conformal := ellps.conformalCoefficients
  let tm := tmCoefficients ellps
  let z := Ellipsoid.latitudeFwdSeries lat0 conformal
  let zb := y0 - qs * (z + Series.sin (2.0 * z) tm.fwd)
  p.setReal (S "zb") zb

/-- `tmerc::new` -/
def new (R : Type) [Scalar R] (ce : CtorEnv) (raw : RawParameters) : Except Err (Node R) :=
  match plain (R := R) ce "tmerc" true gamut raw with
  | .error e => .error e
  | .ok n => .ok { n with params := precompute n.params }

/-- `tmerc::utm`: `ParsedParameters::new` (not `Op::plain`), the zone check, the UTM constants -/
def utmNew (R : Type) [Scalar R] (ce : CtorEnv) (raw : RawParameters) : Except Err (Node R) :=
  match Parsed.new (R := R) ce.ellpsKnown raw utmGamut with
  | .error e => .error e
  | .ok p =>
    match p.natural? (S "zone") with
    | none => .error .missingParam
    | some zone =>
      if !(1 ≤ zone && zone < 61) then .error .general else
      let p := p.setReal (S "k_0") 0.9996
      let p := p.setReal (S "lon_0") (-183.0 + 6.0 * Scalar.ofInt (zone : Int))
      let p := p.setReal (S "lat_0") 0.0
      let p := p.setReal (S "x_0") 500000.0
      let p := p.setReal (S "y_0") 0.0
      let p := if p.flagSet (S "south") then p.setReal (S "y_0") 10000000.0 else p
      .ok { tag := S "tmerc", definition := raw.definition, invertible := true, params := precompute p }

/-- what `fwd` / `inv` fetch from the parameters before the loop -/
structure Pre (R : Type) where
  ellps : Ellipsoid R
  lon0 : R
  x0 : R
  conformal : Series.Fourier R
  tm : Series.Fourier R
  qs : R
  zb : R

/-- `None` where the code returns 0 without touching the operands (a stored value is missing) -/
def pre (p : Parsed R) : Option (Pre R) :=
  let ellps := p.ellps 0
  match p.real? (S "scaled_radius"), p.real? (S "zb") with
  | some qs, some zb =>
    some { ellps, lon0 := Scalar.toRadians (Parsed.lon p 0), x0 := Parsed.x p 0,
           conformal := ellps.conformalCoefficients, tm := tmCoefficients ellps, qs, zb }
  | _, _ => none

/-- the limit on the normalized easting -/
def limit : R := 2.623395162778

/-- one tuple, forward: `none` = `set_xy(i, NaN, NaN)`, not counted -/
def fwd (q : Pre R) (lon lat : R) : Option (R × R) :=
  -- 1. geographical -> conformal latitude, rotated longitude
  let lat := Ellipsoid.latitudeFwdSeries lat q.conformal
  let lon := lon - q.lon0
  -- 2. conformal lat, lon -> complex spherical lat
  let sinLat := Scalar.sin lat
  let cosLat := Scalar.cos lat
  let sinLon := Scalar.sin lon
  let cosLon := Scalar.cos lon
  let cosLatLon := cosLat * cosLon
  let lat := Scalar.atan2 sinLat cosLatLon
  -- 3. complex spherical N, E -> ellipsoidal normalized N, E
  let invDenomTanLon := Scalar.recip (Scalar.hypot sinLat cosLatLon)
  let tanLon := sinLon * cosLat * invDenomTanLon
  let lon := Scalar.asinh tanLon
  let twoInvDenomTanLon := 2.0 * invDenomTanLon
  let twoInvDenomTanLonSquare := twoInvDenomTanLon * invDenomTanLon
  let tmpR := cosLatLon * twoInvDenomTanLonSquare
  let trig0 := sinLat * tmpR
  let trig1 := cosLatLon * tmpR - 1.0
  let hyp0 := tanLon * twoInvDenomTanLon
  let hyp1 := twoInvDenomTanLonSquare - 1.0
  let dc := Series.complexSinTrig trig0 trig1 hyp0 hyp1 q.tm.fwd
  let lat := lat + dc.1
  let lon := lon + dc.2
  if Scalar.gt (Scalar.abs lon) limit then none else
  -- 4. ellipsoidal normalized N, E -> metric N, E
  let easting := q.qs * lon + q.x0
  let northing := q.qs * lat + q.zb
  some (easting, northing)

/-- one tuple, inverse -/
def inv (q : Pre R) (x y : R) : Option (R × R) :=
  -- 1. normalize N, E
  let lon := (x - q.x0) / q.qs
  let lat := (y - q.zb) / q.qs
  if Scalar.gt (Scalar.abs lon) limit then none else
  -- 2. normalized N, E -> complex spherical lat, lon
  let dc := Series.complexSin (2.0 * lat) (2.0 * lon) q.tm.inv
  let lat := lat + dc.1
  let lon := lon + dc.2
  let lon := Ancillary.gudermannianFwd lon
  -- 3. complex spherical lat -> Gaussian lat, lon
  let sinLat := Scalar.sin lat
  let cosLat := Scalar.cos lat
  let sinLon := Scalar.sin lon
  let cosLon := Scalar.cos lon
  let cosLatLon := cosLat * cosLon
  let lon := Scalar.atan2 sinLon cosLatLon
  let lat := Scalar.atan2 (sinLat * cosLon) (Scalar.hypot sinLon cosLatLon)
  -- 4. Gaussian lat, lon -> ellipsoidal lat, lon
  let lon := Angular.normalizeSymmetric (lon + q.lon0)
  let lat := Ellipsoid.latitudeInvSeries lat q.conformal
  some (lon, lat)

/-- the loop shared by both directions: a failed tuple gets NaN in its first two elements
(`set_xy`), keeps the other two, and is not counted -/
def loop (f : R → R → Option (R × R)) (data : List (Coor R)) : List (Coor R) × Nat :=
  data.foldr (fun c acc =>
    match f c.c0 c.c1 with
    | some r => ({ c with c0 := r.1, c1 := r.2 } :: acc.1, acc.2 + 1)
    | none => ({ c with c0 := Scalar.nan, c1 := Scalar.nan } :: acc.1, acc.2)) ([], 0)

def sem (p : Parsed R) (dir : Dir) (data : List (Coor R)) : List (Coor R) × Nat :=
  match pre p with
  | none => (data, 0)    -- unreachable: both constructors run `precompute`
  | some q =>
    match dir with
    | .fwd => loop (fwd q) data
    | .inv => loop (inv q) data

end Tmerc
end Ops
end Geodesy
