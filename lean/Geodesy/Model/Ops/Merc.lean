/-
Model of `src/inner_op/merc.rs` and `src/inner_op/webmerc.rs`.
-/
import Geodesy.Model.Ops.Basic
import Geodesy.Model.Num.Ellipsoid

namespace Geodesy
open Text
namespace Ops

variable {R : Type} [Scalar R]

/-- `ParsedParameters::{k, x, y, lat, lon}(index)` -/
def Parsed.k (p : Parsed R) (i : Nat) : R := (p.real? (S ("k_" ++ toString i))).getD 1.0
def Parsed.x (p : Parsed R) (i : Nat) : R := (p.real? (S ("x_" ++ toString i))).getD 0.0
def Parsed.y (p : Parsed R) (i : Nat) : R := (p.real? (S ("y_" ++ toString i))).getD 0.0
def Parsed.lat (p : Parsed R) (i : Nat) : R := (p.real? (S ("lat_" ++ toString i))).getD 0.0
def Parsed.lon (p : Parsed R) (i : Nat) : R := (p.real? (S ("lon_" ++ toString i))).getD 0.0

/-- a per-tuple operator on the first two elements that cannot fail: `xy(i)` … `set_xy(i, …)` -/
def mapXY (f : R → R → R × R) (data : List (Coor R)) : List (Coor R) × Nat :=
  (data.map fun c => let r := f c.c0 c.c1; { c with c0 := r.1, c1 := r.2 }, data.length)

namespace Merc

def gamut : List OpParameter := Gen.gamut_merc_GAMUT

/-- `merc::new`: `lat_ts` trumps `k_0` -/
def new (R : Type) [Scalar R] (ce : CtorEnv) (raw : RawParameters) : Except Err (Node R) :=
  match plain (R := R) ce "merc" true gamut raw with
  | .error e => .error e
  | .ok n =>
    let p := n.params
    let ellps := p.ellps 0
    let latTs : R := (p.real? (S "lat_ts")).getD 0.0
    if Scalar.gt (Scalar.abs latTs) 90.0 then .error .general else
    let p := if Scalar.ne latTs 0.0 then
        let s := Scalar.sin (Scalar.toRadians latTs)
        let c := Scalar.cos (Scalar.toRadians latTs)
        p.setReal (S "k_0") (c / Scalar.sqrt (1.0 - ellps.eccentricitySquared * s * s))
      else p
    .ok { n with params := p }

def fwd (p : Parsed R) (lon lat : R) : R × R :=
  let ellps := p.ellps 0
  let a := ellps.a
  let k0 := Parsed.k p 0
  let lon0 := Scalar.toRadians (Parsed.lon p 0)
  let isometric0 := ellps.latitudeGeographicToIsometric (Scalar.toRadians (Parsed.lat p 0))
  let easting := (lon - lon0) * k0 * a + Parsed.x p 0
  let isometric := ellps.latitudeGeographicToIsometric lat - isometric0
  (easting, a * k0 * isometric + Parsed.y p 0)

def inv (p : Parsed R) (x y : R) : R × R :=
  let ellps := p.ellps 0
  let a := ellps.a
  let k0 := Parsed.k p 0
  let lon0 := Scalar.toRadians (Parsed.lon p 0)
  let isometric0 := ellps.latitudeGeographicToIsometric (Scalar.toRadians (Parsed.lat p 0))
  let x := x - Parsed.x p 0
  let lon := x / (a * k0) + lon0
  let y := y - Parsed.y p 0
  let psi := y / (a * k0) + isometric0
  (lon, ellps.latitudeIsometricToGeographic psi)

def sem (p : Parsed R) (dir : Dir) (data : List (Coor R)) : List (Coor R) × Nat :=
  match dir with
  | .fwd => mapXY (fwd p) data
  | .inv => mapXY (inv p) data

end Merc

namespace Webmerc

def gamut : List OpParameter := Gen.gamut_webmerc_GAMUT

def new (R : Type) [Scalar R] (ce : CtorEnv) : Ctor R := plain ce "webmerc" true gamut

def fracPi4 : R := Scalar.pi / 4.0

def fwd (p : Parsed R) (lon lat : R) : R × R :=
  let a := (p.ellps 0).a
  (lon * a, a * Scalar.ln (Scalar.tan (fracPi4 + lat / 2.0)))

def inv (p : Parsed R) (easting northing : R) : R × R :=
  let a := (p.ellps 0).a
  (easting / a, Ellipsoid.fracPi2 - 2.0 * Scalar.atan (Scalar.exp (-northing / a)))

def sem (p : Parsed R) (dir : Dir) (data : List (Coor R)) : List (Coor R) × Nat :=
  match dir with
  | .fwd => mapXY (fwd p) data
  | .inv => mapXY (inv p) data

end Webmerc

end Ops
end Geodesy
