/-
Model of `src/inner_op/laea.rs`: Lambert azimuthal equal area (EPSG method 9820).

The constructor classifies the aspect (flags `north_polar` / `south_polar` / `equatorial` /
`oblique`) and stores `xi_0`, `q0`, `qp`, `rq`, `d`; the authalic Fourier coefficients the code
stores under `"authalic"` are recomputed from the ellipsoid by `inv` (same value).

Ported as written, including (see the report that goes with this port)
* `north = polar && t > 0` with `t = |lat_0|`: the south polar aspect is never selected,
* the equatorial aspect uses `b = 1`, `d = 1/rq` in the forward direction,
* the polar inverse feeds `∓(1 - ρ²/denom)` (a sine) to `latitude_authalic_to_geographic`
  without taking the arc sine.
-/
import Geodesy.Model.Ops.Merc

namespace Geodesy
open Text
namespace Ops

variable {R : Type} [Scalar R]

/-- a per-tuple operator on the first two elements that may fail: a failing tuple gets
`set_xy(i, NAN, NAN)` (third and fourth element stay) and is not counted -/
def mapXYOpt (f : R → R → Option (R × R)) (data : List (Coor R)) : List (Coor R) × Nat :=
  let out : List (Coor R × Bool) := data.map fun c =>
    match f c.c0 c.c1 with
    | some r => ({ c with c0 := r.1, c1 := r.2 }, true)
    | none => ({ c with c0 := Scalar.nan, c1 := Scalar.nan }, false)
  (out.map (·.1), (out.filter (·.2)).length)

namespace Laea

def gamut : List OpParameter := Gen.gamut_laea_GAMUT

/-- `EPS10` -/
def eps10 : R := 1e-10

/-- `laea::new` -/
def new (R : Type) [Scalar R] (ce : CtorEnv) (raw : RawParameters) : Except Err (Node R) :=
  match plain (R := R) ce "laea" true gamut raw with
  | .error e => .error e
  | .ok n =>
    let p := n.params
    let lat0 : R := Scalar.toRadians ((p.real? (S "lat_0")).getD 0.0)
    if Scalar.isNaN lat0 then .error .badParam else
    let t := Scalar.abs lat0
    if Scalar.gt t (Ellipsoid.fracPi2 + eps10) then .error .badParam else
    let polar := Scalar.lt (Scalar.abs (t - Ellipsoid.fracPi2)) (eps10 : R)
    let north := polar && Scalar.gt lat0 0.0
    let equatorial := !polar && Scalar.lt t eps10
    let oblique := !polar && !equatorial
    let p :=
      if polar && north then p.setFlag (S "north_polar")
      else if polar then p.setFlag (S "south_polar")
      else if equatorial then p.setFlag (S "equatorial")
      else p.setFlag (S "oblique")
    -- latitude invariant factors
    let ellps := p.ellps 0
    let a := ellps.a
    let es := ellps.eccentricitySquared
    let e := Scalar.sqrt es
    let sinPhi0 := Scalar.sin lat0
    let cosPhi0 := Scalar.cos lat0
    let q0 := Ancillary.qs sinPhi0 e
    let qp := Ancillary.qs 1.0 e
    let xi0 := Scalar.asin (q0 / qp)
    let rq := a * Scalar.sqrt (0.5 * qp)
    let d :=
      if oblique || equatorial then
        a * (cosPhi0 / Scalar.sqrt (1.0 - es * sinPhi0 * sinPhi0)) / (rq * Scalar.cos xi0)
      else a
    let p := p.setReal (S "xi_0") xi0
    let p := p.setReal (S "q0") q0
    let p := p.setReal (S "qp") qp
    let p := p.setReal (S "rq") rq
    let p := p.setReal (S "d") d
    .ok { n with params := p }

/-- what `fwd` and `inv` read back from `op.params`; `none` is the `return 0` of a missing value
(cannot happen after `new`) -/
structure Stored (R : Type) where
  xi0 : R
  qp : R
  rq : R
  d : R

def stored (p : Parsed R) : Option (Stored R) :=
  match p.real? (S "xi_0"), p.real? (S "qp"), p.real? (S "rq"), p.real? (S "d") with
  | some xi0, some qp, some rq, some d => some ⟨xi0, qp, rq, d⟩
  | _, _, _, _ => none

/-- one tuple of `fwd` -/
def fwd (p : Parsed R) (s : Stored R) (lon lat : R) : R × R :=
  let xi0 := s.xi0
  let qp := s.qp
  let rq := s.rq
  let d := s.d
  let oblique := p.flagSet (S "oblique")
  let northPolar := p.flagSet (S "north_polar")
  let southPolar := p.flagSet (S "south_polar")
  let lon0 := Scalar.toRadians ((p.real? (S "lon_0")).getD 0.0)
  let x0 : R := (p.real? (S "x_0")).getD 0.0
  let y0 : R := (p.real? (S "y_0")).getD 0.0
  let ellps := p.ellps 0
  let e := ellps.eccentricity
  let a := ellps.a
  let sinXi0 := Scalar.sin xi0
  let cosXi0 := Scalar.cos xi0
  if northPolar || southPolar then
    let sign : R := if northPolar then -1.0 else 1.0
    let sinLon := Scalar.sin (lon - lon0)
    let cosLon := Scalar.cos (lon - lon0)
    -- `qs` is odd: evaluated on the hemisphere of the aspect, `q` equals `qp` exactly at the pole;
    -- next to the pole `qp - q` is zero up to roundoff, which may come out negative
    let q := Ancillary.qs (-sign * Scalar.sin lat) e
    let d := qp - q
    let rho := a * Scalar.sqrt (if Scalar.lt d 0.0 then 0.0 else d)
    (x0 + rho * sinLon, y0 + sign * rho * cosLon)
  else
    let sinLon := Scalar.sin (lon - lon0)
    let cosLon := Scalar.cos (lon - lon0)
    let xi := Scalar.asin (Ancillary.qs (Scalar.sin lat) e / qp)
    let sinXi := Scalar.sin xi
    let cosXi := Scalar.cos xi
    let factor := 1.0 + sinXi0 * sinXi + (cosXi0 * cosXi * cosLon)
    let b : R := rq * Scalar.sqrt (2.0 / factor)
    (x0 + (b * d) * (cosXi * sinLon),
     y0 + (b / d) * (cosXi0 * sinXi - sinXi0 * cosXi * cosLon))

/-- one tuple of `inv`; `none`: outside the domain (`set_xy(i, NAN, NAN)`, not counted) -/
def inv (p : Parsed R) (s : Stored R) (authalic : Series.Fourier R) (x y : R) : Option (R × R) :=
  let xi0 := s.xi0
  let rq := s.rq
  let d := s.d
  let northPolar := p.flagSet (S "north_polar")
  let southPolar := p.flagSet (S "south_polar")
  let lon0 := Scalar.toRadians ((p.real? (S "lon_0")).getD 0.0)
  let lat0 := Scalar.toRadians ((p.real? (S "lat_0")).getD 0.0)
  let x0 : R := (p.real? (S "x_0")).getD 0.0
  let y0 : R := (p.real? (S "y_0")).getD 0.0
  let ellps := p.ellps 0
  let a := ellps.a
  let es := ellps.eccentricitySquared
  let e := Scalar.sqrt es
  let sinXi0 := Scalar.sin xi0
  let cosXi0 := Scalar.cos xi0
  if northPolar || southPolar then
    let sign : R := if northPolar then -1.0 else 1.0
    let rho := Scalar.hypot (x - x0) (y - y0)
    let denom := a * a * s.qp
    let sinXi := (-sign) * (1.0 - rho * rho / denom)
    -- outside the disc: flagged and not counted, as in the other aspects
    if Scalar.gt (Scalar.abs sinXi) 1.0 then none else
    let xi := Scalar.asin sinXi
    let lon := lon0 + Scalar.atan2 (x - x0) (sign * (y - y0))
    let lat := Ellipsoid.latitudeInvSeries xi authalic
    some (lon, lat)
  else
    let rho := Scalar.hypot ((x - x0) / d) (d * (y - y0))
    if Scalar.lt rho eps10 then some (lon0, lat0) else
    let asinArgument := 0.5 * rho / rq
    if Scalar.gt (Scalar.abs asinArgument) 1.0 then none else
    let c := 2.0 * Scalar.asin asinArgument
    let sinC := Scalar.sin c
    let cosC := Scalar.cos c
    let xi := Scalar.asin (cosC * sinXi0 + (d * (y - y0) * sinC * cosXi0) / rho)
    let lat := Ellipsoid.latitudeInvSeries xi authalic
    let num := (x - x0) * sinC
    let denom := d * rho * cosXi0 * cosC - d * d * (y - y0) * sinXi0 * sinC
    let lon := Scalar.atan2 num denom + lon0
    some (lon, lat)

def sem (p : Parsed R) (dir : Dir) (data : List (Coor R)) : List (Coor R) × Nat :=
  match stored p with
  | none => (data, 0)
  | some s =>
    match dir with
    | .fwd =>
      -- a result with NaN in it is stomped (`set_xy(i, NAN, NAN)`) and not counted
      mapXYOpt (fun lon lat =>
        let r := fwd p s lon lat
        if Scalar.isNaN r.1 || Scalar.isNaN r.2 then none else some r) data
    | .inv => mapXYOpt (inv p s (p.ellps 0).authalicCoefficients) data

end Laea

end Ops
end Geodesy
