/-
Model of the ellipsoid foundation that the projections and conversions are built on:
`src/ellipsoid/mod.rs` (`EllipsoidBase`), `biaxial.rs` (`Ellipsoid::named`), `meridians.rs`,
`latitudes.rs`, `src/math/ancillary.rs` and `src/math/series.rs`.

Everything is written against `Scalar R`, so the same text runs on binary64 in the driver and
reads as real arithmetic in the theorems.  `f64::mul_add` is modelled unfused (one rounding
more than the code; the correspondence check compares to a relative tolerance).
The coefficient tables come from the source through `tools/translate.py` (`Gen/Tables.lean`).
-/
import Geodesy.Model.Params
import Geodesy.Model.Coor
import Geodesy.Gen.Tables

namespace Geodesy
open Text

variable {R : Type} [Scalar R]

/-- a coefficient `p/q` as the compiler evaluates it -/
def ratio (c : Lit × Lit) : R := Scalar.ofLit c.1 / Scalar.ofLit c.2

structure Ellipsoid (R : Type) where
  a : R
  f : R
  deriving Inhabited

/-! ### series (`src/math/series.rs`) -/

namespace Series

/-- `taylor::horner`: coefficients from the constant term upwards -/
def horner (arg : R) (coefficients : List R) : R :=
  match coefficients.reverse with
  | [] => 0
  | c :: rest => rest.foldl (fun value c => Scalar.mulAdd value arg c) c

structure Fourier (R : Type) where
  fwd : List R
  inv : List R
  etc0 : R
  etc1 : R
  deriving Inhabited

/-- `taylor::fourier_coefficients` -/
def fourierCoefficients (arg : R) (fwd inv : List (List (Lit × Lit))) : Fourier R :=
  { fwd := fwd.map fun row => arg * horner arg (row.map ratio)
    inv := inv.map fun row => arg * horner arg (row.map ratio)
    etc0 := 0, etc1 := 0 }

/-- the Clenshaw recurrence shared by `fourier::sin` and `fourier::cos`: `(c0, c1)` -/
def clenshaw (x : R) (coefficients : List R) : R × R :=
  coefficients.reverse.foldl (fun (s : R × R) c => (Scalar.mulAdd x s.1 (c - s.2), s.1)) (0, 0)

/-- `fourier::sin` -/
def sin (arg : R) (coefficients : List R) : R :=
  let s := clenshaw (2.0 * Scalar.cos arg) coefficients
  Scalar.sin arg * s.1

/-- `fourier::cos` -/
def cos (arg : R) (coefficients : List R) : R :=
  let c := Scalar.cos arg
  let s := clenshaw (2.0 * c) coefficients
  c * s.1 - s.2

/-- `fourier::sin_optimized_for_tmerc` -/
def sinTrig (sinArg cosArg : R) (coefficients : List R) : R :=
  let s := clenshaw (2.0 * cosArg) coefficients
  sinArg * s.1

structure CState (R : Type) where
  hr2 : R
  hr1 : R
  hr : R
  hi2 : R
  hi1 : R
  hi : R

/-- `fourier::complex_sin_optimized_for_tmerc` (and `complex_sin` after taking the functions) -/
def complexSinTrig (sinR cosR sinhI coshI : R) (coefficients : List R) : R × R :=
  let r := 2.0 * cosR * coshI
  let i := -2.0 * sinR * sinhI
  match coefficients.reverse with
  | [] => (0, 0)
  | c :: rest =>
    let st := rest.foldl (fun (s : CState R) c =>
        let hr2 := s.hr1; let hi2 := s.hi1; let hr1 := s.hr; let hi1 := s.hi
        { hr2, hi2, hr1, hi1,
          hr := -hr2 + r * hr1 - i * hi1 + c,
          hi := -hi2 + i * hr1 + r * hi1 })
      ({ hr2 := 0, hr1 := 0, hr := c, hi2 := 0, hi1 := 0, hi := 0 } : CState R)
    let r := sinR * coshI
    let i := cosR * sinhI
    (r * st.hr - i * st.hi, r * st.hi + i * st.hr)

/-- `fourier::complex_sin` -/
def complexSin (argR argI : R) (coefficients : List R) : R × R :=
  complexSinTrig (Scalar.sin argR) (Scalar.cos argR) (Scalar.sinh argI) (Scalar.cosh argI) coefficients

end Series

/-! ### ancillary functions (`src/math/ancillary.rs`) -/

namespace Ancillary

def gudermannianFwd (arg : R) : R := Scalar.atan (Scalar.sinh arg)
def gudermannianInv (arg : R) : R := Scalar.asinh (Scalar.tan arg)

/-- `ts((sin φ, cos φ), e)` -/
def ts (s c e : R) : R :=
  let factor := if Scalar.gt s 0 then c / (1.0 + s) else (1.0 - s) / c
  Scalar.exp (e * Scalar.atanh (e * s)) * factor

/-- `pj_msfn` -/
def msfn (s c es : R) : R := c / Scalar.sqrt (1.0 - s * s * es)

/-- `f64::EPSILON` -/
def epsilon : R := Scalar.ofLit (.fin false 2220446049250313080847263336181640625 (-52))

structure NewtonState (R : Type) where
  tau : R
  done : Option R := none

/-- `sinhpsi_to_tanphi`: Newton's method, at most five rounds, NaN when not converged -/
def sinhpsiToTanphi (taup e : R) : R :=
  let rooteps : R := Scalar.sqrt epsilon
  let tol := rooteps / 10.0
  let tmax := 2.0 / rooteps
  let e2m := 1.0 - e * e
  let stol := tol * Scalar.max (Scalar.abs taup) 1.0
  let tau0 := if Scalar.gt (Scalar.abs taup) 70.0 then taup * Scalar.exp (e * Scalar.atanh e) else taup / e2m
  if Scalar.ge (Scalar.abs tau0) tmax || Scalar.isNaN tau0 then tau0 else
  let step (s : NewtonState R) : NewtonState R :=
    match s.done with
    | some _ => s
    | none =>
      let tau := s.tau
      let tau1 := Scalar.sqrt (1.0 + tau * tau)
      let sig := Scalar.sinh (e * Scalar.atanh (e * tau / tau1))
      let taupa := Scalar.sqrt (1.0 + sig * sig) * tau - sig * tau1
      let dtau := (taup - taupa) * (1.0 + e2m * (tau * tau)) / (e2m * tau1 * Scalar.sqrt (1.0 + taupa * taupa))
      let tau := tau + dtau
      if Scalar.lt (Scalar.abs dtau) stol || Scalar.isNaN tau then { tau, done := some tau } else { tau }
  let s := (List.range 5).foldl (fun s _ => step s) ({ tau := tau0 } : NewtonState R)
  match s.done with
  | some t => t
  | none => Scalar.nan

/-- `pj_phi2` -/
def phi2 (ts0 e : R) : R := Scalar.atan (sinhpsiToTanphi ((1.0 / ts0 - ts0) / 2.0) e)

/-- `qs` -/
def qs (sinphi e : R) : R :=
  let es := e * e
  let oneEs := 1.0 - es
  if Scalar.lt e (Scalar.ofLit (.fin false 1 (-7))) then 2.0 * sinphi else
  let con := e * sinphi
  let div1 := 1.0 - con * con
  let div2 := 1.0 + con
  oneEs * (sinphi / div1 - (0.5 / e) * Scalar.ln ((1.0 - con) / div2))

end Ancillary

/-! ### `EllipsoidBase`, `Meridians`, `Latitudes` -/

namespace Ellipsoid

/-- `Ellipsoid::named`: the built-in table, then the `(a, rf)` form -/
def named (name : Str) : Option (Ellipsoid R) :=
  match Gen.ellipsoidList.find? fun e => e.1.toList == name with
  | some e =>
    match Lit.parseF64 e.2.1.toList, Lit.parseF64 e.2.2.2.toList with
    | some ax, some rf =>
      let rf : R := Scalar.ofLit rf
      some ⟨Scalar.ofLit ax, if Scalar.ne rf 0 then 1.0 / rf else rf⟩
    | _, _ => none    -- unreachable: the table holds numbers (the code would panic)
  | none =>
    let n := if name.head? == some '(' && name.getLast? == some ')' then (name.drop 1).dropLast else name
    match splitOn ',' n with
    | [a, rf] =>
      match Lit.parseF64 (trim a), Lit.parseF64 (trim rf) with
      | some a, some rf => some ⟨Scalar.ofLit a, 1.0 / Scalar.ofLit rf⟩
      | _, _ => none
    | _ => none

/-- `Ellipsoid::default()`: GRS80 -/
def default : Ellipsoid R := ⟨6378137.0, 1.0 / Scalar.ofLit (.fin false 2982572221008827 (-13))⟩

variable (el : Ellipsoid R)

def semiminorAxis : R := el.a * (1.0 - el.f)
def secondFlattening : R := let b := el.semiminorAxis; (el.a - b) / b
def thirdFlattening : R := el.f / (2.0 - el.f)
def aspectRatio : R := Scalar.recip (1.0 - el.f)
def eccentricitySquared : R := el.f * (2.0 - el.f)
def eccentricity : R := Scalar.sqrt el.eccentricitySquared
def secondEccentricitySquared : R := let es := el.eccentricitySquared; es / (1.0 - es)
def secondEccentricity : R := Scalar.sqrt el.secondEccentricitySquared

def linearEccentricity : R :=
  let a := el.a
  let b := el.semiminorAxis
  let le := a * a - b * b
  if Scalar.gt a b then Scalar.sqrt le else -(Scalar.sqrt (-le))

def primeVerticalRadiusOfCurvature (latitude : R) : R :=
  if Scalar.beq el.f 0 then el.a else
  el.a / Scalar.sqrt (1.0 - Scalar.sq (Scalar.sin latitude) * el.eccentricitySquared)

def meridianRadiusOfCurvature (latitude : R) : R :=
  if Scalar.beq el.f 0 then el.a else
  let num := el.a * (1.0 - el.eccentricitySquared)
  let denom := Scalar.pow (1.0 - Scalar.sq (Scalar.sin latitude) * el.eccentricitySquared) 1.5
  num / denom

def polarRadiusOfCurvature : R := el.a * el.a / el.semiminorAxis

/-! meridians -/

def meridianArcCoefficients : List R := Gen.meridianArcCoefficients.map ratio

def normalizedMeridianArcUnit : R :=
  let n := el.thirdFlattening
  Series.horner (n * n) meridianArcCoefficients / (1.0 + n)

def rectifyingRadius : R :=
  let n := el.thirdFlattening
  el.a / (1.0 + n) * Series.horner (n * n) meridianArcCoefficients

def rectifyingRadiusBowring : R :=
  let n := el.thirdFlattening
  let m := 1.0 + n * n / 8.0
  el.a * m * m / (1.0 + n)

def fracPi2 : R := Scalar.pi / 2.0

def meridianQuadrant : R := el.a * fracPi2 * el.normalizedMeridianArcUnit

def meridianLatitudeToDistance (latitude : R) : R :=
  let n := el.thirdFlattening
  let A := el.rectifyingRadius
  let B := 9.0 * (1.0 - 3.0 * n * n / 8.0)
  let s := Scalar.sin (2.0 * latitude)
  let c := Scalar.cos (2.0 * latitude)
  let x := 1.0 + 13.0 / 12.0 * n * c
  let y := 0.0 + 13.0 / 12.0 * n * s
  let r := Scalar.hypot y x
  let v := Scalar.atan2 y x
  let theta := latitude - B * Scalar.pow r (-2.0 / 13.0) * Scalar.sin (2.0 * v / 13.0)
  A * theta

def meridianDistanceToLatitude (distance : R) : R :=
  let n := el.thirdFlattening
  let A := el.rectifyingRadius
  let theta := distance / A
  let s := Scalar.sin (2.0 * theta)
  let c := Scalar.cos (2.0 * theta)
  let x := 1.0 - 155.0 / 84.0 * n * c
  let y := 0.0 + 155.0 / 84.0 * n * s
  let r := Scalar.hypot y x
  let v := Scalar.atan2 y x
  let C := 1.0 - 9.0 * n * n / 16.0
  theta + 63.0 / 4.0 * C * Scalar.pow r (8.0 / 155.0) * Scalar.sin (8.0 / 155.0 * v)

/-! latitudes -/

def latitudeGeographicToGeocentric (geographic : R) : R :=
  let f := el.f
  Scalar.atan ((1.0 - f * (2.0 - f)) * Scalar.tan geographic)

def latitudeGeocentricToGeographic (geocentric : R) : R :=
  Scalar.atan (Scalar.tan geocentric / (1.0 - el.eccentricitySquared))

def latitudeGeographicToReduced (geographic : R) : R :=
  Scalar.atan2 (Scalar.tan geographic) (1.0 / (1.0 - el.f))

def latitudeReducedToGeographic (reduced : R) : R :=
  Scalar.atan2 (Scalar.tan reduced) (1.0 - el.f)

def latitudeGeographicToIsometric (geographic : R) : R :=
  let e := el.eccentricity
  Ancillary.gudermannianInv geographic - Scalar.atanh (e * Scalar.sin geographic) * e

def latitudeIsometricToGeographic (isometric : R) : R :=
  Scalar.atan (Ancillary.sinhpsiToTanphi (Scalar.sinh isometric) el.eccentricity)

/-- `latitude_fourier_coefficients` -/
def latitudeFourierCoefficients (fwd inv : List (List (Lit × Lit))) : Series.Fourier R :=
  { Series.fourierCoefficients el.thirdFlattening fwd inv with etc0 := el.normalizedMeridianArcUnit }

def rectifyingCoefficients : Series.Fourier R := el.latitudeFourierCoefficients Gen.polyRectifyingFwd Gen.polyRectifyingInv
def conformalCoefficients : Series.Fourier R := el.latitudeFourierCoefficients Gen.polyConformalFwd Gen.polyConformalInv
def authalicCoefficients : Series.Fourier R := el.latitudeFourierCoefficients Gen.polyAuthalicFwd Gen.polyAuthalicInv

def latitudeGeographicToRectifying (lat : R) (c : Series.Fourier R) : R :=
  c.etc0 * (lat + Series.sin (2.0 * lat) c.fwd)

def latitudeRectifyingToGeographic (lat : R) (c : Series.Fourier R) : R :=
  let rlat := lat / c.etc0
  rlat + Series.sin (2.0 * rlat) c.inv

/-- geographic → conformal / authalic: `lat + fourier::sin(2 lat, fwd)` -/
def latitudeFwdSeries (lat : R) (c : Series.Fourier R) : R := lat + Series.sin (2.0 * lat) c.fwd
/-- conformal / authalic → geographic -/
def latitudeInvSeries (lat : R) (c : Series.Fourier R) : R := lat + Series.sin (2.0 * lat) c.inv

end Ellipsoid

/-- `ParsedParameters::ellps(index)`: the ellipsoid named by `ellps` / `ellps_<index>`; GRS80 when
the name is absent (the constructors have checked that a given name is known) -/
def Parsed.ellps (p : Parsed R) (index : Nat) : Ellipsoid R :=
  let first := if index == 0 then p.text? (S "ellps") else none
  match first with
  | some name => (Ellipsoid.named name).getD Ellipsoid.default
  | none =>
    match p.text? (S ("ellps_" ++ toString index)) with
    | some name => (Ellipsoid.named name).getD Ellipsoid.default
    | none => Ellipsoid.default

end Geodesy
