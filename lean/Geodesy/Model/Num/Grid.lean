/-
Model of `src/grid/mod.rs` (`BaseGrid::contains`, `BaseGrid::at`, `grids_at`, `BaseGrid::plain`,
the Gravsoft reader) and `src/grid/ntv2/*` (`Ntv2Grid::new`, `find_grid`).
-/
import Geodesy.Model.Params
import Geodesy.Model.Coor

namespace Geodesy
open Text
namespace Grid

variable {R : Type} [Scalar R]

def n (k : Nat) : R := Scalar.ofNatLit k

structure BaseGrid (R : Type) where
  latN : R
  latS : R
  lonW : R
  lonE : R
  dlat : R
  dlon : R
  rows : Nat
  cols : Nat
  bands : Nat
  offset : Nat := 0
  grid : List R
  deriving Inhabited

/-- `x != x.clamp(lo, hi)` is false, i.e. `lo ≤ x ≤ hi` (false for NaN) -/
def within (x lo hi : R) : Bool := Scalar.le lo x && Scalar.le x hi

/-- `BaseGrid::contains` -/
def contains (g : BaseGrid R) (lon lat : R) (margin : R) : Bool :=
  let (mn, mx) := if Scalar.gt g.dlat (n 0) then (g.latN, g.latS) else (g.latS, g.latN)
  let grace := margin * Scalar.abs g.dlat
  if !within lat (mn - grace) (mx + grace) then false else
  let (mn, mx) := if Scalar.lt g.dlon (n 0) then (g.lonE, g.lonW) else (g.lonW, g.lonE)
  let grace := margin * Scalar.abs g.dlon
  within lon (mn - grace) (mx + grace)

/-- `i64::clamp` -/
def clampInt (x lo hi : Int) : Int := if x < lo then lo else if x > hi then hi else x

/-- bilinear interpolation of four corner values in cell-relative coordinates -/
def bilinear (ll lr ul ur rlon rlat : R) : R :=
  let left := (n 1 - rlat) * ll + rlat * ul
  let right := (n 1 - rlat) * lr + rlat * ur
  (n 1 - rlon) * left + rlon * right

/-- the cell used for a point, and its relative coordinates (`row` counts from the first row) -/
structure Cell (R : Type) where
  row : Nat
  col : Nat
  rlon : R
  rlat : R

def cellOf (g : BaseGrid R) (lon lat : R) : Cell R :=
  let dlat := Scalar.abs g.dlat
  let dlon := Scalar.abs g.dlon
  let rlon := lon - g.lonW
  let rlat := g.latN - lat
  let row := Scalar.toI64 (Scalar.ceil (rlat / dlat))
  let col := Scalar.toI64 (Scalar.floor (rlon / dlon))
  let col := (clampInt col 0 ((g.cols : Int) - 2)).toNat
  let row := (clampInt row 1 ((g.rows : Int) - 1)).toNat
  let llLon := g.lonW + Scalar.ofInt col * dlon
  let llLat := g.latN - Scalar.ofInt row * dlat
  ⟨row, col, (lon - llLon) / dlon, (lat - llLat) / dlat⟩

/-- `BaseGrid::at`: up to four bands; `none` outside the grid + margin -/
def atPoint (g : BaseGrid R) (lon lat : R) (margin : R) : Option (Coor R) :=
  if !contains g lon lat margin then none else
  let c := cellOf g lon lat
  let idx (r col : Nat) : Nat := g.offset + g.bands * (g.cols * r + col)
  let ll := idx c.row c.col
  let lr := idx c.row (c.col + 1)
  let ul := idx (c.row - 1) c.col
  let ur := idx (c.row - 1) (c.col + 1)
  let nb := min g.bands 4
  let v (i : Nat) : R :=
    if i < nb then
      bilinear (g.grid.getD (ll + i) (n 0)) (g.grid.getD (lr + i) (n 0)) (g.grid.getD (ul + i) (n 0))
        (g.grid.getD (ur + i) (n 0)) c.rlon c.rlat
    else n 0
  some ⟨v 0, v 1, v 2, v 3⟩

/-- the `Grid` trait objects of the model -/
inductive AnyGrid (R : Type) where
  | base (g : BaseGrid R)
  | ntv2 (subgrids : List (Str × BaseGrid R)) (children : List (Str × List Str))

/-- `grid_dimensions` + `BaseGrid::plain`: validity of a header and the node count -/
def gridDimensions (latN latS lonW lonE h4 h5 : R) : Option (Nat × Nat) :=
  let dlat := Scalar.copysign h4 (latS - latN)
  let dlon := Scalar.copysign h5 (lonE - lonW)
  let rows := Scalar.floor ((latS - latN) / dlat + Scalar.ofLit (.fin false 15 (-1)))
  let cols := Scalar.floor ((lonE - lonW) / dlon + Scalar.ofLit (.fin false 15 (-1)))
  let finite := [latN, latS, lonW, lonE, h4, h5].all Scalar.isFinite
  let inRange (x : R) : Bool := Scalar.le (n 2) x && Scalar.lt x (Scalar.ofLit (.fin false 1 9))
  if !finite || !inRange rows || !inRange cols then none
  else some (Scalar.toUsize rows, Scalar.toUsize cols)

/-- `BaseGrid::plain(header, Some(grid), offset)` -/
def plain (header : List R) (grid : List R) (offset : Nat) : Except Err (BaseGrid R) :=
  if header.length < 7 then .error .general else
  let h (i : Nat) : R := header.getD i (n 0)
  let latN := h 0; let latS := h 1; let lonW := h 2; let lonE := h 3
  let dlat := Scalar.copysign (h 4) (latS - latN)
  let dlon := Scalar.copysign (h 5) (lonE - lonW)
  let bands := Scalar.toUsize (h 6)
  match gridDimensions latN latS lonW lonE (h 4) (h 5) with
  | none => .error .general
  | some (rows, cols) =>
    let elements := rows * cols * bands
    if elements ≥ 2 ^ 64 then .error .general else
    if elements == 0 || (offset == 0 && elements > grid.length) || bands < 1 then .error .general
    else .ok { latN, latS, lonW, lonE, dlat, dlon, rows, cols, bands, offset, grid }

/-! ### the Gravsoft text format -/

/-- `item.parse::<f64>().unwrap_or(NAN)` -/
def parseOrNaN (s : Str) : R :=
  match Lit.parseF64 s with
  | some l => Scalar.ofLit l
  | none => Scalar.nan

/-- (lat, lon) pairs to (lon, lat) -/
def swapPairs {β : Type} : List β → List β
  | a :: b :: rest => b :: a :: swapPairs rest
  | l => l

/-- (n, e, u) triples to (e, n, u) -/
def swapFirstTwoOfThree {β : Type} : List β → List β
  | a :: b :: c :: rest => b :: a :: c :: swapFirstTwoOfThree rest
  | l => l

/-- `normalize_gravsoft_grid_values`: degrees → radians, and per band count the unit / order
conventions of the node values -/
def normalizeGravsoft (header : List R) (grid : List R) : List R × List R :=
  if (header.take 4).any fun h => Scalar.gt (Scalar.abs h) (n 720) then (header, grid) else
  let header := (header.take 6).map Scalar.toRadians ++ header.drop 6
  let bands := match plain header grid 0 with | .ok g => g.bands | .error _ => 0
  if bands == 2 then
    -- seconds of arc in latitude/longitude order: to radians, swapped; all in binary32
    -- all in binary32: `(x / 3600.0).to_radians()` with the f32 constant π/180
    let c32 : R := Scalar.toF32 (Scalar.toF32 Scalar.pi / n 180)
    let conv (x : R) : R := Scalar.toF32 (Scalar.toF32 (x / n 3600) * c32)
    (header, swapPairs (grid.map conv))
  else if bands == 3 then
    let conv (x : R) : R := Scalar.toF32 (x / n 1000)
    (header, swapFirstTwoOfThree (grid.map conv))
  else (header, grid)

/-- `gravsoft_grid_reader` + `BaseGrid::gravsoft` over the text of the file -/
def gravsoft (text : Str) : Except Err (BaseGrid R) :=
  let items : List Str := (lines text).flatMap fun line => splitWs ((splitOn '#' line).headD [])
  let vals : List R := items.map parseOrNaN
  if vals.length < 6 then .error .general else
  let header := vals.take 6
  let grid := (vals.drop 6).map Scalar.toF32
  -- the Gravsoft header has lat_s before lat_n
  let header := [header.getD 1 (n 0), header.getD 0 (n 0)] ++ header.drop 2
  let h (i : Nat) : R := header.getD i (n 0)
  match gridDimensions (h 0) (h 1) (h 2) (h 3) (h 4) (h 5) with
  | none => .error .general
  | some (rows, cols) =>
    let nodes := rows * cols
    if nodes ≥ 2 ^ 64 then .error .general else
    let bands := grid.length / nodes
    if rows * cols * bands > grid.length || bands < 1 then .error .general
    else if rows * cols * bands != grid.length then .error .general
    else if bands > 3 then .error .general
    else
      let header := header ++ [Scalar.ofInt bands]
      let (header, grid) := normalizeGravsoft header grid
      plain header grid 0

/-! ### the bytes of a Gravsoft file -/

def isCont (b : UInt8) : Bool := 0x80 ≤ b && b ≤ 0xBF

def cp2 (a b : UInt8) : Nat := (a.toNat - 0xC0) * 64 + (b.toNat - 0x80)
def cp3 (a b c : UInt8) : Nat := ((a.toNat - 0xE0) * 64 + (b.toNat - 0x80)) * 64 + (c.toNat - 0x80)
def cp4 (a b c d : UInt8) : Nat :=
  (((a.toNat - 0xF0) * 64 + (b.toNat - 0x80)) * 64 + (c.toNat - 0x80)) * 64 + (d.toNat - 0x80)

/-- `std::str::from_utf8`: strict UTF-8 (no overlong forms, no surrogates, nothing above
U+10FFFF); `none` for invalid input.  The fuel is the length of the input. -/
def utf8DecodeAux : Nat → List UInt8 → Option (List Char)
  | _, [] => some []
  | 0, _ :: _ => none
  | fuel + 1, b0 :: rest =>
    if b0 < 0x80 then (utf8DecodeAux fuel rest).map (Char.ofNat b0.toNat :: ·)
    else if 0xC2 ≤ b0 && b0 ≤ 0xDF then
      match rest with
      | b1 :: rest => if isCont b1 then (utf8DecodeAux fuel rest).map (Char.ofNat (cp2 b0 b1) :: ·) else none
      | _ => none
    else if 0xE0 ≤ b0 && b0 ≤ 0xEF then
      match rest with
      | b1 :: b2 :: rest =>
        let ok1 := if b0 == 0xE0 then 0xA0 ≤ b1 && b1 ≤ 0xBF
                   else if b0 == 0xED then 0x80 ≤ b1 && b1 ≤ 0x9F else isCont b1
        if ok1 && isCont b2 then (utf8DecodeAux fuel rest).map (Char.ofNat (cp3 b0 b1 b2) :: ·) else none
      | _ => none
    else if 0xF0 ≤ b0 && b0 ≤ 0xF4 then
      match rest with
      | b1 :: b2 :: b3 :: rest =>
        let ok1 := if b0 == 0xF0 then 0x90 ≤ b1 && b1 ≤ 0xBF
                   else if b0 == 0xF4 then 0x80 ≤ b1 && b1 ≤ 0x8F else isCont b1
        if ok1 && isCont b2 && isCont b3 then (utf8DecodeAux fuel rest).map (Char.ofNat (cp4 b0 b1 b2 b3) :: ·) else none
      | _ => none
    else none

def utf8Decode (b : List UInt8) : Option (List Char) := utf8DecodeAux b.length b

/-- `BaseGrid::gravsoft(buf)`: `BufRead::lines` fails on a line that is not UTF-8 (an I/O error,
raised before any other check) -/
def gravsoftBytes (buf : List UInt8) : Except Err (BaseGrid R) :=
  match utf8Decode buf with
  | none => .error .io
  | some text => gravsoft text

/-! ### lists of grids -/

/-- `grids_at` over already evaluated look-ups: `at g margin` for each grid -/
def gridsAt (ats : List (R → Option (Coor R))) (useNull : Bool) : Option (Coor R) :=
  let pass (m : R) : Option (Coor R) := ats.findSome? fun f => f m
  match pass (n 0) with
  | some d => some d
  | none =>
    match pass (Scalar.ofLit (.fin false 5 (-1))) with
    | some d => some d
    | none => if useNull then some ⟨n 0, n 0, n 0, n 0⟩ else none

/-- a grid as the operators see it (`dyn Grid`): its band count and its look-up function -/
structure GridObj (R : Type) where
  bands : Nat
  look : R → R → R → Option (Coor R)     -- longitude, latitude, margin

/-- the grids a context serves, by name -/
abbrev GridEnv (R : Type) := Str → Option (GridObj R)

/-- `grids_at(grids, coord, use_null_grid)` over grid objects -/
def gridsAtObjs (gs : List (GridObj R)) (lon lat : R) (useNull : Bool) : Option (Coor R) :=
  gridsAt (gs.map fun g => fun m => g.look lon lat m) useNull

end Grid
end Geodesy
