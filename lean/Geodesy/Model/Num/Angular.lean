/-
Model of `src/math/angular.rs`: sexagesimal / ISO-6709 conversions and angle normalisation.
-/
import Geodesy.Model.Scalar

namespace Geodesy
namespace Angular
variable {R : Type} [Scalar R]

def n (k : Nat) : R := Scalar.ofNatLit k

/-- Rust `x as u32` for a non-negative argument as used here: truncation, saturating, NaN ↦ 0 -/
def asU32 (x : R) : Nat := Nat.min (Scalar.toUsize x) 4294967295

/-- `dms_to_dd(d, m, s)` (as repaired: the sign is that of `d`, zero counting as positive) -/
def dmsToDd (d : Int) (m : Nat) (s : R) : R :=
  let sign : R := if d < 0 then -(n 1) else n 1
  sign * (Scalar.ofInt d.natAbs + (Scalar.ofInt m + s / n 60) / n 60)

/-- `dm_to_dd(d, m)` -/
def dmToDd (d : Int) (m : R) : R :=
  let sign : R := if d < 0 then -(n 1) else n 1
  sign * (Scalar.ofInt d.natAbs + m / n 60)

/-- `iso_dm_to_dd` -/
def isoDmToDd (isoDm : R) : R :=
  let sign := Scalar.signum isoDm
  let dm := asU32 (Scalar.abs isoDm)
  let fraction := Scalar.abs isoDm - Scalar.ofInt dm
  let d := dm / 100
  let m : R := Scalar.ofInt (dm - d * 100 : Nat) + fraction
  sign * (Scalar.ofInt d + m / n 60)

/-- `dd_to_iso_dm` -/
def ddToIsoDm (dd : R) : R :=
  let sign := Scalar.signum dd
  let a := Scalar.abs dd
  let d := Scalar.floor a
  let m := (a - d) * n 60
  sign * (d * n 100 + m)

/-- `iso_dms_to_dd` -/
def isoDmsToDd (isoDms : R) : R :=
  let sign := Scalar.signum isoDms
  let dms := asU32 (Scalar.abs isoDms)
  let fraction := Scalar.abs isoDms - Scalar.ofInt dms
  let d := dms / 10000
  let ms := dms - d * 10000
  let m := ms / 100
  let s : R := Scalar.ofInt (ms - m * 100 : Nat) + fraction
  sign * (Scalar.ofInt d + (s / n 60 + Scalar.ofInt m) / n 60)

/-- `dd_to_iso_dms` -/
def ddToIsoDms (dd : R) : R :=
  let sign := Scalar.signum dd
  let a := Scalar.abs dd
  let d := Scalar.floor a
  let mm := (a - d) * n 60
  let m := Scalar.floor mm
  let s := (mm - m) * n 60
  sign * (d * n 10000 + m * n 100 + s)

/-- `normalize_symmetric` -/
def normalizeSymmetric (angle : R) : R :=
  let a := Scalar.fmod (angle + Scalar.pi) (n 2 * Scalar.pi)
  a - Scalar.pi * Scalar.signum a

/-- `normalize_positive` -/
def normalizePositive (angle : R) : R :=
  let a := Scalar.fmod angle (n 2 * Scalar.pi)
  if Scalar.lt a (n 0) then a + n 2 * Scalar.pi else a

end Angular
end Geodesy
