/-
Model of `src/grid/ntv2/*`: the NTv2 binary layout (either byte order, any number of sub-grids
in any order) and the sub-grid look-up `find_grid`.
Every buffer access is explicit: a read past the end of the buffer is `none`, so a missing
bounds check in the code would show up as a disagreement.
-/
import Geodesy.Model.Num.Grid

namespace Geodesy
open Text
namespace Ntv2

variable {R : Type} [Scalar R]

abbrev Bytes := List UInt8

def headerSize : Nat := 176
def nodeSize : Nat := 16

/-- how bit patterns become numbers (`f64::from_bits`, `f32::from_bits as f64`) -/
structure Num (R : Type) where
  f64 : UInt64 → R
  f32 : UInt32 → R

def slice (b : Bytes) (off len : Nat) : Option Bytes :=
  if off + len ≤ b.length then some ((b.drop off).take len) else none

def toNatLE (bs : Bytes) : Nat := bs.foldr (fun x acc => acc * 256 + x.toNat) 0
def toNatBE (bs : Bytes) : Nat := bs.foldl (fun acc x => acc * 256 + x.toNat) 0

structure Parser where
  buf : Bytes
  bigEndian : Bool

def Parser.nat (p : Parser) (off len : Nat) : Option Nat :=
  (slice p.buf off len).map fun bs => if p.bigEndian then toNatBE bs else toNatLE bs

def Parser.getU32 (p : Parser) (off : Nat) : Option Nat := p.nat off 4
def Parser.getF64 (nm : Num R) (p : Parser) (off : Nat) : Option R := (p.nat off 8).map fun v => nm.f64 (UInt64.ofNat v)
def Parser.getF32 (nm : Num R) (p : Parser) (off : Nat) : Option R := (p.nat off 4).map fun v => nm.f32 (UInt32.ofNat v)

/-- `std::str::from_utf8` on a field (invalid UTF-8 in a name field is an error) -/
def Parser.getStr (p : Parser) (off len : Nat) : Option Str :=
  match slice p.buf off len with
  | none => none
  | some bs => Grid.utf8Decode bs

def Parser.cmpStr (p : Parser) (off : Nat) (s : String) : Bool :=
  p.getStr off s.length == some s.toList

/-- Rust `x as u64` of `(|q| + 1).floor()` -/
def countOf (q : R) : Nat := Scalar.toUsize (Scalar.floor (Scalar.abs q + Grid.n 1))

/-- `to_radians() / 3600` -/
def secToRad (x : R) : R := Scalar.toRadians x / Grid.n 3600

/-- one sub-grid: header + nodes; returns name, parent, grid -/
def subgrid (nm : Num R) (p : Parser) (off : Nat) : Except Err (Str × Str × Grid.BaseGrid R) :=
  let f (o : Nat) : R := (p.getF64 nm (off + o)).getD (Grid.n 0)
  let nlat := f 88; let slat := f 72; let wlon := f 120; let elon := f 104
  let dlat := f 136; let dlon := f 152
  let numRows := countOf ((slat - nlat) / dlat)
  let rowSize := countOf ((wlon - elon) / dlon)
  let numNodes := (p.getU32 (off + 168)).getD 0
  if numRows * rowSize ≥ 2 ^ 64 || numNodes != numRows * rowSize then .error .invalid else
  match p.getStr (off + 8) 8, p.getStr (off + 24) 8 with
  | some name, some parent =>
    let gridStart := off + headerSize
    if gridStart + numNodes * nodeSize > p.buf.length then .error .invalid else
    let node (i : Nat) : List R :=
      let o := gridStart + i * nodeSize
      let lat := (p.getF32 nm o).getD (Grid.n 0)
      let lon := -((p.getF32 nm (o + 4)).getD (Grid.n 0))
      [Scalar.toF32 (Scalar.toRadians (lat / Grid.n 3600)), Scalar.toF32 (Scalar.toRadians (lon / Grid.n 3600))]
    let grid := ((List.range numNodes).flatMap node).reverse
    let header : List R :=
      [secToRad nlat, secToRad slat, -(secToRad wlon), -(secToRad elon), secToRad dlat, secToRad dlon, Grid.n 2]
    match Grid.plain header grid 0 with
    | .error e => .error e
    | .ok g => .ok (trim name, trim parent, g)
  | _, _ => .error .invalid

structure Ntv2 (R : Type) where
  subgrids : List (Str × Grid.BaseGrid R)
  children : List (Str × List Str)     -- parent ↦ names, in file order

def pushChild (t : List (Str × List Str)) (parent name : Str) : List (Str × List Str) :=
  if t.any (·.1 == parent) then t.map fun e => if e.1 == parent then (e.1, e.2 ++ [name]) else e
  else t ++ [(parent, [name])]

/-- the loop over the sub-grids of `Ntv2Grid::new` -/
def readSubgrids (nm : Num R) (p : Parser) : Nat → Nat → Ntv2 R → Except Err (Ntv2 R)
  | 0, _, acc => .ok acc
  | k + 1, off, acc =>
    if off + headerSize > p.buf.length then .error .invalid else
    match subgrid nm p off with
    | .error e => .error e
    | .ok (name, parent, g) =>
      let off' := off + headerSize + g.grid.length / 2 * nodeSize
      if name == S "NONE" || acc.subgrids.any (·.1 == name) then .error .invalid else
      readSubgrids nm p k off' { subgrids := acc.subgrids ++ [(name, g)], children := pushChild acc.children parent name }

/-- `Ntv2Grid::new` -/
def decode (nm : Num R) (buf : Bytes) : Except Err (Ntv2 R) :=
  if buf.length < headerSize then .error .invalid else
  let p : Parser := { buf, bigEndian := buf.getD 8 0 != 11 }
  if !p.cmpStr 0 "NUM_OREC" then .error .unsupported else
  if p.getU32 8 != some 11 then .error .unsupported else
  if !p.cmpStr 56 "SECONDS" then .error .invalid else
  let k := (p.getU32 40).getD 0
  match readSubgrids nm p k headerSize { subgrids := [], children := [] } with
  | .error e => .error e
  | .ok g => if g.children.any (·.1 == S "NONE") then .ok g else .error .invalid

def lookupGrid (g : Ntv2 R) (name : Str) : Option (Grid.BaseGrid R) := (g.subgrids.find? (·.1 == name)).map (·.2)
def childrenOf (g : Ntv2 R) (name : Str) : Option (List Str) := (g.children.find? (·.1 == name)).map (·.2)

def eps6 : R := Scalar.ofLit (.fin false 1 (-6))

/-- the `while let Some(grid_id) = queue.pop()` loop of `find_grid` -/
def findLoop (g : Ntv2 R) (lon lat : R) : Nat → List Str → Str → Str
  | 0, _, current => current
  | fuel + 1, queue, current =>
    match queue.getLast? with
    | none => current
    | some gridId =>
      let queue := queue.dropLast
      match lookupGrid g gridId with
      | none => current      -- cannot happen: the tables are built together
      | some cur =>
        if Grid.contains cur lon lat eps6 then
          if Scalar.lt (Scalar.abs (lon - cur.lonE)) eps6 || Scalar.lt (Scalar.abs (lat - cur.latN)) eps6 then
            findLoop g lon lat fuel queue current
          else
            match childrenOf g gridId with
            | some ch => findLoop g lon lat fuel ch gridId
            | none => gridId
        else findLoop g lon lat fuel queue current

/-- `Ntv2Grid::find_grid` -/
def findGrid (g : Ntv2 R) (lon lat margin : R) : Option (Grid.BaseGrid R) :=
  let roots := (childrenOf g (S "NONE")).getD []
  let current := findLoop g lon lat (g.subgrids.length + 1) roots (S "NONE")
  match lookupGrid g current with
  | some grid => some grid
  | none =>
    if current == S "NONE" then
      (roots.filterMap (lookupGrid g)).find? fun b => Grid.contains b lon lat margin
    else none

/-- `Ntv2Grid::at` -/
def atPoint (g : Ntv2 R) (lon lat margin : R) : Option (Coor R) :=
  match findGrid g lon lat margin with
  | some grid => Grid.atPoint grid lon lat margin
  | none => none

end Ntv2
end Geodesy
