/-
Model of `src/op/raw_parameters.rs`, `src/op/parameter.rs`, `src/op/parsed_parameters.rs`
(`RawParameters::{new,next,nesting_too_deep}`, `chase`, `ParsedParameters::new`) and of
`math::angular::parse_sexagesimal`.
-/
import Geodesy.Model.Text
import Geodesy.Model.Scalar

namespace Geodesy
open Text

/-- error classes of `geodesy::Error` (messages are not modelled) -/
inductive Err where
  | notFound | recursion | syntax | missingParam | badParam | nonInvertible
  | unsupported | invalid | general | io | operator
  deriving Repr, DecidableEq, Inhabited

def Err.name : Err → String
  | .notFound => "NotFound" | .recursion => "Recursion" | .syntax => "Syntax"
  | .missingParam => "MissingParam" | .badParam => "BadParam"
  | .nonInvertible => "NonInvertible" | .unsupported => "Unsupported"
  | .invalid => "Invalid" | .general => "General" | .io => "Io" | .operator => "Operator"

/-! ### chase -/

/-- index of the first not yet visited entry with the given key -/
def findUnvisited (hay : List (Str × Str)) (visited : List Nat) (needle : Str) : Option Nat :=
  (List.range hay.length).find? fun i => !visited.contains i && (hay.getD i ([], [])).1 == needle

/-- the loop of `chase`.  Every iteration that does not return marks one more entry as
visited, so `hay.length + 1` units of fuel always suffice (`chase_fuel_sufficient`). -/
def chaseLoop (hay : List (Str × Str)) (key : Str) :
    Nat → List Nat → Str → Str → Bool → Except Err (Option Str)
  | 0, _, _, _, _ => .error .general   -- out of fuel: unreachable
  | fuel + 1, visited, needle, default, chasing =>
    match findUnvisited hay visited needle with
    | none =>
      if !default.isEmpty then .ok (some default)
      else if chasing then .error .syntax
      else .ok none
    | some i =>
      let thevalue := trim (hay.getD i ([], [])).2
      match stripPrefix (S "$") thevalue with
      | some stripped =>
        let parts := (splitOnAny ['(', ')'] (trim stripped)).filter (fun x => !(trim x).isEmpty)
        match parts with
        | [name] => chaseLoop hay key fuel (i :: visited) name default true
        | [name, d] => chaseLoop hay key fuel (i :: visited) name d true
        | _ => .error .syntax
      | none =>
        match stripPrefix (S "(") thevalue with
        | some stripped =>
          chaseLoop hay key fuel (i :: visited) key (trimEndMatches ')' stripped) true
        | none => .ok (some (trim thevalue))

/-- `chase(globals, locals, key)` -/
def chase (globals locals : PMap) (key : Str) : Except Err (Option Str) :=
  let key := trim key
  if key.isEmpty then .error .syntax else
  -- `globals.iter().chain(locals.iter()).rev()`; keys are unique within each map, so only
  -- "locals before globals" matters
  let hay := locals ++ globals
  chaseLoop hay key (hay.length + 1) [] key [] false

/-! ### RawParameters -/

structure RawParameters where
  invocation : Str
  definition : Str
  globals : PMap
  level : Nat
  deriving Repr, Inhabited

namespace RawParameters

/-- the recursion limit (`recursion_level > 100`) -/
def limit : Nat := 100

/-- `RawParameters::next` -/
def next (self : RawParameters) (definition : Str) : RawParameters :=
  let isRes := isResourceName definition
  let globals :=
    if isRes then
      let args := splitIntoParameters definition
      -- `Op::op` calls `next` once more for an invocation already handled
      let already := args.contains nameKey && self.globals.get? nameKey == args.get? nameKey
      if already then self.globals else
      -- references to the caller's parameters are resolved now, in the caller's environment
      let args' : PMap := args.map fun e =>
        match chase self.globals [(e.1, e.2)] e.1 with
        | .ok (some r) => (e.1, r)
        | _ => e
      (((((self.globals.erase nameKey).extend args').erase (S "inv")).erase
        (S "omit_fwd")).erase (S "omit_inv"))
    else self.globals
  { invocation := self.invocation
    definition := trim definition
    globals := globals
    level := self.level + 1 + (if isRes then 1 else 0) }

/-- `RawParameters::new` -/
def new (invocation : Str) (globals : PMap) : RawParameters :=
  if isResourceName invocation then
    let previous : RawParameters := { invocation, definition := [], globals, level := 0 }
    previous.next previous.invocation
  else { invocation, definition := invocation, globals, level := 0 }

def nestingTooDeep (self : RawParameters) : Bool := self.level > limit

end RawParameters

/-! ### sexagesimal -/

/-- what `parse_sexagesimal` found: hemisphere sign and up to three literals -/
structure Sexa where
  postfixNeg : Bool
  d : Lit
  m : Lit
  s : Lit
  deriving Repr, DecidableEq, Inhabited

namespace Sexa

def zero : Lit := .fin false 0 0

def ofLit (l : Lit) : Sexa := ⟨false, l, zero, zero⟩

/-- the value `parse_sexagesimal` returns -/
def eval {R : Type} [Scalar R] (x : Sexa) : R :=
  let d : R := Scalar.ofLit x.d
  let m : R := Scalar.ofLit x.m
  let s : R := Scalar.ofLit x.s
  let post : R := if x.postfixNeg then -(Scalar.ofNatLit 1) else Scalar.ofNatLit 1
  let sign := Scalar.signum d * post
  sign * (Scalar.abs d + (m + s / Scalar.ofNatLit 60) / Scalar.ofNatLit 60)

/-- IEEE class of a literal after rounding to binary64 -/
inductive Cls | nan | pinf | ninf | fin
  deriving DecidableEq

def cls (l : Lit) : Cls :=
  let b := l.toBits
  if b &&& 0x7FFFFFFFFFFFFFFF == 0x7FF0000000000000 then
    (if b >>> 63 == 1 then .ninf else .pinf)
  else if b &&& 0x7FF0000000000000 == 0x7FF0000000000000 then .nan else .fin

/-- is the value of `eval` a NaN in binary64?  (decided on the literal classes: NaN arises
only from a NaN literal or from `inf + -inf`; finite overflow gives an infinity) -/
def isNaN (x : Sexa) : Bool :=
  match cls x.d, cls x.m, cls x.s with
  | .nan, _, _ | _, .nan, _ | _, _, .nan => true
  | d, m, s =>
    -- inner = m + s/60  (class), then |d| + inner/60
    let inner : Cls :=
      match m, s with
      | .pinf, .ninf | .ninf, .pinf => .nan
      | .pinf, _ | _, .pinf => .pinf
      | .ninf, _ | _, .ninf => .ninf
      | _, _ => .fin
    match d, inner with
    | _, .nan => true
    | .fin, _ => false
    | _, .ninf => true      -- |±inf| + -inf
    | _, _ => false

/-- `parse_sexagesimal`; `none` where the code returns NaN without evaluating -/
def parse (s : Str) : Option Sexa :=
  let angle := trim s
  if angle.isEmpty || angle == S "NaN" then none else
  let last := angle.getLast?.getD ' '
  let hemi := (S "wWsSeEnN").contains last
  let postfixNeg := (S "wWsS").contains last
  let angle := if hemi then angle.dropLast else angle
  let parts := splitOn ':' angle
  if parts.length > 3 then none else
  match parts.mapM Lit.parseF64 with
  | none => none
  | some lits =>
    some ⟨hemi && postfixNeg, lits.getD 0 zero, lits.getD 1 zero, lits.getD 2 zero⟩

/-- `parse_sexagesimal(s).is_nan()` -/
def parseOk (s : Str) : Option Sexa :=
  match parse s with
  | some x => if x.isNaN then none else some x
  | none => none

end Sexa

/-! ### gamuts and parsed parameters -/

inductive OpParameter where
  | flag (key : Str)
  | natural (key : Str) (default : Option Nat)
  | integer (key : Str) (default : Option Int)
  | real (key : Str) (default : Option Lit)
  | series (key : Str) (default : Option Str)
  | text (key : Str) (default : Option Str)
  | texts (key : Str) (default : Option Str)
  deriving Repr, Inhabited

def OpParameter.key : OpParameter → Str
  | .flag k | .natural k _ | .integer k _ | .real k _ | .series k _ | .text k _ | .texts k _ => k

structure Parsed (R : Type) where
  name : Str := []
  boolean : List Str := []
  natural : List (Str × Nat) := []
  integer : List (Str × Int) := []
  real : List (Str × R) := []
  series : List (Str × List R) := []
  text : PMap := []
  texts : List (Str × List Str) := []
  given : PMap := []
  /-- names of the grids the constructor has loaded (`params.grids`), in list order -/
  grids : List Str := []
  deriving Inhabited

namespace Parsed
variable {R : Type}

def assocInsert {β : Type} (m : List (Str × β)) (k : Str) (v : β) : List (Str × β) :=
  (k, v) :: m.filter (·.1 != k)

def assocGet? {β : Type} (m : List (Str × β)) (k : Str) : Option β := (m.find? (·.1 == k)).map (·.2)

def flagSet (p : Parsed R) (k : Str) : Bool := p.boolean.contains k
def setFlag (p : Parsed R) (k : Str) : Parsed R :=
  if p.boolean.contains k then p else { p with boolean := p.boolean ++ [k] }

def isTrue (v : Str) : Bool := v.isEmpty || toLowerAscii v == S "true"

def parseSeries [Scalar R] (value : Str) : Option (List R) :=
  ((splitOn ',' value).mapM Sexa.parseOk).map fun xs => xs.map Sexa.eval

def zeroImplicit : List Str :=
  ["x_0", "x_1", "x_2", "x_3", "y_0", "y_1", "y_2", "y_3",
   "lat_0", "lat_1", "lat_2", "lat_3", "lon_0", "lon_1", "lon_2", "lon_3"].map S
def unitImplicit : List Str := ["k_0", "k_1", "k_2", "k_3"].map S

/-- one gamut element of the loop in `ParsedParameters::new` -/
def step [Scalar R] (ellpsKnown : Str → Bool) (globals locals : PMap) (acc : Parsed R) :
    OpParameter → Except Err (Parsed R)
  | .flag key => do
    match ← chase globals locals key with
    | some v => if isTrue v then pure (acc.setFlag key) else throw .badParam
    | none => pure acc
  | .natural key default => do
    match ← chase globals locals key with
    | some v =>
      match Lit.parseUsize v with
      | some n => pure { acc with natural := assocInsert acc.natural key n }
      | none => throw .badParam
    | none =>
      match default with
      | some n => pure { acc with natural := assocInsert acc.natural key n }
      | none => throw .missingParam
  | .integer key default => do
    match ← chase globals locals key with
    | some v =>
      match Lit.parseI64 v with
      | some n => pure { acc with integer := assocInsert acc.integer key n }
      | none => throw .badParam
    | none =>
      match default with
      | some n => pure { acc with integer := assocInsert acc.integer key n }
      | none => throw .missingParam
  | .real key default => do
    match ← chase globals locals key with
    | some v =>
      match Sexa.parseOk v with
      | some x => pure { acc with real := assocInsert acc.real key (Sexa.eval x) }
      | none => throw .badParam
    | none =>
      match default with
      | some l => pure { acc with real := assocInsert acc.real key (Scalar.ofLit l) }
      | none => throw .missingParam
  | .series key default => do
    match ← chase globals locals key with
    | some v =>
      match parseSeries v with
      | some xs => pure { acc with series := assocInsert acc.series key xs }
      | none => throw .badParam
    | none =>
      match default with
      | some d =>
        if d.isEmpty then pure acc else
        match parseSeries d with
        | some xs => pure { acc with series := assocInsert acc.series key xs }
        | none => throw .badParam
      | none => throw .missingParam
  | .text key default => do
    match ← chase globals locals key with
    | some v =>
      if startsWith (S "ellps") key && !ellpsKnown v then throw .notFound
      else pure { acc with text := acc.text.insert key v }
    | none =>
      match default with
      | some d => pure { acc with text := acc.text.insert key d }
      | none => throw .missingParam
  | .texts key default => do
    match ← chase globals locals key with
    | some v =>
      pure { acc with texts := assocInsert acc.texts key ((splitOn ',' v).map trim) }
    | none =>
      match default with
      | some d =>
        if d.isEmpty then pure acc
        else pure { acc with texts := assocInsert acc.texts key ((splitOn ',' d).map trim) }
      | none => throw .missingParam

def omitStep (globals locals : PMap) (acc : Parsed R) (key : Str) : Except Err (Parsed R) := do
  match ← chase globals locals key with
  | some v => if isTrue v then pure (acc.setFlag key) else pure acc
  | none => pure acc

def fillImplicit [Scalar R] (acc : Parsed R) : Parsed R :=
  let real := zeroImplicit.foldl (fun r k =>
    if r.any (·.1 == k) then r else r ++ [(k, Scalar.ofNatLit 0)]) acc.real
  let real := unitImplicit.foldl (fun r k =>
    if r.any (·.1 == k) then r else r ++ [(k, Scalar.ofNatLit 1)]) real
  { acc with real := real }

/-- `ParsedParameters::new` -/
def new [Scalar R] (ellpsKnown : Str → Bool) (raw : RawParameters) (gamut : List OpParameter) :
    Except Err (Parsed R) := do
  let locals := splitIntoParameters raw.definition
  let globals := raw.globals
  let acc ← gamut.foldlM (step ellpsKnown globals locals) ({} : Parsed R)
  let acc ← omitStep globals locals acc (S "omit_fwd")
  let acc ← omitStep globals locals acc (S "omit_inv")
  let acc := fillImplicit acc
  pure { acc with name := (locals.get? nameKey).getD (S "unknown"), given := locals }

def real? (p : Parsed R) (k : Str) : Option R := assocGet? p.real k
def series? (p : Parsed R) (k : Str) : Option (List R) := assocGet? p.series k
def text? (p : Parsed R) (k : Str) : Option Str := p.text.get? k
def natural? (p : Parsed R) (k : Str) : Option Nat := assocGet? p.natural k
def integer? (p : Parsed R) (k : Str) : Option Int := assocGet? p.integer k
def texts? (p : Parsed R) (k : Str) : Option (List Str) := assocGet? p.texts k
def setReal (p : Parsed R) (k : Str) (v : R) : Parsed R := { p with real := assocInsert p.real k v }
def setSeries (p : Parsed R) (k : Str) (v : List R) : Parsed R := { p with series := assocInsert p.series k v }
def setText (p : Parsed R) (k : Str) (v : Str) : Parsed R := { p with text := p.text.insert k v }

end Parsed
end Geodesy
