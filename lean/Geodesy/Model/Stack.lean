/-
Model of `src/inner_op/stack.rs` and `src/inner_op/pushpop.rs`: the per-application stack of
coordinate *columns* (`Vec<Vec<f64>>`, bottom first) acting on the operand set.

Polymorphic in the element type `α`: the stack machine only moves values around, the only
value it creates is NaN.
-/
import Geodesy.Model.Coor

namespace Geodesy
namespace Stack
variable {α : Type}

/-- `Vec<Vec<f64>>`: bottom of the stack first, one column (one value per operand) per entry -/
abbrev Cols (α : Type) := List (List α)
abbrev Data (α : Type) := List (Coor α)

/-- `operands.stomp()` -/
def stomp (nan : α) (ops : Data α) : Data α := ops.map fun _ => Coor.splat nan

/-- `stack_push` -/
def push (cols : Cols α) (ops : Data α) (args : List (Fin 4)) : Cols α × Data α × Nat :=
  (cols ++ args.map (fun a => ops.map (·.get a)), ops, ops.length)

/-- write one column into element `a` of every operand -/
def scatter (ops : Data α) (a : Fin 4) (col : List α) : Data α :=
  List.zipWith (fun c v => c.set a v) ops col

/-- `stack_pop` -/
def pop (nan : α) (cols : Cols α) (ops : Data α) (args : List (Fin 4)) : Cols α × Data α × Nat :=
  let depth := cols.length
  let k := args.length
  if depth < k then (cols, stomp nan ops, 0) else
  let ext := (cols.drop (depth - k)).reverse      -- ext[j] = j-th element popped
  let ops' := (args.zip ext).foldl (fun o p => scatter o p.1 p.2) ops
  (cols.take (depth - k), ops', ops.length)

/-- exchange element `a` of every operand with column number `idx` -/
def flipOne (cols : Cols α) (ops : Data α) (a : Fin 4) (idx : Nat) : Cols α × Data α :=
  let col := cols.getD idx []
  let newCol := ops.map (·.get a)
  (cols.set idx newCol, scatter ops a col)

/-- the `j` loop of `stack_flip`, for `j = j0, j0+1, …` -/
def flipLoop (depth : Nat) : List (Fin 4) → Nat → Cols α → Data α → Cols α × Data α
  | [], _, cols, ops => (cols, ops)
  | a :: rest, j, cols, ops =>
    let (cols', ops') := flipOne cols ops a (depth - 1 - j)
    flipLoop depth rest (j + 1) cols' ops'

/-- `stack_flip` -/
def flip (nan : α) (cols : Cols α) (ops : Data α) (args : List (Fin 4)) : Cols α × Data α × Nat :=
  let depth := cols.length
  if depth < args.length then (cols, stomp nan ops, 0) else
  let (cols', ops') := flipLoop depth args 0 cols ops
  (cols', ops', ops.length)

/-- one iteration of the loop of `stack_roll`: `e = stack.pop(); stack.insert(depth - m, e)` -/
def rollOnce (depth m : Nat) (cols : Cols α) : Cols α :=
  match cols.getLast? with
  | none => cols
  | some e =>
    let rest := cols.dropLast
    rest.take (depth - m) ++ [e] ++ rest.drop (depth - m)

/-- `stack_roll` with `args = [m, n]` as the code receives them (`m = |args[0]|`, and a
negative `n` counts from the bottom of the window) -/
def roll (nan : α) (cols : Cols α) (ops : Data α) (m0 n0 : Int) : Cols α × Data α × Nat :=
  let m := m0.natAbs
  let n : Int := if n0 < 0 then (m : Int) + n0 else n0
  let n := n.toNat
  let depth := cols.length
  if m > depth then (cols, stomp nan ops, 0) else
  (Nat.repeat (rollOnce depth m) n cols, ops, ops.length)

/-- the `"swap"` arm -/
def swap (cols : Cols α) (ops : Data α) : Cols α × Data α × Nat :=
  let n := cols.length
  let cols' :=
    if n > 1 then
      let a := cols.getD (n - 1) []
      let b := cols.getD (n - 2) []
      (cols.set (n - 1) b).set (n - 2) a
    else cols
  (cols', ops, if n == 0 then 0 else (cols.headD []).length)

/-- the sub-command of a `stack` step, as the constructor stores it -/
inductive Action where
  | push (args : List (Fin 4))
  | pop (args : List (Fin 4))
  | flip (args : List (Fin 4))
  | roll (m n : Int)
  | unroll (m n : Int)
  | swap
  | drop
  deriving Repr, DecidableEq, Inhabited

/-- `stack_fwd` -/
def fwd (nan : α) (cols : Cols α) (ops : Data α) : Action → Cols α × Data α × Nat
  | .push a => push cols ops a
  | .pop a => pop nan cols ops a
  | .roll m n => roll nan cols ops m n
  | .unroll m n => roll nan cols ops m (m - n)
  | .flip a => flip nan cols ops a
  | .swap => swap cols ops
  | .drop => (cols, ops, 0)

/-- `stack_inv` -/
def inv (nan : α) (cols : Cols α) (ops : Data α) : Action → Cols α × Data α × Nat
  | .push a => pop nan cols ops a.reverse
  | .pop a => push cols ops a.reverse
  | .roll m n => roll nan cols ops m (m - n)
  | .unroll m n => roll nan cols ops m n
  | .flip a => flip nan cols ops a
  | .swap => swap cols ops
  | .drop => (cols, ops, 0)

/-! ### the deprecated `push` / `pop` operators (`pushpop.rs`) -/

/-- `do_the_push`: flags for v_1 … v_4 -/
def legacyPush (cols : Cols α) (ops : Data α) (flags : Fin 4 → Bool) : Cols α × Data α × Nat :=
  let add (cols : Cols α) (j : Fin 4) : Cols α :=
    if flags j then cols ++ [ops.map (·.get j)] else cols
  (add (add (add (add cols 0) 1) 2) 3, ops, ops.length)

/-- one round of the loop of `do_the_pop`, for element `j` (visited in the order 3,2,1,0);
`none` = underflow, the function returns 0 at once -/
def legacyPopOne (nan : α) (flags : Fin 4 → Bool) (j : Fin 4) (st : Cols α × Data α) :
    Option (Cols α × Data α) × Data α :=
  if !flags j then (some st, st.2) else
  match st.1.getLast? with
  | none => (none, st.2.map (·.set j nan))
  | some v => (some (st.1.dropLast, scatter st.2 j v), st.2)

/-- `do_the_pop` -/
def legacyPop (nan : α) (cols : Cols α) (ops : Data α) (flags : Fin 4 → Bool) :
    Cols α × Data α × Nat :=
  match legacyPopOne nan flags 3 (cols, ops) with
  | (none, o) => (cols, o, 0)
  | (some s3, _) =>
  match legacyPopOne nan flags 2 s3 with
  | (none, o) => (s3.1, o, 0)
  | (some s2, _) =>
  match legacyPopOne nan flags 1 s2 with
  | (none, o) => (s2.1, o, 0)
  | (some s1, _) =>
  match legacyPopOne nan flags 0 s1 with
  | (none, o) => (s1.1, o, 0)
  | (some s0, _) => (s0.1, s0.2, ops.length)

end Stack
end Geodesy
