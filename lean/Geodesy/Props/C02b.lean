/-
C02, continued — every built-in operator acts tuple by tuple.

`registry_pointwise`: for every operator name of the registry, every parameter set, every grid
environment and either direction, the data result is `map f` for a per-tuple function `f`.
With `C02.good_pointwise` this closes the property for every operator tree made of built-ins
and stack-free pipelines (`builtin_tree_good`).
-/
import Geodesy.Props.C02
import Geodesy.Props.C10

namespace Geodesy
namespace C02
open Text Ops

variable {R : Type} [Scalar R]

/-- the data part of one direction is a per-tuple map -/
def IsMap (run : List (Coor R) → List (Coor R) × Nat) : Prop :=
  ∃ f : Coor R → Coor R, ∀ data, (run data).1 = data.map f

theorem isMap_const (n : List (Coor R) → Nat) : IsMap (fun data : List (Coor R) => (data, n data)) :=
  ⟨id, fun data => by simp⟩

theorem isMap_map (f : Coor R → Coor R) (n : List (Coor R) → Nat) :
    IsMap (fun data : List (Coor R) => (data.map f, n data)) := ⟨f, fun _ => rfl⟩

theorem isMap_ite (c : Bool) (f g : List (Coor R) → List (Coor R) × Nat) (hf : IsMap f) (hg : IsMap g) :
    IsMap (fun d => if c then f d else g d) := by
  cases c
  · simpa using hg
  · simpa using hf

theorem isMap_congr {f g : List (Coor R) → List (Coor R) × Nat} (h : ∀ d, f d = g d) (hg : IsMap g) : IsMap f := by
  obtain ⟨k, hk⟩ := hg
  exact ⟨k, fun d => by rw [h d]; exact hk d⟩

theorem isMap_mapXY (f : R → R → R × R) : IsMap (mapXY f) := ⟨_, fun _ => rfl⟩
theorem isMap_mapXYOpt (f : R → R → Option (R × R)) : IsMap (mapXYOpt f) :=
  ⟨fun c => (match f c.c0 c.c1 with
      | some r => (({ c with c0 := r.1, c1 := r.2 } : Coor R), true)
      | none => ({ c with c0 := Scalar.nan, c1 := Scalar.nan }, false)).1,
   fun data => by simp only [mapXYOpt, List.map_map]; rfl⟩
theorem isMap_tmercLoop (f : R → R → Option (R × R)) : IsMap (Tmerc.loop f) :=
  ⟨_, fun data => (C10.tmerc_loop_spec f data).2.2.2⟩
theorem isMap_curvMapXY (f : R → R → R × R) : IsMap (Curvature.mapXY f) := ⟨_, fun _ => rfl⟩
theorem isMap_mapLat (f : R → R) : IsMap (Latitude.mapLat f) := ⟨_, fun _ => rfl⟩
theorem isMap_mapAll (f : Coor R → Coor R) : IsMap (Iso6709.mapAll f) := ⟨_, fun _ => rfl⟩
theorem isMap_mapFirst (f : R → R → R) : IsMap (Gravity.mapFirst f) := ⟨_, fun _ => rfl⟩
theorem isMap_mapCount (f : Coor R → Coor R) : IsMap (mapCountNonNaN f) := ⟨_, fun _ => rfl⟩
theorem isMap_optMap (f : Coor R → Option (Coor R)) (d : Coor R) (n : List (Coor R) → Nat) :
    IsMap (fun data : List (Coor R) => ((data.map f).map (fun r => r.getD d), n data)) :=
  ⟨fun c => (f c).getD d, fun data => by simp [List.map_map, Function.comp_def]⟩

/-- `Pointwise` from `IsMap` in both directions -/
theorem pointwise_of (run : Dir → List (Coor R) → List (Coor R) × Nat) (h : ∀ dir, IsMap (run dir)) : Pointwise run := h

theorem merc_pointwise (p : Parsed R) : Pointwise (Merc.sem p) := fun dir => by
  cases dir <;> exact isMap_mapXY _
theorem webmerc_pointwise (p : Parsed R) : Pointwise (Webmerc.sem p) := fun dir => by
  cases dir <;> exact isMap_mapXY _
theorem omerc_pointwise (p : Parsed R) : Pointwise (Omerc.sem p) := fun dir => by
  cases dir <;> exact isMap_mapXY _
theorem btmerc_pointwise (p : Parsed R) : Pointwise (Btmerc.sem p) := fun dir => by
  cases dir <;> exact isMap_mapXY _
theorem somerc_pointwise (p : Parsed R) : Pointwise (Somerc.sem p) := fun dir => by
  cases dir
  · exact isMap_mapXY _
  · exact isMap_mapXYOpt _
theorem cart_pointwise (p : Parsed R) : Pointwise (Cart.sem p) := fun dir => by
  cases dir <;> exact isMap_mapCount _
theorem dm_pointwise (p : Parsed R) : Pointwise (Iso6709.dmSem p) := fun dir => by
  cases dir <;> exact isMap_mapAll _
theorem dms_pointwise (p : Parsed R) : Pointwise (Iso6709.dmsSem p) := fun dir => by
  cases dir <;> exact isMap_mapAll _

theorem tmerc_pointwise (p : Parsed R) : Pointwise (Tmerc.sem p) := fun dir => by
  unfold Tmerc.sem
  cases Tmerc.pre p with
  | none => exact isMap_const _
  | some q => cases dir <;> exact isMap_tmercLoop _

theorem laea_pointwise (p : Parsed R) : Pointwise (Laea.sem p) := fun dir => by
  unfold Laea.sem
  cases Laea.stored p with
  | none => exact isMap_const _
  | some s => cases dir <;> exact isMap_mapXYOpt _

theorem molodensky_pointwise (p : Parsed R) : Pointwise (Molodensky.sem p) := fun dir => by
  unfold Molodensky.sem
  cases Molodensky.moped p with
  | none => exact isMap_const _
  | some m => exact isMap_map _ _

theorem permtide_pointwise (p : Parsed R) : Pointwise (Permtide.sem p) := fun dir => by
  unfold Permtide.sem
  cases p.real? (S "coefficient") with
  | none => exact isMap_const _
  | some k => exact isMap_map _ _

theorem lcc_pointwise (p : Parsed R) : Pointwise (Lcc.sem p) := fun dir => by
  unfold Lcc.sem
  cases Lcc.consts p with
  | none => exact isMap_const _
  | some k =>
    refine ⟨fun c => ((match (match dir with | .fwd => Lcc.fwd k | .inv => Lcc.inv k) c.c0 c.c1 with
      | some r => (({ c with c0 := r.1, c1 := r.2 } : Coor R), 1)
      | none => (Coor.splat Scalar.nan, 0)) : Coor R × Nat).1, fun data => ?_⟩
    simp only [List.map_map]; rfl

theorem geodesic_pointwise (p : Parsed R) : Pointwise (Geodesic.sem p) := fun dir => by
  unfold Geodesic.sem
  exact isMap_optMap _ _ _

theorem latitude_pointwise (p : Parsed R) : Pointwise (Latitude.sem p) := fun dir => by
  cases dir
  · unfold Latitude.sem Latitude.fwd
    repeat (first | exact isMap_mapLat _ | exact isMap_const _ | apply isMap_ite)
  · unfold Latitude.sem Latitude.inv
    repeat (first | exact isMap_mapLat _ | exact isMap_const _ | apply isMap_ite)

theorem curvature_pointwise (p : Parsed R) : Pointwise (Curvature.sem p) := fun dir => by
  cases dir
  · unfold Curvature.sem Curvature.fwd
    repeat (first | exact isMap_curvMapXY _ | exact isMap_const _ | apply isMap_ite)
  · exact isMap_const _

theorem gravity_pointwise (p : Parsed R) : Pointwise (Gravity.sem p) := fun dir => by
  cases dir
  · unfold Gravity.sem Gravity.fwd
    cases p.text? (S "action") with
    | none => exact isMap_const _
    | some a =>
      simp only [Gravity.welmecLoop, Gravity.grs80Loop, Gravity.grs67Loop, Gravity.jeffreysLoop, Gravity.cassinisLoop]
      repeat (first | exact isMap_mapFirst _ | exact isMap_const _ | apply isMap_ite)
  · exact isMap_const _

theorem gridshift_pointwise (genv : Grid.GridEnv R) (p : Parsed R) : Pointwise (Gridshift.sem genv p) := fun dir => by
  unfold Gridshift.sem
  apply isMap_ite
  · exact isMap_const _
  · exact isMap_optMap _ _ _

theorem deformation_pointwise (genv : Grid.GridEnv R) (p : Parsed R) : Pointwise (Deformation.sem genv p) := fun dir => by
  unfold Deformation.sem
  exact isMap_optMap _ _ _

theorem deflection_pointwise (genv : Grid.GridEnv R) (p : Parsed R) : Pointwise (Deflection.sem genv p) := fun dir => by
  cases dir
  · unfold Deflection.sem
    apply isMap_ite
    · exact isMap_const _
    · exact isMap_optMap _ _ _
  · exact isMap_const _

theorem axisswap_pointwise (p : Parsed R) : Pointwise (fun dir data => Ops.axisswapSem R p dir data) := fun dir => by
  unfold Ops.axisswapSem
  cases p.series? (S "order") with
  | none => exact isMap_const _
  | some order => exact isMap_map _ _

/-- **Every operator of the registry acts tuple by tuple**, for every tag, parameter set, grid
environment and direction (for every scalar reading in which no number equals NaN and `ne`
decides equality — the two facts `helmert`'s carried state needs, see `C07.loop_eq_map`) -/
theorem registry_pointwise (genv : Grid.GridEnv R)
    (hnan : ∀ t : R, Scalar.ne t (Scalar.nan : R) = true)
    (heq : ∀ a b : R, Scalar.ne a b = false → a = b) (tag : Str) (p : Parsed R) :
    Pointwise (fun dir data => Registry.sem R genv tag p dir data) := fun dir => by
  unfold Registry.sem
  apply isMap_ite; · exact addone_pointwise dir
  apply isMap_ite; · exact isMap_const _
  apply isMap_ite; · exact axisswap_pointwise p dir
  apply isMap_ite; · exact helmert_pointwise p hnan heq dir
  apply isMap_ite; · exact adapt_pointwise p dir
  apply isMap_ite; · exact unitconvert_pointwise p dir
  apply isMap_ite; · exact merc_pointwise p dir
  apply isMap_ite; · exact webmerc_pointwise p dir
  apply isMap_ite; · exact omerc_pointwise p dir
  apply isMap_ite; · exact geodesic_pointwise p dir
  apply isMap_ite; · exact latitude_pointwise p dir
  apply isMap_ite; · exact curvature_pointwise p dir
  apply isMap_ite; · exact gravity_pointwise p dir
  apply isMap_ite; · exact dm_pointwise p dir
  apply isMap_ite; · exact dms_pointwise p dir
  apply isMap_ite; · exact tmerc_pointwise p dir
  apply isMap_ite; · exact btmerc_pointwise p dir
  apply isMap_ite; · exact laea_pointwise p dir
  apply isMap_ite; · exact somerc_pointwise p dir
  apply isMap_ite; · exact cart_pointwise p dir
  apply isMap_ite; · exact molodensky_pointwise p dir
  apply isMap_ite; · exact permtide_pointwise p dir
  apply isMap_ite; · exact lcc_pointwise p dir
  apply isMap_ite; · exact gridshift_pointwise genv p dir
  apply isMap_ite; · exact deformation_pointwise genv p dir
  apply isMap_ite; · exact deflection_pointwise genv p dir
  apply isMap_ite; · exact isMap_const _
  exact isMap_const _

/-- operator trees all of whose pipelines (at any depth) are free of stack steps -/
inductive StackFreeTree (actionOf : ActionOf R) : Op R → Prop
  | mk (node : Node R) (steps : List (Op R))
      (hs : (node.tag == pipelineTag) = true → C03.StackFree actionOf steps)
      (hsub : ∀ s, s ∈ steps → StackFreeTree actionOf s) : StackFreeTree actionOf (.mk node steps)

/-- **every tree of built-in operators whose pipelines are free of stack steps is `Good`**, hence
acts tuple by tuple in both directions to any nesting depth (`good_pointwise`), and so the
result for a set is independent of neighbours, order and chunking (`apply_append`,
`apply_perm`, `apply_singletons`) -/
theorem builtin_tree_good (genv : Grid.GridEnv R)
    (hnan : ∀ t : R, Scalar.ne t (Scalar.nan : R) = true)
    (heq : ∀ a b : R, Scalar.ne a b = false → a = b) (actionOf : ActionOf R) (o : Op R)
    (h : StackFreeTree actionOf o) : Good (Registry.sem R genv) actionOf o := by
  induction h with
  | mk node steps hs hsub ih =>
    by_cases ht : (node.tag == pipelineTag) = true
    · exact Good.pipe node steps ht (hs ht) ih
    · exact Good.leaf node steps (by simpa using ht) (registry_pointwise genv hnan heq node.tag node.params)

/-- non-vacuity: a pipeline of two built-in steps is a stack-free tree -/
example (actionOf : ActionOf R) (n1 n2 : Node R) (pn : Node R)
    (h1 : (n1.tag == pipelineTag) = false) (h2 : (n2.tag == pipelineTag) = false)
    (hsf : C03.StackFree actionOf [.mk n1 [], .mk n2 []]) :
    StackFreeTree actionOf (.mk pn [.mk n1 [], .mk n2 []]) := by
  refine StackFreeTree.mk pn _ (fun _ => hsf) ?_
  intro s hs
  simp only [List.mem_cons, List.mem_nil_iff, or_false] at hs
  rcases hs with rfl | rfl
  · exact StackFreeTree.mk n1 [] (fun h => by rw [h1] at h; cases h) (fun s hs => by cases hs)
  · exact StackFreeTree.mk n2 [] (fun h => by rw [h2] at h; cases h) (fun s hs => by cases hs)

end C02
end Geodesy
