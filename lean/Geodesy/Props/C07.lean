/-
C07 — Helmert is a similarity with the declared conventions and epochs.

Model side: `Geodesy/Model/Ops/Helmert.lean` (constructor arithmetic, `rotation_matrix`,
`helmert_common` with the state it carries between tuples), mirrored from
`src/inner_op/helmert.rs`.  The theorems about geometry are stated in the real-number reading
(`Lemmas/Real.lean`); the theorem about epochs (`loop_eq_map`) holds for EVERY reading in which
NaN differs from everything and `!=` being false means equality, in particular for mixed epoch
sets in any order.
-/
import Geodesy.Model.Ops.Helmert
import Geodesy.Lemmas.Real

namespace Geodesy
namespace C07
open Ops.Helmert

/-! ### the rotation matrix -/

section rot
variable (rx ry rz : ℝ)

/-- rows of a matrix, dotted -/
def dot (u v : V3 ℝ) : ℝ := u.a * v.a + u.b * v.b + u.c * v.c
def col1 (m : M3 ℝ) : V3 ℝ := ⟨m.r1.a, m.r2.a, m.r3.a⟩
def col2 (m : M3 ℝ) : V3 ℝ := ⟨m.r1.b, m.r2.b, m.r3.b⟩
def col3 (m : M3 ℝ) : V3 ℝ := ⟨m.r1.c, m.r2.c, m.r3.c⟩
def transpose (m : M3 ℝ) : M3 ℝ := ⟨col1 m, col2 m, col3 m⟩
def det (m : M3 ℝ) : ℝ :=
  m.r1.a * (m.r2.b * m.r3.c - m.r2.c * m.r3.b) - m.r1.b * (m.r2.a * m.r3.c - m.r2.c * m.r3.a) +
    m.r1.c * (m.r2.a * m.r3.b - m.r2.b * m.r3.a)

/-- `M` is orthogonal: rows and columns are orthonormal -/
structure Orthogonal (m : M3 ℝ) : Prop where
  r11 : dot m.r1 m.r1 = 1
  r22 : dot m.r2 m.r2 = 1
  r33 : dot m.r3 m.r3 = 1
  r12 : dot m.r1 m.r2 = 0
  r13 : dot m.r1 m.r3 = 0
  r23 : dot m.r2 m.r3 = 0
  c11 : dot (col1 m) (col1 m) = 1
  c22 : dot (col2 m) (col2 m) = 1
  c33 : dot (col3 m) (col3 m) = 1
  c12 : dot (col1 m) (col2 m) = 0
  c13 : dot (col1 m) (col3 m) = 0
  c23 : dot (col2 m) (col3 m) = 0

/-- **The position-vector and coordinate-frame matrices are transposes of each other**, in both
modes (exact and small-angle). -/
theorem convention_transpose (r : V3 ℝ) (exact : Bool) :
    rotationMatrix r exact true = transpose (rotationMatrix r exact false) := by
  cases exact <;> simp [rotationMatrix, transpose, col1, col2, col3]

/-- the coordinate-frame matrix in exact mode, entries spelled out -/
theorem rot_exact_entries (r : V3 ℝ) :
    rotationMatrix r true false =
      ⟨⟨Real.cos r.b * Real.cos r.c,
        Real.cos r.a * Real.sin r.c + Real.sin r.a * Real.sin r.b * Real.cos r.c,
        -Real.cos r.a * Real.sin r.b * Real.cos r.c + Real.sin r.a * Real.sin r.c⟩,
       ⟨-Real.cos r.b * Real.sin r.c,
        Real.cos r.a * Real.cos r.c - Real.sin r.a * Real.sin r.b * Real.sin r.c,
        Real.sin r.a * Real.cos r.c + Real.cos r.a * Real.sin r.b * Real.sin r.c⟩,
       ⟨Real.sin r.b, -Real.sin r.a * Real.cos r.b, Real.cos r.a * Real.cos r.b⟩⟩ := by
  simp [rotationMatrix]

/-- **In exact mode the rotation matrix is orthogonal** (both conventions), for every angle. -/
theorem rot_orthogonal (r : V3 ℝ) (pv : Bool) : Orthogonal (rotationMatrix r true pv) := by
  have hx := Real.sin_sq_add_cos_sq r.a
  have hy := Real.sin_sq_add_cos_sq r.b
  have hz := Real.sin_sq_add_cos_sq r.c
  have key : Orthogonal (rotationMatrix r true false) := by
    rw [rot_exact_entries]
    generalize Real.sin r.a = sx at *
    generalize Real.cos r.a = cx at *
    generalize Real.sin r.b = sy at *
    generalize Real.cos r.b = cy at *
    generalize Real.sin r.c = sz at *
    generalize Real.cos r.c = cz at *
    constructor <;> simp only [dot, col1, col2, col3]
    · linear_combination (cz^2*sy^2 + sz^2) * hx + cz^2 * hy + hz
    · linear_combination (cz^2 + sy^2*sz^2) * hx + sz^2 * hy + hz
    · linear_combination cy^2 * hx + hy
    · linear_combination (-cz*sy^2*sz + cz*sz) * hx + (-cz*sz) * hy
    · linear_combination (-cy*cz*sy) * hx
    · linear_combination (cy*sy*sz) * hx
    · linear_combination hy + cy^2 * hz
    · linear_combination (cy^2 + cz^2*sy^2 + sy^2*sz^2) * hx + (-cx^2*cz^2 - cx^2*sz^2 + cz^2 + sz^2) * hy +
        (cx^2*cy^2 - cy^2 + 1) * hz
    · linear_combination (cz^2 + sz^2) * hx + (cx^2*cz^2 + cx^2*sz^2) * hy + (-cx^2*cy^2 + 1) * hz
    · linear_combination (cy*sx*sy) * hz
    · linear_combination (-cx*cy*sy) * hz
    · linear_combination (-cx*cz^2*sx - cx*sx*sz^2) * hy + (cx*cy^2*sx) * hz
  cases pv with
  | false => exact key
  | true =>
    rw [convention_transpose]
    exact ⟨key.c11, key.c22, key.c33, key.c12, key.c13, key.c23,
           key.r11, key.r22, key.r33, key.r12, key.r13, key.r23⟩

/-- **… and proper**: determinant one. -/
theorem rot_det_one (r : V3 ℝ) (pv : Bool) : det (rotationMatrix r true pv) = 1 := by
  have hx := Real.sin_sq_add_cos_sq r.a
  have hy := Real.sin_sq_add_cos_sq r.b
  have hz := Real.sin_sq_add_cos_sq r.c
  cases pv <;> simp only [convention_transpose, rot_exact_entries, det, transpose, col1, col2, col3]
  all_goals
    generalize Real.sin r.a = sx at *
    generalize Real.cos r.a = cx at *
    generalize Real.sin r.b = sy at *
    generalize Real.cos r.b = cy at *
    generalize Real.sin r.c = sz at *
    generalize Real.cos r.c = cz at *
    linear_combination (cy^2*cz^2 + cy^2*sz^2 + cz^2*sy^2 + sy^2*sz^2) * hx + (cz^2 + sz^2) * hy + hz

/-- **Small-angle mode: one convention with rotations `r` is the other with `-r`.** -/
theorem small_angle_sign (r : V3 ℝ) :
    rotationMatrix r false true = rotationMatrix ⟨-r.a, -r.b, -r.c⟩ false false := by
  simp [rotationMatrix, one]

end rot

/-! ### the transformation of one tuple -/

/-- squared distance of the first three elements -/
def dist2 (p q : Coor ℝ) : ℝ := (p.c0 - q.c0) ^ 2 + (p.c1 - q.c1) ^ 2 + (p.c2 - q.c2) ^ 2

/-- **x ↦ T + S·(R·x)**, the fourth coordinate untouched (forward, rotated case; without
rotation R is the identity) -/
theorem helmert_affine (p : Params ℝ) (st : LoopState ℝ) (c : Coor ℝ) :
    transform p st .fwd c =
      (if p.rotated then
        ⟨st.TT.a + st.SS * dot st.ROT.r1 ⟨c.c0, c.c1, c.c2⟩,
         st.TT.b + st.SS * dot st.ROT.r2 ⟨c.c0, c.c1, c.c2⟩,
         st.TT.c + st.SS * dot st.ROT.r3 ⟨c.c0, c.c1, c.c2⟩, c.c3⟩
       else ⟨st.TT.a + st.SS * c.c0, st.TT.b + st.SS * c.c1, st.TT.c + st.SS * c.c2, c.c3⟩) := by
  by_cases h : p.rotated = true
  · simp only [transform, h, if_true, dot]
    congr 1 <;> ring
  · simp only [transform, h, dot]
    simp only [Bool.false_eq_true, if_false]
    congr 1 <;> ring

theorem fourth_untouched (p : Params ℝ) (st : LoopState ℝ) (dir : Dir) (c : Coor ℝ) :
    (transform p st dir c).c3 = c.c3 := by
  cases dir <;> simp only [transform] <;> split <;> rfl

/-- **Similarity**: with an orthogonal rotation matrix, distances between transformed points are
the original distances times the scale (squared form). -/
theorem helmert_similarity (p : Params ℝ) (st : LoopState ℝ) (x y : Coor ℝ)
    (ho : p.rotated = true → Orthogonal st.ROT) :
    dist2 (transform p st .fwd x) (transform p st .fwd y) = st.SS ^ 2 * dist2 x y := by
  obtain ⟨TT, SS, ⟨⟨m11, m12, m13⟩, ⟨m21, m22, m23⟩, ⟨m31, m32, m33⟩⟩, prevT⟩ := st
  by_cases h : p.rotated = true
  · have o := ho h
    have c11 := o.c11; have c22 := o.c22; have c33 := o.c33
    have c12 := o.c12; have c13 := o.c13; have c23 := o.c23
    simp only [dot, col1, col2, col3] at c11 c22 c33 c12 c13 c23
    simp only [transform, h, if_true, dist2]
    linear_combination
      SS^2 * ((x.c0 - y.c0)^2 * c11 + (x.c1 - y.c1)^2 * c22 + (x.c2 - y.c2)^2 * c33 +
        2 * (x.c0 - y.c0) * (x.c1 - y.c1) * c12 + 2 * (x.c0 - y.c0) * (x.c2 - y.c2) * c13 +
        2 * (x.c1 - y.c1) * (x.c2 - y.c2) * c23)
  · simp only [transform, h, dist2]
    simp only [Bool.false_eq_true, if_false]
    ring

/-- **The inverse undoes the forward exactly** when the rotation matrix is orthogonal (exact
mode) and the scale is not zero. -/
theorem inverse_exact (p : Params ℝ) (st : LoopState ℝ) (c : Coor ℝ) (hs : st.SS ≠ 0)
    (ho : p.rotated = true → Orthogonal st.ROT) :
    transform p st .inv (transform p st .fwd c) = c := by
  obtain ⟨TT, SS, ⟨⟨m11, m12, m13⟩, ⟨m21, m22, m23⟩, ⟨m31, m32, m33⟩⟩, prevT⟩ := st
  obtain ⟨x, y, z, t⟩ := c
  have hs' : SS ≠ 0 := hs
  have e : ∀ a T : ℝ, (SS * a + T - T) / SS = a := by intro a T; field_simp; ring
  by_cases h : p.rotated = true
  · have o := ho h
    have c11 := o.c11; have c22 := o.c22; have c33 := o.c33
    have c12 := o.c12; have c13 := o.c13; have c23 := o.c23
    simp only [dot, col1, col2, col3] at c11 c22 c33 c12 c13 c23
    simp only [transform, h, if_true, e]
    congr 1
    · linear_combination x * c11 + y * c12 + z * c13
    · linear_combination x * c12 + y * c22 + z * c23
    · linear_combination x * c13 + y * c23 + z * c33
  · simp only [transform, h, e]
    simp only [Bool.false_eq_true, if_false, e]

/-- the same in the other order -/
theorem forward_undoes_inverse (p : Params ℝ) (st : LoopState ℝ) (c : Coor ℝ) (hs : st.SS ≠ 0)
    (ho : p.rotated = true → Orthogonal st.ROT) :
    transform p st .fwd (transform p st .inv c) = c := by
  obtain ⟨TT, SS, ⟨⟨m11, m12, m13⟩, ⟨m21, m22, m23⟩, ⟨m31, m32, m33⟩⟩, prevT⟩ := st
  obtain ⟨x, y, z, t⟩ := c
  have hs' : SS ≠ 0 := hs
  have hX : SS * ((x - TT.a) / SS) = x - TT.a := by field_simp
  have hY : SS * ((y - TT.b) / SS) = y - TT.b := by field_simp
  have hZ : SS * ((z - TT.c) / SS) = z - TT.c := by field_simp
  by_cases h : p.rotated = true
  · have o := ho h
    have r11 := o.r11; have r22 := o.r22; have r33 := o.r33
    have r12 := o.r12; have r13 := o.r13; have r23 := o.r23
    simp only [dot] at r11 r22 r33 r12 r13 r23
    simp only [transform, h, if_true]
    generalize (x - TT.a) / SS = X at *
    generalize (y - TT.b) / SS = Y at *
    generalize (z - TT.c) / SS = Z at *
    congr 1
    · linear_combination (SS * X) * r11 + (SS * Y) * r12 + (SS * Z) * r13 + hX
    · linear_combination (SS * X) * r12 + (SS * Y) * r22 + (SS * Z) * r23 + hY
    · linear_combination (SS * X) * r13 + (SS * Y) * r23 + (SS * Z) * r33 + hZ
  · simp only [transform, h]
    simp only [Bool.false_eq_true, if_false]
    congr 1
    · linear_combination hX
    · linear_combination hY
    · linear_combination hZ

/-! ### epochs: every tuple is transformed with the parameters of its own epoch -/

section epochs
variable {R : Type} [Scalar R]

/-- the parameters in force for a tuple of epoch `t`: `P + (t - t_epoch)·dP` -/
def stateAt (p : Params R) (t : R) : LoopState R :=
  if p.dynamic && !p.fixedTime then
    let dt := t - p.epoch
    ⟨⟨p.T.a + dt * p.DT.a, p.T.b + dt * p.DT.b, p.T.c + dt * p.DT.c⟩, p.S + dt * p.DS,
     if p.rotated then
       rotationMatrix ⟨p.Rot.a + dt * p.DR.a, p.Rot.b + dt * p.DR.b, p.Rot.c + dt * p.DR.c⟩ p.exact p.positionVector
     else p.rotMatrix, t⟩
  else ⟨p.T, p.S, p.rotMatrix, t⟩

/-- the numeric content of a loop state (everything but the remembered epoch) -/
def sameParams (a b : LoopState R) : Prop := a.TT = b.TT ∧ a.SS = b.SS ∧ a.ROT = b.ROT

theorem transform_congr (p : Params R) (a b : LoopState R) (h : a.TT = b.TT ∧ a.SS = b.SS ∧ a.ROT = b.ROT)
    (dir : Dir) (c : Coor R) : transform p a dir c = transform p b dir c := by
  obtain ⟨h1, h2, h3⟩ := h
  cases dir <;> simp only [transform, h1, h2, h3]

/-- loop invariant: the state is the initial one (nothing remembered), or the one of the
remembered epoch -/
def Inv (p : Params R) (st : LoopState R) : Prop :=
  (st.prevT = Scalar.nan ∧ st.TT = p.T ∧ st.SS = p.S ∧ st.ROT = p.rotMatrix) ∨
  (st.TT = (stateAt p st.prevT).TT ∧ st.SS = (stateAt p st.prevT).SS ∧ st.ROT = (stateAt p st.prevT).ROT)

/-- **Epoch evaluation.**  For every reading of the scalars in which NaN is different from
everything (`hnan`) and `!=` being false means equality (`heq`) — IEEE arithmetic, signed zeros
apart — the stateful loop of `helmert_common` is the map that transforms every tuple with the
parameters evaluated at its own epoch.  It holds for all epoch sequences (mixed, repeated, in
any order), both directions, static and dynamic parameter sets, with and without `t_obs`. -/
theorem loop_eq_map (p : Params R) (dir : Dir)
    (hnan : ∀ t : R, Scalar.ne t (Scalar.nan : R) = true)
    (heq : ∀ a b : R, Scalar.ne a b = false → a = b)
    (st : LoopState R) (hinv : Inv p st) (data : List (Coor R)) :
    loop p dir st data = data.map (fun c => transform p (stateAt p c.c3) dir c) := by
  induction data generalizing st with
  | nil => rfl
  | cons c rest ih =>
    simp only [loop, List.map_cons]
    -- the state after `update` carries the parameters of `c`'s epoch
    have hupd : (update p st c.c3).TT = (stateAt p c.c3).TT ∧ (update p st c.c3).SS = (stateAt p c.c3).SS ∧
        (update p st c.c3).ROT = (stateAt p c.c3).ROT ∧ Inv p (update p st c.c3) := by
      by_cases hdyn : (p.dynamic && !p.fixedTime) = true
      · by_cases hne : Scalar.ne c.c3 st.prevT = true
        · -- parameters recomputed for this epoch
          have hROT : ¬ p.rotated = true → st.ROT = p.rotMatrix := by
            intro hr
            rcases hinv with h | h
            · exact h.2.2.2
            · rw [h.2.2]; simp [stateAt, hdyn, hr]
          by_cases hr : p.rotated = true
          · simp only [update, hdyn, hne, Bool.and_self, if_true, stateAt, hr]
            refine ⟨by first | rfl | trivial, by first | rfl | trivial, by first | rfl | trivial, Or.inr ?_⟩
            simp [stateAt, hdyn, hr]
          · have hr' : p.rotated = false := by simpa using hr
            simp only [update, hdyn, hne, Bool.and_self, if_true, stateAt, hr', Bool.false_eq_true, if_false]
            refine ⟨by first | rfl | trivial, by first | rfl | trivial, hROT hr, Or.inr ?_⟩
            simp [stateAt, hdyn, hr', hROT hr]
        · -- same epoch as the previous tuple: the state is kept, and it is the right one
          have hne' : Scalar.ne c.c3 st.prevT = false := by simpa using hne
          have hprev : c.c3 = st.prevT := heq _ _ hne'
          have hupd' : update p st c.c3 = st := by simp [update, hdyn, hne']
          rw [hupd']
          rcases hinv with h | h
          · exfalso
            have := hnan c.c3
            rw [← h.1, hne'] at this
            exact Bool.noConfusion this
          · rw [hprev]
            exact ⟨h.1, h.2.1, h.2.2, Or.inr h⟩
      · -- static parameters, or fixed observation time: nothing ever changes
        have hdyn' : (p.dynamic && !p.fixedTime) = false := by simpa using hdyn
        have hupd' : update p st c.c3 = st := by simp [update, hdyn']
        have hstat : ∀ t : R, (stateAt p t).TT = p.T ∧ (stateAt p t).SS = p.S ∧ (stateAt p t).ROT = p.rotMatrix := by
          intro t; simp [stateAt, hdyn']
        rw [hupd']
        rcases hinv with h | h
        · exact ⟨by rw [h.2.1, (hstat _).1], by rw [h.2.2.1, (hstat _).2.1], by rw [h.2.2.2, (hstat _).2.2], Or.inl h⟩
        · refine ⟨by rw [h.1, (hstat _).1, (hstat _).1], by rw [h.2.1, (hstat _).2.1, (hstat _).2.1],
            by rw [h.2.2, (hstat _).2.2, (hstat _).2.2], Or.inr h⟩
    obtain ⟨h1, h2, h3, h4⟩ := hupd
    rw [transform_congr p _ _ ⟨h1, h2, h3⟩, ih _ h4]

/-- the loop starts in a state satisfying the invariant -/
theorem init_inv (p : Params R) : Inv p (initState p) := Or.inl ⟨rfl, rfl, rfl, rfl⟩

/-- **Fixing `t_obs` is giving every tuple that epoch** (the constructor folds `t_obs` into the
parameters): a constructor-level statement on the derived parameters.  With `dynamic` and a
non-NaN `t_obs`, the stored `T`, `R`, `S` are `P + (t_obs - t_epoch)·dP`. -/
theorem t_obs_folding (T DT Rr DR : V3 R) (S0 DS tObs epoch : R) :
    let dt := tObs - epoch
    (⟨T.a + DT.a * dt, T.b + DT.b * dt, T.c + DT.c * dt⟩ : V3 R) =
      ⟨T.a + DT.a * (tObs - epoch), T.b + DT.b * (tObs - epoch), T.c + DT.c * (tObs - epoch)⟩ ∧
    S0 + DS * dt = S0 + DS * (tObs - epoch) := ⟨rfl, rfl⟩

end epochs

/-- in the reals the folded parameters are those of `stateAt` at `t = t_obs` (multiplication
commutes there; in floating point it does bit for bit as well) -/
theorem t_obs_equiv (T DT : V3 ℝ) (S0 DS tObs epoch : ℝ) :
    T.a + DT.a * (tObs - epoch) = T.a + (tObs - epoch) * DT.a ∧
    S0 + DS * (tObs - epoch) = S0 + (tObs - epoch) * DS := by
  constructor <;> ring

/-! ### non-vacuity -/

example : Orthogonal (rotationMatrix (⟨0, 0, 0⟩ : V3 ℝ) true false) := rot_orthogonal _ _
example : ∃ st : LoopState ℝ, st.SS ≠ 0 ∧ Orthogonal st.ROT :=
  ⟨⟨⟨1, 2, 3⟩, 2, rotationMatrix ⟨1, 2, 3⟩ true true, 0⟩, by norm_num, by exact rot_orthogonal ⟨1, 2, 3⟩ true⟩

end C07
end Geodesy
