/-
C12, second module — the laws that make the inverse direction an inverse.

The statement says how a stack program runs backwards: push and pop exchanged (argument lists
reversed), roll and unroll exchanged, swap unchanged.  That this *undoes* the forward step is a
property of the column machine of `stack.rs` (`Geodesy/Model/Stack.lean`), proved here for every
element type, every number of operands, every stack and every argument list:

* `push_undone`: a push followed by its inverse leaves stack and operands as they were;
* `pop_undone_stack`: a pop (with distinct arguments, enough stack) followed by its inverse restores the stack;
* `swap_swap`: swap is an involution;
* `roll_unroll`, `unroll_roll`: `roll=m,n` followed by `unroll=m,n` (its inverse) is the identity on the
  stack, for every `|n| < m ≤ depth` — the window of `m` columns is rotated `m` (or `2m`) times in all.
-/
import Geodesy.Lemmas.Stack
import Mathlib.Data.List.Rotate
import Mathlib.Tactic.Ring

namespace Geodesy
namespace C12
open Stack StackLemmas
variable {α : Type}

/-! ### push, then its inverse -/

theorem coor_set_get (c : Coor α) (a : Fin 4) : c.set a (c.get a) = c := by
  cases c
  match a with
  | 0 => rfl
  | 1 => rfl
  | 2 => rfl
  | 3 => rfl

/-- writing back the column just gathered changes nothing -/
theorem scatter_gather (ops : Data α) (a : Fin 4) : scatter ops a (ops.map (·.get a)) = ops := by
  unfold scatter
  induction ops with
  | nil => rfl
  | cons c rest ih => simp only [List.map_cons, List.zipWith_cons_cons, coor_set_get, ih]

theorem scatterFold_gather (ops : Data α) (args : List (Fin 4)) :
    (args.zip (args.map fun a => ops.map (·.get a))).foldl (fun o p => scatter o p.1 p.2) ops = ops := by
  induction args with
  | nil => rfl
  | cons a rest ih => simp only [List.map_cons, List.zip_cons_cons, List.foldl_cons, scatter_gather, ih]

/-- **a push followed by its inverse (the pop of the reversed list) leaves the stack and the operands
exactly as they were, and counts every operand** -/
theorem push_undone (nan : α) (cols : Cols α) (ops : Data α) (args : List (Fin 4)) :
    let s := fwd nan cols ops (.push args)
    inv nan s.1 s.2.1 (.push args) = (cols, ops, ops.length) := by
  simp only [fwd, inv, push, pop, List.length_append, List.length_map, List.length_reverse]
  have h1 : ¬ (cols.length + args.length < args.length) := by omega
  simp only [h1, if_false, Nat.add_sub_cancel, List.drop_left, List.take_left]
  rw [← List.map_reverse]
  rw [scatterFold_gather]


/-! ### pop, then its inverse -/

theorem coor_get_set_same (c : Coor α) (a : Fin 4) (v : α) : (c.set a v).get a = v := by
  cases c
  match a with
  | 0 => rfl
  | 1 => rfl
  | 2 => rfl
  | 3 => rfl

theorem coor_get_set_ne (c : Coor α) (a b : Fin 4) (v : α) (h : a ≠ b) : (c.set a v).get b = c.get b := by
  cases c
  match a, b with
  | 0, 0 => exact absurd rfl h
  | 1, 1 => exact absurd rfl h
  | 2, 2 => exact absurd rfl h
  | 3, 3 => exact absurd rfl h
  | 0, 1 => rfl
  | 0, 2 => rfl
  | 0, 3 => rfl
  | 1, 0 => rfl
  | 1, 2 => rfl
  | 1, 3 => rfl
  | 2, 0 => rfl
  | 2, 1 => rfl
  | 2, 3 => rfl
  | 3, 0 => rfl
  | 3, 1 => rfl
  | 3, 2 => rfl

/-- after writing values to distinct elements, each of those elements holds its value -/
theorem setFold_get (pairs : List (Fin 4 × α)) (c : Coor α) (hnd : (pairs.map (·.1)).Nodup) (p : Fin 4 × α) (hp : p ∈ pairs) :
    (pairs.foldl (fun x q => x.set q.1 q.2) c).get p.1 = p.2 := by
  induction pairs generalizing c with
  | nil => cases hp
  | cons q rest ih =>
    simp only [List.map_cons, List.nodup_cons] at hnd
    simp only [List.foldl_cons]
    rcases List.mem_cons.mp hp with rfl | hp
    · -- later writes go elsewhere
      have keep : ∀ (l : List (Fin 4 × α)) (x : Coor α), p.1 ∉ l.map (·.1) →
          (l.foldl (fun x q => x.set q.1 q.2) x).get p.1 = x.get p.1 := by
        intro l
        induction l with
        | nil => intro x _; rfl
        | cons r l ihl =>
          intro x hnot
          simp only [List.map_cons, List.mem_cons, not_or] at hnot
          simp only [List.foldl_cons]
          rw [ihl _ hnot.2, coor_get_set_ne _ _ _ _ (fun h => hnot.1 h.symm)]
      rw [keep rest _ hnd.1, coor_get_set_same]
    · exact ih _ hnd.2 hp

theorem scatterFold_length (pairs : List (Fin 4 × List α)) (ops : Data α) (h : ∀ p ∈ pairs, p.2.length = ops.length) :
    (pairs.foldl (fun o p => scatter o p.1 p.2) ops).length = ops.length := by
  induction pairs generalizing ops with
  | nil => rfl
  | cons p rest ih =>
    have hp : p.2.length = ops.length := h p (List.mem_cons_self ..)
    have hlen := scatter_length ops p.1 p.2 hp
    simp only [List.foldl_cons]
    rw [ih _ (fun q hq => by rw [hlen]; exact h q (List.mem_cons_of_mem _ hq)), hlen]

/-- **a pop with distinct arguments followed by its inverse (the push of the reversed list) restores
the stack** (the operands keep what the pop wrote: the values they held before are gone) -/
theorem pop_undone_stack (nan : α) (cols : Cols α) (ops : Data α) (args : List (Fin 4))
    (hok : ColsOk ops.length cols) (hd : args.length ≤ cols.length) (hnd : args.Nodup) :
    let s := fwd nan cols ops (.pop args)
    (inv nan s.1 s.2.1 (.pop args)).1 = cols := by
  have h1 : ¬ cols.length < args.length := by omega
  simp only [fwd, inv, pop, push, h1, if_false]
  set k := args.length with hk
  set ext := (cols.drop (cols.length - k)).reverse with hext
  have hextlen : ext.length = k := by simp [hext]; omega
  have hextok : ∀ e ∈ ext, e.length = ops.length := by
    intro e he
    rw [hext, List.mem_reverse] at he
    exact hok e (List.mem_of_mem_drop he)
  set ops' := (args.zip ext).foldl (fun o p => scatter o p.1 p.2) ops with hops'
  -- the column of element `a_j` after the pop is the `j`-th column popped
  have hcol : ∀ p ∈ args.zip ext, ops'.map (·.get p.1) = p.2 := by
    intro p hp
    have hplen : p.2.length = ops.length := hextok p.2 (List.of_mem_zip hp).2
    apply List.ext_getElem
    · have hl : ops'.length = ops.length :=
        scatterFold_length (args.zip ext) ops (fun q hq => hextok q.2 (List.of_mem_zip hq).2)
      simp [hl, hplen]
    · intro i h1 h2
      simp only [List.length_map] at h1
      have hi : i < ops.length := by rw [← hplen]; exact h2
      obtain ⟨c, hc⟩ : ∃ c, ops[i]? = some c := ⟨ops[i], List.getElem?_eq_getElem hi⟩
      have hf := (scatterFold_get nan (args.zip ext) ops i c
        (fun q hq => hextok q.2 (List.of_mem_zip hq).2) hc).1
      simp only [List.getElem_map]
      have hget : ops'[i] = (args.zip ext).foldl (fun x p => x.set p.1 (p.2.getD i nan)) c := by
        have := List.getElem?_eq_getElem h1
        rw [hf] at this
        exact (Option.some.inj this).symm
      rw [hget]
      have hfold : (args.zip ext).foldl (fun x p => x.set p.1 (p.2.getD i nan)) c =
          ((args.zip ext).map fun p => (p.1, p.2.getD i nan)).foldl (fun x q => x.set q.1 q.2) c := by
        rw [List.foldl_map]
      rw [hfold]
      have hmem : (p.1, p.2.getD i nan) ∈ (args.zip ext).map fun p => (p.1, p.2.getD i nan) :=
        List.mem_map.mpr ⟨p, hp, rfl⟩
      have hnd' : (((args.zip ext).map fun p => (p.1, p.2.getD i nan)).map (·.1)).Nodup := by
        rw [List.map_map]
        have : ((fun q : Fin 4 × α => q.1) ∘ fun p : Fin 4 × List α => (p.1, p.2.getD i nan)) = fun p => p.1 := rfl
        rw [this, List.map_fst_zip (by omega)]
        exact hnd
      have := setFold_get _ c hnd' _ hmem
      simp only at this
      rw [this, List.getD_eq_getElem?_getD, List.getElem?_eq_getElem h2]; rfl
  -- the push of the reversed list appends exactly the columns taken off
  have hpush : args.reverse.map (fun a => ops'.map (·.get a)) = cols.drop (cols.length - k) := by
    have hz : (args.zip ext).map (fun p => ops'.map (·.get p.1)) = (args.zip ext).map (·.2) :=
      List.map_congr_left hcol
    have h1' : (args.zip ext).map (fun p => ops'.map (·.get p.1)) = args.map (fun a => ops'.map (·.get a)) := by
      have : (fun p : Fin 4 × List α => ops'.map (·.get p.1)) = (fun a => ops'.map (·.get a)) ∘ Prod.fst := rfl
      rw [this, ← List.map_map, List.map_fst_zip (by omega)]
    have h2' : (args.zip ext).map (·.2) = ext := List.map_snd_zip (by omega)
    rw [List.map_reverse, ← h1', hz, h2', hext, List.reverse_reverse]
  rw [hpush, List.take_append_drop]

/-! ### swap -/

/-- **swap is an involution on the stack** -/
theorem swap_swap (cols : Cols α) (ops : Data α) : (swap (swap cols ops).1 ops).1 = cols := by
  unfold swap
  by_cases h : cols.length > 1
  · simp only [h, if_true, List.length_set]
    apply List.ext_getElem?
    intro i
    have h1 : cols.length - 1 < cols.length := by omega
    have h2 : cols.length - 2 < cols.length := by omega
    have hne : cols.length - 1 ≠ cols.length - 2 := by omega
    simp only [List.getD_eq_getElem?_getD, List.getElem?_set, List.length_set]
    by_cases hi2 : cols.length - 2 = i
    · subst hi2
      simp [h1, h2, hne.symm]
    · by_cases hi1 : cols.length - 1 = i
      · subst hi1
        simp [h1, h2, hne.symm]
      · simp [hi1, hi2]
  · simp [h]

/-! ### roll and unroll -/

/-- one round of the loop of `stack_roll` rotates the window of the top `m` columns by one -/
theorem rollOnce_rotate (m : Nat) (pre w : Cols α) (hw : w.length = m) (hm : 0 < m) :
    rollOnce (pre ++ w).length m (pre ++ w) = pre ++ w.rotate (m - 1) := by
  have hne : w ≠ [] := by intro h; rw [h] at hw; simp at hw; omega
  obtain ⟨w', e, rfl⟩ : ∃ w' e, w = w' ++ [e] := ⟨w.dropLast, w.getLast hne, (List.dropLast_append_getLast hne).symm⟩
  have hw' : w'.length = m - 1 := by simp at hw; omega
  unfold rollOnce
  have hlast : (pre ++ (w' ++ [e])).getLast? = some e := by simp
  simp only [hlast]
  have hdl : (pre ++ (w' ++ [e])).dropLast = pre ++ w' := by
    rw [← List.append_assoc, List.dropLast_concat]
  have hlen : (pre ++ (w' ++ [e])).length - m = pre.length := by simp; omega
  rw [hdl, hlen, List.take_left, List.drop_left]
  rw [List.rotate_eq_drop_append_take (by simp; omega)]
  have : m - 1 = w'.length := hw'.symm
  rw [this, List.drop_left, List.take_left]
  simp

theorem rollRepeat_rotate (m k : Nat) (pre w : Cols α) (hw : w.length = m) (hm : 0 < m) :
    Nat.repeat (rollOnce (pre ++ w).length m) k (pre ++ w) = pre ++ w.rotate (k * (m - 1)) := by
  induction k with
  | zero => simp [Nat.repeat]
  | succ k ih =>
    simp only [Nat.repeat, ih]
    have hl : (pre ++ w).length = (pre ++ w.rotate (k * (m - 1))).length := by simp
    rw [hl, rollOnce_rotate m pre _ (by simp [hw]) hm, List.rotate_rotate]
    congr 2
    ring

/-- rotating the window a multiple of `m` times brings every column back -/
theorem rollRepeat_period (m j : Nat) (cols : Cols α) (hm : 0 < m) (hd : m ≤ cols.length) :
    Nat.repeat (rollOnce cols.length m) (m * j) cols = cols := by
  have hsplit : cols = cols.take (cols.length - m) ++ cols.drop (cols.length - m) := (List.take_append_drop _ _).symm
  have hw : (cols.drop (cols.length - m)).length = m := by simp; omega
  have := rollRepeat_rotate m (m * j) (cols.take (cols.length - m)) (cols.drop (cols.length - m)) hw hm
  rw [← hsplit] at this
  rw [this]
  have : m * j * (m - 1) = (cols.drop (cols.length - m)).length * (j * (m - 1)) := by rw [hw]; ring
  rw [this, List.rotate_length_mul]
  exact hsplit.symm

theorem repeat_add {β : Type} (f : β → β) (a b : Nat) (x : β) : Nat.repeat f a (Nat.repeat f b x) = Nat.repeat f (a + b) x := by
  induction a with
  | zero => simp [Nat.repeat]
  | succ a ih => rw [Nat.succ_add]; simp only [Nat.repeat, ih]

theorem rollRepeat_length (depth m k : Nat) (cols : Cols α) : (Nat.repeat (rollOnce depth m) k cols).length = cols.length := by
  induction k with
  | zero => rfl
  | succ k ih => simp only [Nat.repeat, rollOnce_length, ih]

/-- **`roll=m,n` followed by `unroll=m,n` (which is how the inverse direction runs a roll) leaves the
stack as it was**, for every `0 < m ≤ depth`, `|n| < m`, operands untouched and counted -/
theorem roll_unroll (nan : α) (cols : Cols α) (ops : Data α) (m n : Int)
    (hm : 0 < m) (hn : n.natAbs < m.natAbs) (hd : m.natAbs ≤ cols.length) :
    let s := fwd nan cols ops (.roll m n)
    inv nan s.1 s.2.1 (.roll m n) = (cols, ops, ops.length) := by
  have hmm : (m.natAbs : Int) = m := Int.natAbs_of_nonneg (Int.le_of_lt hm)
  have hmpos : 0 < m.natAbs := by omega
  have h1 : ¬ m.natAbs > cols.length := by omega
  simp only [fwd, inv, roll]
  simp only [rollRepeat_length, h1, if_false]
  rw [repeat_add]
  by_cases hneg : n < 0
  · have h2 : ¬ (m - n < 0) := by omega
    simp only [hneg, h2, if_true, if_false]
    have : (m - n).toNat + ((m.natAbs : Int) + n).toNat = m.natAbs * 2 := by omega
    rw [this, rollRepeat_period m.natAbs 2 cols hmpos hd]
  · have h2 : ¬ (m - n < 0) := by omega
    simp only [hneg, h2, if_false]
    have : (m - n).toNat + n.toNat = m.natAbs * 1 := by omega
    rw [this, rollRepeat_period m.natAbs 1 cols hmpos hd]

/-- … and the other way round -/
theorem unroll_roll (nan : α) (cols : Cols α) (ops : Data α) (m n : Int)
    (hm : 0 < m) (hn : n.natAbs < m.natAbs) (hd : m.natAbs ≤ cols.length) :
    let s := fwd nan cols ops (.unroll m n)
    inv nan s.1 s.2.1 (.unroll m n) = (cols, ops, ops.length) := by
  have hmm : (m.natAbs : Int) = m := Int.natAbs_of_nonneg (Int.le_of_lt hm)
  have hmpos : 0 < m.natAbs := by omega
  have h1 : ¬ m.natAbs > cols.length := by omega
  simp only [fwd, inv, roll]
  simp only [rollRepeat_length, h1, if_false]
  rw [repeat_add]
  by_cases hneg : n < 0
  · have h2 : ¬ (m - n < 0) := by omega
    simp only [hneg, h2, if_true, if_false]
    have : ((m.natAbs : Int) + n).toNat + (m - n).toNat = m.natAbs * 2 := by omega
    rw [this, rollRepeat_period m.natAbs 2 cols hmpos hd]
  · have h2 : ¬ (m - n < 0) := by omega
    simp only [hneg, h2, if_false]
    have : n.toNat + (m - n).toNat = m.natAbs * 1 := by omega
    rw [this, rollRepeat_period m.natAbs 1 cols hmpos hd]

/-! ### non-vacuity -/

example : (3 : Int).natAbs ≤ ([[1], [2], [3], [4]] : Cols Nat).length ∧ (-2 : Int).natAbs < (3 : Int).natAbs := by decide
example : (fwd 0 ([[1], [2], [3], [4]] : Cols Nat) [⟨7, 7, 7, 7⟩] (.roll 3 (-2))).1 = [[1], [4], [2], [3]] := by decide

end C12
end Geodesy
