/-
C16, third module — **normalising is idempotent on normal forms**: a text in normal form is a fixed point
of `normalize`.

The normal form is given as a decidable predicate `NF` that does not mention `normalize`: the text starts and
ends with a character that is neither white space nor a colon; every white space character is a single blank
between two other characters; there is no line end and no comment; and none of the patterns `normalize`
rewrites occurs (a blank next to `= : , |`, the sugar `<` `>`, a subscript index, `$ `).  For such a text every
one of the fourteen stages of `normalize` is the identity — so what `normalize` delivers, whenever it is of
this form (the correspondence run checks that on every generated definition; a few instances are decided below),
is not changed by normalising it again.
-/
import Geodesy.Props.C16b

namespace Geodesy
namespace C16
open Text

/-- a pattern that does not occur is not replaced -/
theorem replaceAux_noocc (pat to : Str) (s : Str) (h : containsStr pat s = false) :
    replaceAux pat to 0 s = s := by
  induction s with
  | nil => rfl
  | cons c cs ih =>
    simp only [containsStr, Bool.or_eq_false_iff] at h
    simp only [replaceAux, h.1, Bool.false_eq_true, if_false]
    rw [ih h.2]

theorem replace_noocc (pat to : Str) (s : Str) (h : containsStr pat s = false) : replace pat to s = s :=
  replaceAux_noocc pat to s h

theorem replaceAll_noocc (rs : List (Str × Str)) (s : Str) (h : ∀ r ∈ rs, containsStr r.1 s = false) :
    replaceAll rs s = s := by
  unfold replaceAll
  induction rs with
  | nil => rfl
  | cons r rs ih =>
    rw [List.foldl_cons, replace_noocc _ _ _ (h r (List.mem_cons_self ..))]
    exact ih fun r' hr' => h r' (List.mem_cons_of_mem _ hr')

/-- white space occurs only as a single blank followed by something that is not white space; the text does
not end in white space -/
def spacedOk : Str → Bool
  | [] => true
  | [c] => !isWs c
  | a :: b :: r => (if isWs a then a == ' ' && !isWs b else true) && spacedOk (b :: r)

theorem spacedOk_tail (a : Char) (r : Str) (h : spacedOk (a :: r) = true) : spacedOk r = true := by
  cases r with
  | nil => rfl
  | cons b r => simp only [spacedOk, Bool.and_eq_true] at h; exact h.2

theorem spacedOk_last (s : Str) (h : spacedOk s = true) (c : Char) (hc : s.getLast? = some c) : isWs c = false := by
  induction s with
  | nil => simp at hc
  | cons a r ih =>
    cases r with
    | nil =>
      simp only [List.getLast?_singleton, Option.some.injEq] at hc
      simp only [spacedOk, Bool.not_eq_true'] at h
      rw [← hc]; exact h
    | cons b r =>
      rw [List.getLast?_cons_cons] at hc
      exact ih (spacedOk_tail a _ h) hc

/-- text whose first character stops `p`: nothing is dropped -/
theorem dropWhile_head_false {β : Type} (p : β → Bool) (l : List β) (h : ∀ c, l.head? = some c → p c = false) :
    l.dropWhile p = l := by
  cases l with
  | nil => rfl
  | cons a r => simp [List.dropWhile_cons, h a rfl]

theorem trim_fixed (s : Str) (hh : ∀ c, s.head? = some c → isWs c = false)
    (hl : ∀ c, s.getLast? = some c → isWs c = false) : trim s = s := by
  unfold trim trimEnd trimStart
  rw [dropWhile_head_false isWs s hh, dropWhile_head_false isWs s.reverse (by rw [List.head?_reverse]; exact hl),
    List.reverse_reverse]

theorem trimMatches_fixed (ch : Char) (s : Str) (hh : ∀ c, s.head? = some c → c ≠ ch)
    (hl : ∀ c, s.getLast? = some c → c ≠ ch) : trimMatches ch s = s := by
  unfold trimMatches
  rw [dropWhile_head_false _ s (fun c hc => by simpa using hh c hc),
    dropWhile_head_false _ s.reverse (fun c hc => by rw [List.head?_reverse] at hc; simpa using hl c hc),
    List.reverse_reverse]

theorem join_cons_of_ne_nil (sep a : Str) (rest : List Str) (h : rest ≠ []) :
    join sep (a :: rest) = a ++ sep ++ join sep rest := by
  cases rest with
  | nil => exact absurd rfl h
  | cons b r => rfl

theorem join_eq_nil_of_nil (sep : Str) : join sep [] = [] := rfl

theorem splitWsAux_ws (c : Char) (cs cur : Str) (hc : isWs c = true) (hcur : cur.isEmpty = false) :
    splitWsAux (c :: cs) cur = cur.reverse :: splitWsAux cs [] := by
  simp [splitWsAux, hc, hcur]

theorem splitWsAux_nows (c : Char) (cs cur : Str) (hc : isWs c = false) :
    splitWsAux (c :: cs) cur = splitWsAux cs (c :: cur) := by
  simp [splitWsAux, hc]

/-- splitting a single-spaced text at white space and joining the words with single blanks gives the text
back (`cur`: the word being read, reversed) -/
theorem join_splitWsAux (s cur : Str) (hs : spacedOk s = true)
    (hstart : cur = [] → ∀ c, s.head? = some c → isWs c = false) :
    join (S " ") (splitWsAux s cur) = cur.reverse ++ s := by
  induction s generalizing cur with
  | nil =>
    cases cur with
    | nil => rfl
    | cons x xs => simp [splitWsAux, join]
  | cons c cs ih =>
    by_cases hc : isWs c = true
    · -- a blank: the word ends here, and another one follows
      have hcur : cur ≠ [] := by
        intro e
        have := hstart e c rfl
        rw [hc] at this; exact absurd this (by simp)
      cases cs with
      | nil => simp [spacedOk, hc] at hs
      | cons b r =>
        simp only [spacedOk, hc, if_true, Bool.and_eq_true, beq_iff_eq, Bool.not_eq_true'] at hs
        obtain ⟨⟨hsp, hb⟩, hrest⟩ := hs
        have ih' := ih [] hrest (fun _ c' hc' => by simp only [List.head?_cons, Option.some.injEq] at hc'; rw [← hc']; exact hb)
        have hne : splitWsAux (b :: r) [] ≠ [] := by
          intro e
          rw [e] at ih'
          simp [join] at ih'
        have hce : cur.isEmpty = false := by cases cur with | nil => exact absurd rfl hcur | cons _ _ => rfl
        rw [splitWsAux_ws c (b :: r) cur hc hce, join_cons_of_ne_nil _ _ _ hne, ih', hsp]
        simp [S]
    · have hc' : isWs c = false := by simpa using hc
      rw [splitWsAux_nows c cs cur hc', ih (c :: cur) (spacedOk_tail c cs hs) (fun e => by simp at e)]
      simp

theorem join_splitWs_fixed (s : Str) (hs : spacedOk s = true) (hh : ∀ c, s.head? = some c → isWs c = false) :
    join (S " ") (splitWs s) = s := by
  have := join_splitWsAux s [] hs (fun _ => hh)
  simpa [splitWs] using this

/-- every pattern `normalize` rewrites -/
def rewritten : List Str :=
  [S "\r\n", S "\r", S "\n:"] ++ glue.map (·.1) ++ [S ">", S "<"] ++ subscripts.map (·.1) ++ [S "$ "]

/-- the normal form, without reference to `normalize` -/
structure NF (s : Str) : Prop where
  nonempty : s ≠ []
  first : ∀ c, s.head? = some c → isWs c = false ∧ c ≠ ':'
  last : ∀ c, s.getLast? = some c → c ≠ ':'
  spaced : spacedOk s = true
  oneLine : '\n' ∉ s
  noComment : '#' ∉ s
  noPattern : ∀ p ∈ rewritten, containsStr p s = false

/-- **a text in normal form is a fixed point of `normalize`** -/
theorem normalize_fixed (s : Str) (h : NF s) : normalize s = s := by
  have hp : ∀ p ∈ rewritten, containsStr p s = false := h.noPattern
  have hfw : ∀ c, s.head? = some c → isWs c = false := fun c hc => (h.first c hc).1
  have hlw := spacedOk_last s h.spaced
  have e1 : trim s = s := trim_fixed s hfw hlw
  have e2 : replace (S "\r\n") (S "\n") s = s := replace_noocc _ _ _ (hp _ (by decide))
  have e3 : replace (S "\r") (S "\n") s = s := replace_noocc _ _ _ (hp _ (by decide))
  have e4 : replace (S "\n:") (S "\n") s = s := replace_noocc _ _ _ (hp _ (by decide))
  have e5 : join (S "\n") ((lines s).map fun line => (splitOn '#' line).headD []) = s := by
    rw [lines_single s h.oneLine h.nonempty]
    simp only [List.map_cons, List.map_nil, splitOn, splitOnAux_absent '#' s [] h.noComment]
    rfl
  have e6 : trimMatches ':' s = s := trimMatches_fixed ':' s (fun c hc => (h.first c hc).2) h.last
  have e7 : join (S " ") (splitWs s) = s := join_splitWs_fixed s h.spaced hfw
  have e8 : replaceAll glue s = s := replaceAll_noocc glue s fun r hr => hp _ (by
    simp only [rewritten, List.mem_append, List.mem_map]
    exact Or.inl (Or.inl (Or.inl (Or.inr ⟨r, hr, rfl⟩))))
  have e9 : replace (S ">") (S "|omit_inv ") s = s := replace_noocc _ _ _ (hp _ (by decide))
  have e10 : replace (S "<") (S "|omit_fwd ") s = s := replace_noocc _ _ _ (hp _ (by decide))
  have e11 : replaceAll subscripts s = s := replaceAll_noocc subscripts s fun r hr => hp _ (by
    simp only [rewritten, List.mem_append, List.mem_map]
    exact Or.inl (Or.inr ⟨r, hr, rfl⟩))
  have e12 : replace (S "$ ") (S "$") s = s := replace_noocc _ _ _ (hp _ (by decide))
  unfold normalize
  simp only [e1, e2, e3, e4, e5, e6, e7, e8, e9, e10, e11, e12]

/-- hence **normalising twice is normalising once**, whenever the first result is in normal form -/
theorem normalize_idempotent (s : Str) (h : NF (normalize s)) : normalize (normalize s) = normalize s :=
  normalize_fixed _ h

/-! ### what `normalize` delivers is single-spaced, whatever it is given -/

/-- a word: not empty, no white space -/
def Word (w : Str) : Prop := w ≠ [] ∧ ∀ c ∈ w, isWs c = false

theorem splitWsAux_words (s cur : Str) (hcur : ∀ c ∈ cur, isWs c = false) : ∀ w ∈ splitWsAux s cur, Word w := by
  induction s generalizing cur with
  | nil =>
    cases cur with
    | nil => simp [splitWsAux]
    | cons x xs =>
      intro w hw
      simp only [splitWsAux, List.isEmpty_cons, Bool.false_eq_true, if_false, List.mem_singleton] at hw
      rw [hw]
      exact ⟨by simp, fun c hc => hcur c (List.mem_reverse.mp hc)⟩
  | cons c cs ih =>
    by_cases hc : isWs c = true
    · cases cur with
      | nil =>
        intro w hw
        have : splitWsAux (c :: cs) [] = splitWsAux cs [] := by simp [splitWsAux, hc]
        rw [this] at hw
        exact ih [] (by simp) w hw
      | cons x xs =>
        intro w hw
        rw [splitWsAux_ws c cs (x :: xs) hc rfl] at hw
        rcases List.mem_cons.mp hw with e | hw
        · rw [e]; exact ⟨by simp, fun c' hc' => hcur c' (List.mem_reverse.mp hc')⟩
        · exact ih [] (by simp) w hw
    · have hc' : isWs c = false := by simpa using hc
      intro w hw
      rw [splitWsAux_nows c cs cur hc'] at hw
      exact ih (c :: cur) (fun c' hm => by
        rcases List.mem_cons.mp hm with e | hm
        · rw [e]; exact hc'
        · exact hcur c' hm) w hw

theorem spacedOk_word (w : Str) (h : ∀ c ∈ w, isWs c = false) : spacedOk w = true := by
  induction w with
  | nil => rfl
  | cons a r ih =>
    cases r with
    | nil => simp [spacedOk, h a (List.mem_cons_self ..)]
    | cons b r =>
      simp only [spacedOk, h a (List.mem_cons_self ..), Bool.false_eq_true, if_false, Bool.true_and]
      exact ih fun c hc => h c (List.mem_cons_of_mem _ hc)

theorem spacedOk_append (w t : Str) (hw : Word w) (ht : spacedOk t = true) (hne : t ≠ [])
    (hh : ∀ c, t.head? = some c → isWs c = false) : spacedOk (w ++ ' ' :: t) = true := by
  obtain ⟨hwne, hwall⟩ := hw
  induction w with
  | nil => exact absurd rfl hwne
  | cons a r ih =>
    have ha := hwall a (List.mem_cons_self ..)
    cases r with
    | nil =>
      cases t with
      | nil => exact absurd rfl hne
      | cons y t' =>
        have hy := hh y rfl
        have hsp : isWs ' ' = true := by decide
        simp [spacedOk, ha, hsp, hy, ht]
    | cons b r =>
      have := ih (by simp) (fun c hc => hwall c (List.mem_cons_of_mem _ hc))
      simp only [List.cons_append, spacedOk, ha, Bool.false_eq_true, if_false, Bool.true_and] at this ⊢
      exact this

theorem join_words (words : List Str) (h : ∀ w ∈ words, Word w) :
    spacedOk (join (S " ") words) = true ∧ (∀ c, (join (S " ") words).head? = some c → isWs c = false) ∧
      (words ≠ [] → join (S " ") words ≠ []) := by
  induction words with
  | nil => exact ⟨rfl, by simp [join], fun hh => absurd rfl hh⟩
  | cons w rest ih =>
    have hw := h w (List.mem_cons_self ..)
    cases rest with
    | nil =>
      refine ⟨spacedOk_word w hw.2, ?_, fun _ => hw.1⟩
      intro c hc
      cases w with
      | nil => simp [join] at hc
      | cons a r => simp only [join, List.head?_cons, Option.some.injEq] at hc; rw [← hc]; exact hw.2 a (List.mem_cons_self ..)
    | cons b r =>
      obtain ⟨i1, i2, i3⟩ := ih fun w' hw' => h w' (List.mem_cons_of_mem _ hw')
      have e : join (S " ") (w :: b :: r) = w ++ ' ' :: join (S " ") (b :: r) := by simp [join, S]
      rw [e]
      refine ⟨spacedOk_append w _ hw i1 (i3 (by simp)) i2, ?_, by cases w <;> simp⟩
      intro c hc
      cases w with
      | nil => exact absurd rfl hw.1
      | cons a r' => simp only [List.cons_append, List.head?_cons, Option.some.injEq] at hc; rw [← hc]; exact hw.2 a (List.mem_cons_self ..)

/-- **whatever the text, its normal form is single-spaced**: white space occurs in it only as single blanks
between words, never at either end -/
theorem normalize_single_spaced (s : Str) :
    spacedOk (normalize s) = true ∧ ∀ c, (normalize s).head? = some c → isWs c = false := by
  have hx : ∃ x, normalize s = join (S " ") (splitWs x) := ⟨_, rfl⟩
  obtain ⟨x, hx⟩ := hx
  rw [hx]
  have := join_words (splitWs x) (splitWsAux_words x [] (by simp))
  exact ⟨this.1, this.2.1⟩

/-- a single-spaced text holds no line end -/
theorem spacedOk_no_newline (s : Str) (h : spacedOk s = true) : '\n' ∉ s := by
  induction s with
  | nil => simp
  | cons a r ih =>
    intro hm
    rcases List.mem_cons.mp hm with e | hm
    · cases r with
      | nil => rw [← e] at h; simp [spacedOk] at h; revert h; decide
      | cons b r =>
        rw [← e] at h
        have hws : isWs '\n' = true := by decide
        simp only [spacedOk, hws, if_true, Bool.and_eq_true, beq_iff_eq] at h
        exact absurd h.1.1 (by decide)
    · exact ih (spacedOk_tail a r h) hm

/-- **normalising twice is normalising once** for every text whose normal form is not empty, has no colon at
either end, no `#` left, and none of the rewritten patterns left (the conditions that single-spacing does not
give by itself) -/
theorem normalize_idempotent_of (s : Str) (hne : normalize s ≠ [])
    (hfirst : ∀ c, (normalize s).head? = some c → c ≠ ':') (hlast : ∀ c, (normalize s).getLast? = some c → c ≠ ':')
    (hc : '#' ∉ normalize s) (hp : ∀ p ∈ rewritten, containsStr p (normalize s) = false) :
    normalize (normalize s) = normalize s := by
  obtain ⟨h1, h2⟩ := normalize_single_spaced s
  exact normalize_fixed _ ⟨hne, fun c hh => ⟨h2 c hh, hfirst c hh⟩, hlast, h1, spacedOk_no_newline _ h1, hc, hp⟩

/-- `NF` is decidable piece by piece: a checker, and its soundness -/
def isNF (s : Str) : Bool :=
  !s.isEmpty
  && (match s.head? with | some c => !isWs c && c != ':' | none => true)
  && (match s.getLast? with | some c => c != ':' | none => true)
  && spacedOk s && !s.contains '\n' && !s.contains '#'
  && rewritten.all fun p => !containsStr p s

theorem isNF_sound (s : Str) (h : isNF s = true) : NF s := by
  simp only [isNF, Bool.and_eq_true, Bool.not_eq_true', List.all_eq_true] at h
  obtain ⟨⟨⟨⟨⟨⟨h1, h2⟩, h3⟩, h4⟩, h5⟩, h6⟩, h7⟩ := h
  refine ⟨?_, ?_, ?_, h4, ?_, ?_, ?_⟩
  · intro e; rw [e] at h1; simp at h1
  · intro c hc; rw [hc] at h2; simpa using h2
  · intro c hc; rw [hc] at h3; simpa using h3
  · simpa using h5
  · simpa using h6
  · intro p hp; simpa using h7 p hp

/-! ### instances (tests of the hypothesis, not part of the claim): what `normalize` delivers for texts of the
kinds the property speaks of is in normal form -/

example : NF (normalize (S "  cart   ellps = intl ")) := isNF_sound _ (by decide)
example : NF (normalize (S "helmert\n:x = 1\n:y=2 # a comment\n:z=3")) := isNF_sound _ (by decide)
example : NF (normalize (S "addone > helmert x₀=3 , 4 < addone inv")) := isNF_sound _ (by decide)
example : normalize (S "  cart   ellps = intl ") = S "cart ellps=intl" := by decide
example : normalize (S "addone > helmert x₀=3 , 4 < addone inv") = S "addone|omit_inv helmert x_0=3,4|omit_fwd addone inv" := by decide

end C16
end Geodesy
