/-
C13 — projection parameters follow common conventions; derived operators match theirs.

Model side: `Geodesy/Model/Ops/{Merc,Tmerc,Btmerc,Lcc,Laea,Omerc,Somerc}.lean` (ported operator
by operator from `src/inner_op/*.rs` and bit-identical with them on the correspondence run).
The theorems are in the real-number reading and are about the SAME functions the driver runs.
-/
import Geodesy.Model.Registry
import Geodesy.Lemmas.Real
import Mathlib.Tactic.Linarith
import Geodesy.Lemmas.Mercator

namespace Geodesy
namespace C13
open Text Ops

variable {R : Type}

/-! ### reading back parameters that were set -/

theorem assocGet_insert_same {β : Type} (m : List (Str × β)) (k : Str) (v : β) :
    Parsed.assocGet? (Parsed.assocInsert m k v) k = some v := by
  simp [Parsed.assocGet?, Parsed.assocInsert]

theorem assocGet_insert_ne {β : Type} (m : List (Str × β)) (k k' : Str) (v : β) (h : (k' != k) = true) :
    Parsed.assocGet? (Parsed.assocInsert m k v) k' = Parsed.assocGet? m k' := by
  have hne : k' ≠ k := by simpa using h
  have h1 : ((k, v).1 == k') = false := by simp; exact fun e => hne e.symm
  simp only [Parsed.assocGet?, Parsed.assocInsert, List.find?_cons, h1]
  congr 1
  induction m with
  | nil => rfl
  | cons e m ih =>
    by_cases he : e.1 = k
    · have : (e.1 != k) = false := by simp [he]
      have h2 : (e.1 == k') = false := by simp [he]; exact fun e' => hne e'.symm
      simp [List.filter_cons, this, List.find?_cons, h2, ih]
    · have : (e.1 != k) = true := by simp [he]
      simp only [List.filter_cons, this, if_true, List.find?_cons]
      split <;> simp_all

@[simp] theorem real_setReal_same (p : Parsed R) (k : Str) (v : R) : (p.setReal k v).real? k = some v :=
  assocGet_insert_same _ _ _

theorem real_setReal_ne (p : Parsed R) (k k' : Str) (v : R) (h : (k' != k) = true) :
    (p.setReal k v).real? k' = p.real? k' := assocGet_insert_ne _ _ _ _ h

@[simp] theorem text_setReal (p : Parsed R) (k k' : Str) (v : R) : (p.setReal k v).text? k' = p.text? k' := rfl
@[simp] theorem flag_setReal (p : Parsed R) (k k' : Str) (v : R) : (p.setReal k v).flagSet k' = p.flagSet k' := rfl
@[simp] theorem ellps_setReal [Scalar R] (p : Parsed R) (k : Str) (v : R) (i : Nat) :
    (p.setReal k v).ellps i = p.ellps i := rfl

/-- `p` with the four shared parameters replaced -/
def withXY (p : Parsed R) (x0 y0 : R) : Parsed R := (p.setReal (S "x_0") x0).setReal (S "y_0") y0

section accessors
variable [Scalar R]

theorem key_x0 : S ("x_" ++ toString 0) = S "x_0" := by decide
theorem key_y0 : S ("y_" ++ toString 0) = S "y_0" := by decide
theorem key_k0 : S ("k_" ++ toString 0) = S "k_0" := by decide
theorem key_lon0 : S ("lon_" ++ toString 0) = S "lon_0" := by decide
theorem key_lat0 : S ("lat_" ++ toString 0) = S "lat_0" := by decide

theorem x_setReal_ne (p : Parsed R) (key : Str) (v : R) (h : (S "x_0" != key) = true) :
    Parsed.x (p.setReal key v) 0 = Parsed.x p 0 := by unfold Parsed.x; rw [key_x0, real_setReal_ne _ _ _ _ h]
theorem y_setReal_ne (p : Parsed R) (key : Str) (v : R) (h : (S "y_0" != key) = true) :
    Parsed.y (p.setReal key v) 0 = Parsed.y p 0 := by unfold Parsed.y; rw [key_y0, real_setReal_ne _ _ _ _ h]
theorem k_setReal_ne (p : Parsed R) (key : Str) (v : R) (h : (S "k_0" != key) = true) :
    Parsed.k (p.setReal key v) 0 = Parsed.k p 0 := by unfold Parsed.k; rw [key_k0, real_setReal_ne _ _ _ _ h]
theorem lon_setReal_ne (p : Parsed R) (key : Str) (v : R) (h : (S "lon_0" != key) = true) :
    Parsed.lon (p.setReal key v) 0 = Parsed.lon p 0 := by unfold Parsed.lon; rw [key_lon0, real_setReal_ne _ _ _ _ h]
theorem lat_setReal_ne (p : Parsed R) (key : Str) (v : R) (h : (S "lat_0" != key) = true) :
    Parsed.lat (p.setReal key v) 0 = Parsed.lat p 0 := by unfold Parsed.lat; rw [key_lat0, real_setReal_ne _ _ _ _ h]
theorem x_setReal_same (p : Parsed R) (v : R) : Parsed.x (p.setReal (S "x_0") v) 0 = v := by
  unfold Parsed.x; rw [key_x0]; simp
theorem y_setReal_same (p : Parsed R) (v : R) : Parsed.y (p.setReal (S "y_0") v) 0 = v := by
  unfold Parsed.y; rw [key_y0]; simp
theorem k_setReal_same (p : Parsed R) (v : R) : Parsed.k (p.setReal (S "k_0") v) 0 = v := by
  unfold Parsed.k; rw [key_k0]; simp
theorem lon_setReal_same (p : Parsed R) (v : R) : Parsed.lon (p.setReal (S "lon_0") v) 0 = v := by
  unfold Parsed.lon; rw [key_lon0]; simp
theorem lat_setReal_same (p : Parsed R) (v : R) : Parsed.lat (p.setReal (S "lat_0") v) 0 = v := by
  unfold Parsed.lat; rw [key_lat0]; simp

theorem x_withXY (p : Parsed R) (x0 y0 : R) : Parsed.x (withXY p x0 y0) 0 = x0 := by
  unfold Parsed.x withXY; rw [key_x0, real_setReal_ne _ (S "y_0") (S "x_0") _ (by decide)]; simp
theorem y_withXY (p : Parsed R) (x0 y0 : R) : Parsed.y (withXY p x0 y0) 0 = y0 := by
  unfold Parsed.y withXY; rw [key_y0]; simp
theorem k_withXY (p : Parsed R) (x0 y0 : R) : Parsed.k (withXY p x0 y0) 0 = Parsed.k p 0 := by
  unfold Parsed.k withXY
  rw [key_k0, real_setReal_ne _ (S "y_0") (S "k_0") _ (by decide), real_setReal_ne _ (S "x_0") (S "k_0") _ (by decide)]
theorem lon_withXY (p : Parsed R) (x0 y0 : R) : Parsed.lon (withXY p x0 y0) 0 = Parsed.lon p 0 := by
  unfold Parsed.lon withXY
  rw [key_lon0, real_setReal_ne _ (S "y_0") (S "lon_0") _ (by decide), real_setReal_ne _ (S "x_0") (S "lon_0") _ (by decide)]
theorem lat_withXY (p : Parsed R) (x0 y0 : R) : Parsed.lat (withXY p x0 y0) 0 = Parsed.lat p 0 := by
  unfold Parsed.lat withXY
  rw [key_lat0, real_setReal_ne _ (S "y_0") (S "lat_0") _ (by decide), real_setReal_ne _ (S "x_0") (S "lat_0") _ (by decide)]
theorem ellps_withXY (p : Parsed R) (x0 y0 : R) (i : Nat) : (withXY p x0 y0).ellps i = p.ellps i := rfl

end accessors

/-! ### merc -/

/-- **x_0 and y_0 are added to the forward result** (merc) -/
theorem merc_false_origin (p : Parsed ℝ) (x0 y0 lon lat : ℝ) :
    Merc.fwd (withXY p x0 y0) lon lat =
      ((Merc.fwd (withXY p 0 0) lon lat).1 + x0, (Merc.fwd (withXY p 0 0) lon lat).2 + y0) := by
  simp only [Merc.fwd, x_withXY, y_withXY, k_withXY, lon_withXY, lat_withXY, ellps_withXY]
  simp

/-- ... and subtracted first by the inverse -/
theorem merc_false_origin_inv (p : Parsed ℝ) (x0 y0 x y : ℝ) :
    Merc.inv (withXY p x0 y0) (x + x0) (y + y0) = Merc.inv (withXY p 0 0) x y := by
  simp only [Merc.inv, x_withXY, y_withXY, k_withXY, lon_withXY, lat_withXY, ellps_withXY]
  simp

/-- **lon_0 (in degrees) is the same as subtracting it from the input longitude** (merc) -/
theorem merc_lon0 (p : Parsed ℝ) (l0 lon lat : ℝ) :
    Merc.fwd (p.setReal (S "lon_0") l0) lon lat =
      Merc.fwd (p.setReal (S "lon_0") 0) (lon - l0 * (Real.pi / 180)) lat := by
  simp only [Merc.fwd, lon_setReal_same, x_setReal_ne _ _ _ (show (S "x_0" != S "lon_0") = true by decide),
    y_setReal_ne _ _ _ (show (S "y_0" != S "lon_0") = true by decide),
    k_setReal_ne _ _ _ (show (S "k_0" != S "lon_0") = true by decide),
    lat_setReal_ne _ _ _ (show (S "lat_0" != S "lon_0") = true by decide), ellps_setReal]
  simp

/-- **k_0 scales the unshifted plane coordinates linearly** (merc) -/
theorem merc_k0 (p : Parsed ℝ) (k lon lat : ℝ) :
    Merc.fwd (withXY (p.setReal (S "k_0") k) 0 0) lon lat =
      (k * (Merc.fwd (withXY (p.setReal (S "k_0") 1) 0 0) lon lat).1,
       k * (Merc.fwd (withXY (p.setReal (S "k_0") 1) 0 0) lon lat).2) := by
  have e : ∀ v : ℝ, Parsed.k (p.setReal (S "k_0") v) 0 = v := by
    intro v; unfold Parsed.k; rw [key_k0]; simp
  have hl : ∀ v : ℝ, Parsed.lon (p.setReal (S "k_0") v) 0 = Parsed.lon p 0 := by
    intro v; unfold Parsed.lon; rw [key_lon0, real_setReal_ne _ _ _ _ (by decide)]
  have ha : ∀ v : ℝ, Parsed.lat (p.setReal (S "k_0") v) 0 = Parsed.lat p 0 := by
    intro v; unfold Parsed.lat; rw [key_lat0, real_setReal_ne _ _ _ _ (by decide)]
  simp only [Merc.fwd, x_withXY, y_withXY, k_withXY, lon_withXY, lat_withXY, ellps_withXY, e, hl, ha, ellps_setReal]
  simp
  constructor <;> ring

/-- **lat_ts is equivalent to the corresponding k_0**: the constructor replaces `k_0` by
`cos φ_ts / sqrt(1 - e² sin² φ_ts)` and nothing else depends on `lat_ts` -/
theorem merc_lat_ts_is_k0 (p : Parsed ℝ) (ts lon lat : ℝ) :
    let k := Real.cos (ts * (Real.pi / 180)) /
      Real.sqrt (1 - (p.ellps 0).eccentricitySquared * Real.sin (ts * (Real.pi / 180)) * Real.sin (ts * (Real.pi / 180)))
    Merc.fwd ((p.setReal (S "lat_ts") ts).setReal (S "k_0") k) lon lat = Merc.fwd (p.setReal (S "k_0") k) lon lat := by
  intro k
  have o : ∀ (key : Str) (d : ℝ), (key != S "lat_ts") = true →
      (((p.setReal (S "lat_ts") ts).setReal (S "k_0") k).real? key).getD d = ((p.setReal (S "k_0") k).real? key).getD d := by
    intro key d hk
    by_cases h : key = S "k_0"
    · subst h; simp
    · have hk0 : (key != S "k_0") = true := by simpa using h
      rw [real_setReal_ne _ _ _ _ hk0, real_setReal_ne _ _ _ _ hk0, real_setReal_ne _ _ _ _ hk]
  unfold Merc.fwd Parsed.k Parsed.x Parsed.y Parsed.lat Parsed.lon
  rw [key_k0, key_x0, key_y0, key_lat0, key_lon0]
  simp only [o (S "k_0") _ (by decide), o (S "x_0") _ (by decide), o (S "y_0") _ (by decide),
    o (S "lat_0") _ (by decide), o (S "lon_0") _ (by decide), ellps_setReal]

open Mercator in
/-- **merc on a sphere equals webmerc on the same sphere** (no false origin, unit scale, centre at
the origin of longitudes and on the equator), for every point strictly between the poles -/
theorem merc_on_sphere_is_webmerc (p : Parsed ℝ) (lon phi : ℝ) (hf : (p.ellps 0).f = 0)
    (hk : Parsed.k p 0 = 1) (hx : Parsed.x p 0 = 0) (hy : Parsed.y p 0 = 0) (hlon : Parsed.lon p 0 = 0)
    (hlat : Parsed.lat p 0 = 0) (h1 : -(Real.pi / 2) < phi) (h2 : phi < Real.pi / 2) :
    Merc.fwd p lon phi = Webmerc.fwd p lon phi := by
  have two : (@OfScientific.ofScientific ℝ Scalar.instOfScientific 20 true 1) = 2 := by
    simp [OfScientific.ofScientific, Scalar.ofSci, Lit.toReal]; norm_num
  have four : (@OfScientific.ofScientific ℝ Scalar.instOfScientific 40 true 1) = 4 := by
    simp [OfScientific.ofScientific, Scalar.ofSci, Lit.toReal]; norm_num
  have he : (p.ellps 0).eccentricity = 0 := by
    simp [Ellipsoid.eccentricity, Ellipsoid.eccentricitySquared, hf]
  simp only [Merc.fwd, Webmerc.fwd, isometric_eq, he, hk, hx, hy, hlon, hlat, Webmerc.fracPi4, two, four]
  simp [arsinh_tan_eq phi h1 h2]

/-! ### lcc -/

/-- **x_0 and y_0 are added to the forward result** (lcc) -/
theorem lcc_false_origin (k : Lcc.Consts ℝ) (lam phi : ℝ) :
    Lcc.fwd k lam phi =
      (Lcc.fwd { k with x0 := 0, y0 := 0 } lam phi).map fun r => (r.1 + k.x0, r.2 + k.y0) := by
  unfold Lcc.fwd
  dsimp only
  split <;> rename_i h <;> simp only [h] <;> simp

/-- **lon_0 is the same as subtracting it from the input longitude** (lcc; the constructor has
converted it to radians) -/
theorem lcc_lon0 (k : Lcc.Consts ℝ) (lam phi : ℝ) :
    Lcc.fwd k lam phi = Lcc.fwd { k with lon0 := 0 } (lam - k.lon0) phi := by
  unfold Lcc.fwd
  simp

/-- **k_0 and the semi-major axis scale the unshifted result linearly** (lcc) -/
theorem lcc_scale (k : Lcc.Consts ℝ) (lam phi : ℝ) :
    Lcc.fwd { k with x0 := 0, y0 := 0 } lam phi =
      (Lcc.fwd { k with x0 := 0, y0 := 0, k0 := 1, a := 1 } lam phi).map fun r =>
        (k.a * k.k0 * r.1, k.a * k.k0 * r.2) := by
  unfold Lcc.fwd
  dsimp only
  split <;> rename_i h <;> simp only [h]
  · simp
  · simp only [Option.map_some, Option.some.injEq, Prod.mk.injEq]
    constructor <;> simp <;> ring

/-! ### tmerc and utm -/

/-- what `fwd`/`inv` of tmerc see after the constructor's `precompute`, spelled out -/
theorem tmerc_pre_precompute (p : Parsed ℝ) :
    Tmerc.pre (Tmerc.precompute p) =
      let ellps := p.ellps 0
      let qs := Parsed.k p 0 * ellps.a * ellps.normalizedMeridianArcUnit
      let z := Ellipsoid.latitudeFwdSeries (Scalar.toRadians (Parsed.lat p 0)) ellps.conformalCoefficients
      some { ellps, lon0 := Scalar.toRadians (Parsed.lon p 0), x0 := Parsed.x p 0,
             conformal := ellps.conformalCoefficients, tm := Tmerc.tmCoefficients ellps, qs,
             zb := Parsed.y p 0 - qs * (z + Series.sin (2 * z) (Tmerc.tmCoefficients ellps).fwd) } := by
  unfold Tmerc.pre Tmerc.precompute
  simp only [real_setReal_same, real_setReal_ne _ (S "zb") (S "scaled_radius") _ (by decide), ellps_setReal,
    lon_setReal_ne _ _ _ (show (S "lon_0" != S "zb") = true by decide),
    lon_setReal_ne _ _ _ (show (S "lon_0" != S "scaled_radius") = true by decide),
    x_setReal_ne _ _ _ (show (S "x_0" != S "zb") = true by decide),
    x_setReal_ne _ _ _ (show (S "x_0" != S "scaled_radius") = true by decide)]
  have two : (@OfScientific.ofScientific ℝ Scalar.instOfScientific 20 true 1) = 2 := by
    simp [OfScientific.ofScientific, Scalar.ofSci, Lit.toReal]; norm_num
  simp only [two]

/-- **x_0 is added to the easting, y_0 to the northing** (tmerc, through the stored offset `zb`) -/
theorem tmerc_false_origin (p : Parsed ℝ) (x0 y0 : ℝ) :
    Tmerc.pre (Tmerc.precompute (withXY p x0 y0)) =
      (Tmerc.pre (Tmerc.precompute (withXY p 0 0))).map fun q => { q with x0 := x0, zb := q.zb + y0 } := by
  simp only [tmerc_pre_precompute, x_withXY, y_withXY, k_withXY, lon_withXY, lat_withXY, ellps_withXY]
  simp
  ring

theorem tmerc_offsets (q : Tmerc.Pre ℝ) (lon lat : ℝ) :
    Tmerc.fwd q lon lat = (Tmerc.fwd { q with x0 := 0, zb := 0 } lon lat).map fun r => (r.1 + q.x0, r.2 + q.zb) := by
  unfold Tmerc.fwd
  dsimp only
  split <;> simp

/-- **lon_0 is the same as subtracting it from the input longitude** (tmerc) -/
theorem tmerc_lon0 (q : Tmerc.Pre ℝ) (lon lat : ℝ) :
    Tmerc.fwd q lon lat = Tmerc.fwd { q with lon0 := 0 } (lon - q.lon0) lat := by
  unfold Tmerc.fwd
  simp

/-- **k_0 and the semi-major axis scale the unshifted result linearly** (tmerc: both enter
through the scaled radius `qs = k_0 · a · (normalised meridian arc unit)` only) -/
theorem tmerc_scale (q : Tmerc.Pre ℝ) (lon lat : ℝ) :
    Tmerc.fwd { q with x0 := 0, zb := 0 } lon lat =
      (Tmerc.fwd { q with x0 := 0, zb := 0, qs := 1 } lon lat).map fun r => (q.qs * r.1, q.qs * r.2) := by
  unfold Tmerc.fwd
  dsimp only
  split <;> simp

/-- `pre ∘ precompute` depends on the parameters only through the ellipsoid and the five shared
parameters -/
theorem tmerc_pre_congr (p p' : Parsed ℝ) (he : p.ellps 0 = p'.ellps 0)
    (hk : Parsed.k p 0 = Parsed.k p' 0) (hx : Parsed.x p 0 = Parsed.x p' 0) (hy : Parsed.y p 0 = Parsed.y p' 0)
    (hlat : Parsed.lat p 0 = Parsed.lat p' 0) (hlon : Parsed.lon p 0 = Parsed.lon p' 0) :
    Tmerc.pre (Tmerc.precompute p) = Tmerc.pre (Tmerc.precompute p') := by
  simp only [tmerc_pre_precompute, he, hk, hx, hy, hlat, hlon]

/-- the parameters `utm zone=Z [south]` works with -/
noncomputable def utmParams (p : Parsed ℝ) (zone : Nat) : Parsed ℝ :=
  let p := p.setReal (S "k_0") 0.9996
  let p := p.setReal (S "lon_0") (-183.0 + 6.0 * Scalar.ofInt (zone : Int))
  let p := p.setReal (S "lat_0") 0.0
  let p := p.setReal (S "x_0") 500000.0
  let p := p.setReal (S "y_0") 0.0
  if p.flagSet (S "south") then p.setReal (S "y_0") 10000000.0 else p

/-- **utm zone=Z (with or without south) is tmerc with lon_0 = 6Z − 183, k_0 = 0.9996,
x_0 = 500000 and y_0 = 0 or 10000000**: any `tmerc` parameter set `p'` with these five values on
the same ellipsoid gives the same per-tuple function -/
theorem utm_is_tmerc (p p' : Parsed ℝ) (zone : Nat) (he : p.ellps 0 = p'.ellps 0)
    (hk : Parsed.k p' 0 = 0.9996) (hx : Parsed.x p' 0 = 500000) (hlat : Parsed.lat p' 0 = 0)
    (hlon : Parsed.lon p' 0 = 6 * (zone : ℝ) - 183)
    (hy : Parsed.y p' 0 = if p.flagSet (S "south") then 10000000 else 0) :
    Tmerc.pre (Tmerc.precompute (utmParams p zone)) = Tmerc.pre (Tmerc.precompute p') := by
  apply tmerc_pre_congr
  · unfold utmParams; dsimp only; split <;> simp [he]
  · unfold utmParams; dsimp only
    split <;> simp [hk, k_setReal_same, k_setReal_ne _ _ _ (show (S "k_0" != S "y_0") = true by decide),
      k_setReal_ne _ _ _ (show (S "k_0" != S "x_0") = true by decide),
      k_setReal_ne _ _ _ (show (S "k_0" != S "lat_0") = true by decide),
      k_setReal_ne _ _ _ (show (S "k_0" != S "lon_0") = true by decide)] <;> norm_num [Scalar.ofSci, Lit.toReal]
  · unfold utmParams; dsimp only
    split <;> simp [hx, x_setReal_same, x_setReal_ne _ _ _ (show (S "x_0" != S "y_0") = true by decide)] <;>
      norm_num [Scalar.ofSci, Lit.toReal]
  · unfold utmParams; dsimp only
    split <;> rename_i hs <;> simp only [flag_setReal] at hs <;> simp [hy, hs, y_setReal_same] <;>
      norm_num [Scalar.ofSci, Lit.toReal]
  · unfold utmParams; dsimp only
    split <;> simp [hlat, lat_setReal_same, lat_setReal_ne _ _ _ (show (S "lat_0" != S "y_0") = true by decide),
      lat_setReal_ne _ _ _ (show (S "lat_0" != S "x_0") = true by decide)] <;> norm_num [Scalar.ofSci, Lit.toReal]
  · unfold utmParams; dsimp only
    split <;> simp [hlon, lon_setReal_same, lon_setReal_ne _ _ _ (show (S "lon_0" != S "y_0") = true by decide),
      lon_setReal_ne _ _ _ (show (S "lon_0" != S "x_0") = true by decide),
      lon_setReal_ne _ _ _ (show (S "lon_0" != S "lat_0") = true by decide)] <;>
      norm_num [Scalar.ofSci, Lit.toReal] <;> ring

/-! ### btmerc and butm -/

/-- **x_0 and y_0 are added to the forward result** (btmerc) -/
theorem btmerc_false_origin (p : Parsed ℝ) (x0 y0 lon lat : ℝ) :
    Btmerc.fwd (withXY p x0 y0) lon lat =
      ((Btmerc.fwd (withXY p 0 0) lon lat).1 + x0, (Btmerc.fwd (withXY p 0 0) lon lat).2 + y0) := by
  simp only [Btmerc.fwd, x_withXY, y_withXY, k_withXY, lon_withXY, lat_withXY, ellps_withXY]
  simp
  constructor <;> ring

/-- the per-tuple function of btmerc depends on the parameters only through the ellipsoid and
the five shared parameters -/
theorem btmerc_congr (p p' : Parsed ℝ) (he : p.ellps 0 = p'.ellps 0)
    (hk : Parsed.k p 0 = Parsed.k p' 0) (hx : Parsed.x p 0 = Parsed.x p' 0) (hy : Parsed.y p 0 = Parsed.y p' 0)
    (hlat : Parsed.lat p 0 = Parsed.lat p' 0) (hlon : Parsed.lon p 0 = Parsed.lon p' 0) :
    Btmerc.fwd p = Btmerc.fwd p' ∧ Btmerc.inv p = Btmerc.inv p' := by
  constructor <;> funext a b <;> simp only [Btmerc.fwd, Btmerc.inv, he, hk, hx, hy, hlat, hlon]

/-- **butm zone=Z is btmerc with the UTM parameters**: the constructor installs the same five
values as `utm` does (`utmParams`), and nothing else is read -/
theorem butm_is_btmerc (p p' : Parsed ℝ) (zone : Nat) (he : p.ellps 0 = p'.ellps 0)
    (hk : Parsed.k p' 0 = 0.9996) (hx : Parsed.x p' 0 = 500000) (hlat : Parsed.lat p' 0 = 0)
    (hlon : Parsed.lon p' 0 = 6 * (zone : ℝ) - 183)
    (hy : Parsed.y p' 0 = if p.flagSet (S "south") then 10000000 else 0) :
    Btmerc.fwd (utmParams p zone) = Btmerc.fwd p' ∧ Btmerc.inv (utmParams p zone) = Btmerc.inv p' := by
  apply btmerc_congr
  · unfold utmParams; dsimp only; split <;> simp [he]
  · unfold utmParams; dsimp only
    split <;> simp [hk, k_setReal_same, k_setReal_ne _ _ _ (show (S "k_0" != S "y_0") = true by decide),
      k_setReal_ne _ _ _ (show (S "k_0" != S "x_0") = true by decide),
      k_setReal_ne _ _ _ (show (S "k_0" != S "lat_0") = true by decide),
      k_setReal_ne _ _ _ (show (S "k_0" != S "lon_0") = true by decide)] <;> norm_num [Scalar.ofSci, Lit.toReal]
  · unfold utmParams; dsimp only
    split <;> simp [hx, x_setReal_same, x_setReal_ne _ _ _ (show (S "x_0" != S "y_0") = true by decide)] <;>
      norm_num [Scalar.ofSci, Lit.toReal]
  · unfold utmParams; dsimp only
    split <;> rename_i hs <;> simp only [flag_setReal] at hs <;> simp [hy, hs, y_setReal_same] <;>
      norm_num [Scalar.ofSci, Lit.toReal]
  · unfold utmParams; dsimp only
    split <;> simp [hlat, lat_setReal_same, lat_setReal_ne _ _ _ (show (S "lat_0" != S "y_0") = true by decide),
      lat_setReal_ne _ _ _ (show (S "lat_0" != S "x_0") = true by decide)] <;> norm_num [Scalar.ofSci, Lit.toReal]
  · unfold utmParams; dsimp only
    split <;> simp [hlon, lon_setReal_same, lon_setReal_ne _ _ _ (show (S "lon_0" != S "y_0") = true by decide),
      lon_setReal_ne _ _ _ (show (S "lon_0" != S "x_0") = true by decide),
      lon_setReal_ne _ _ _ (show (S "lon_0" != S "lat_0") = true by decide)] <;>
      norm_num [Scalar.ofSci, Lit.toReal] <;> ring

/-! ### omerc, somerc, laea: the false origin -/

/-- **x_0 and y_0 are added to the forward result** (omerc, all three variants) -/
theorem omerc_false_origin (k : Omerc.Consts ℝ) (lon lat : ℝ) :
    Omerc.fwdWith k lon lat =
      ((Omerc.fwdWith { k with FE := 0, FN := 0 } lon lat).1 + k.FE,
       (Omerc.fwdWith { k with FE := 0, FN := 0 } lon lat).2 + k.FN) := by
  unfold Omerc.fwdWith
  dsimp only
  split <;> simp

/-- the constants of omerc take the false origin straight from `x_0`, `y_0` -/
theorem omerc_consts_origin (p : Parsed ℝ) : (Omerc.consts p).FE = Parsed.x p 0 ∧ (Omerc.consts p).FN = Parsed.y p 0 := by
  constructor <;> rfl

/-- **x_0 and y_0 are added to the forward result** (somerc) -/
theorem somerc_false_origin (p : Parsed ℝ) (x0 y0 lam phi : ℝ) :
    Somerc.fwd (withXY p x0 y0) lam phi =
      ((Somerc.fwd (withXY p 0 0) lam phi).1 + x0, (Somerc.fwd (withXY p 0 0) lam phi).2 + y0) := by
  have g : ∀ (key : String) (a b : ℝ), (S key != S "x_0") = true → (S key != S "y_0") = true →
      Somerc.get (withXY p a b) key = Somerc.get p key := by
    intro key a b h1 h2
    unfold Somerc.get withXY
    rw [real_setReal_ne _ _ _ _ h2, real_setReal_ne _ _ _ _ h1]
  have gx : ∀ a b : ℝ, Somerc.get (withXY p a b) "x_0" = a := by
    intro a b; unfold Somerc.get withXY; rw [real_setReal_ne _ _ _ _ (by decide)]; simp
  have gy : ∀ a b : ℝ, Somerc.get (withXY p a b) "y_0" = b := by
    intro a b; unfold Somerc.get withXY; simp
  simp only [Somerc.fwd, gx, gy, g "lon_0" _ _ (by decide) (by decide), g "c" _ _ (by decide) (by decide),
    g "K" _ _ (by decide) (by decide), g "R" _ _ (by decide) (by decide),
    g "sin_phi_0_p" _ _ (by decide) (by decide), g "cos_phi_0_p" _ _ (by decide) (by decide), ellps_withXY]
  simp

/-- **x_0 and y_0 are added to the forward result** (laea, every aspect) -/
theorem laea_false_origin (p : Parsed ℝ) (s : Laea.Stored ℝ) (x0 y0 lon lat : ℝ) :
    Laea.fwd (withXY p x0 y0) s lon lat =
      ((Laea.fwd (withXY p 0 0) s lon lat).1 + x0, (Laea.fwd (withXY p 0 0) s lon lat).2 + y0) := by
  have hx : ∀ a b : ℝ, (withXY p a b).real? (S "x_0") = some a := by
    intro a b; unfold withXY; rw [real_setReal_ne _ _ _ _ (by decide)]; simp
  have hy : ∀ a b : ℝ, (withXY p a b).real? (S "y_0") = some b := by
    intro a b; unfold withXY; simp
  have hl : ∀ a b : ℝ, (withXY p a b).real? (S "lon_0") = p.real? (S "lon_0") := by
    intro a b; unfold withXY; rw [real_setReal_ne _ _ _ _ (by decide), real_setReal_ne _ _ _ _ (by decide)]
  have hf : ∀ (a b : ℝ) (k : Str), (withXY p a b).flagSet k = p.flagSet k := fun _ _ _ => rfl
  unfold Laea.fwd
  simp only [hx, hy, hl, hf, ellps_withXY, Option.getD_some]
  split
  · simp; constructor <;> ring
  · simp; constructor <;> ring

/-! ### the derived operators -/

/-- **the noop aliases leave all data untouched** and count every tuple -/
theorem noop_identity (data : List (Coor ℝ)) : Ops.noopSem data = (data, data.length) := rfl

/-- all aliases are registered with the one `noop` constructor -/
theorem noop_aliases (ce : CtorEnv) :
    ∀ name ∈ ["noop", "longlat", "latlon", "latlong", "lonlat"],
      (Registry.builtin ℝ ce (S name)).isSome = true := by
  intro name h
  simp only [List.mem_cons, List.mem_nil_iff, or_false] at h
  rcases h with rfl | rfl | rfl | rfl | rfl <;> rfl


/-! ### longitudes are angles -/

/-- **tmerc (and utm) forward: the longitude is an angle** — the same meridian written any number
of turns further east or west gives the same result, refusal included (the longitude enters through
the sine and cosine of its difference to `lon_0` only, never through its magnitude) -/
theorem tmerc_longitude_is_an_angle (q : Tmerc.Pre ℝ) (lon lat : ℝ) (k : ℤ) :
    Tmerc.fwd q (lon + k * (2 * Real.pi)) lat = Tmerc.fwd q lon lat := by
  have hs : Real.sin (lon + k * (2 * Real.pi) - q.lon0) = Real.sin (lon - q.lon0) := by
    rw [show lon + k * (2 * Real.pi) - q.lon0 = (lon - q.lon0) + k * (2 * Real.pi) by ring]
    exact Real.sin_add_int_mul_two_pi _ _
  have hc : Real.cos (lon + k * (2 * Real.pi) - q.lon0) = Real.cos (lon - q.lon0) := by
    rw [show lon + k * (2 * Real.pi) - q.lon0 = (lon - q.lon0) + k * (2 * Real.pi) by ring]
    exact Real.cos_add_int_mul_two_pi _ _
  unfold Tmerc.fwd
  simp only [scalar_sin, scalar_cos, hs, hc]

end C13
end Geodesy
