/-
C10 — failures are visible: honest counts, NaN for failed tuples, untouched axes kept.

Model side: the per-operator `sem` functions of `Geodesy/Model/Ops/*.lean` (the loops of the
Rust `fwd`/`inv` functions: which tuples are written, which are stomped, what is counted) and
`apply` / `runFwd` / `runInv` of `Geodesy/Model/Op.lean` (`Op::apply`, `pipeline_fwd/inv`).
All theorems hold for EVERY scalar reading (no arithmetic is involved), in particular for the
binary64 reading the driver runs.
-/
import Geodesy.Model.Registry
import Mathlib.Tactic.SplitIfs
import Geodesy.Lemmas.Honest

namespace Geodesy
namespace C10
open Text Ops

variable {R : Type} [Scalar R]

/-- an operator function is *honest* when it returns as many tuples as it was given and never
reports more successes than that -/
def Honest (f : List (Coor R) → List (Coor R) × Nat) : Prop :=
  ∀ data, (f data).1.length = data.length ∧ (f data).2 ≤ data.length

theorem filter_map_le {β γ : Type} (f : β → γ) (q : γ → Bool) (l : List β) :
    ((l.map f).filter q).length ≤ l.length :=
  Nat.le_trans (List.length_filter_le _ _) (by simp)

/-! ### the loop shapes the operators are built from -/

/-- a per-tuple function on the first two elements that cannot fail: every tuple is counted and
**height and time come back untouched** -/
theorem mapXY_spec (f : R → R → R × R) (data : List (Coor R)) :
    (mapXY f data).2 = data.length ∧ (mapXY f data).1.length = data.length ∧
    ∀ i (h : i < data.length), ∃ h' : i < (mapXY f data).1.length,
      ((mapXY f data).1[i]'h').c2 = data[i].c2 ∧ ((mapXY f data).1[i]'h').c3 = data[i].c3 ∧
      ((mapXY f data).1[i]'h').c0 = (f data[i].c0 data[i].c1).1 ∧
      ((mapXY f data).1[i]'h').c1 = (f data[i].c0 data[i].c1).2 := by
  refine ⟨rfl, by simp [mapXY], ?_⟩
  intro i h
  exact ⟨by simp [mapXY, h], by simp [mapXY], by simp [mapXY], by simp [mapXY], by simp [mapXY]⟩

/-- a per-tuple function that may fail (`mapXYOpt`: laea, somerc): **a failing tuple gets NaN in
both elements the operator works on and is not counted; a transformed tuple keeps height and
time; the count is the number of transformed tuples** -/
theorem mapXYOpt_spec (f : R → R → Option (R × R)) (data : List (Coor R)) :
    (mapXYOpt f data).1.length = data.length ∧
    (mapXYOpt f data).2 = (data.filter fun c => (f c.c0 c.c1).isSome).length ∧
    (mapXYOpt f data).2 ≤ data.length ∧
    ∀ i (h : i < data.length), ∃ h' : i < (mapXYOpt f data).1.length,
      ((mapXYOpt f data).1[i]'h').c2 = data[i].c2 ∧ ((mapXYOpt f data).1[i]'h').c3 = data[i].c3 ∧
      (f data[i].c0 data[i].c1 = none →
        ((mapXYOpt f data).1[i]'h').c0 = Scalar.nan ∧ ((mapXYOpt f data).1[i]'h').c1 = Scalar.nan) ∧
      (∀ r, f data[i].c0 data[i].c1 = some r →
        ((mapXYOpt f data).1[i]'h').c0 = r.1 ∧ ((mapXYOpt f data).1[i]'h').c1 = r.2) := by
  have hcount : (mapXYOpt f data).2 = (data.filter fun c => (f c.c0 c.c1).isSome).length := by
    simp only [mapXYOpt, List.filter_map, List.length_map]
    congr 1
    apply List.filter_congr
    intro c _
    simp only [Function.comp]
    cases f c.c0 c.c1 <;> rfl
  refine ⟨by simp [mapXYOpt], hcount, by rw [hcount]; exact List.length_filter_le _ _, ?_⟩
  intro i h
  refine ⟨by simp [mapXYOpt, h], ?_, ?_, ?_, ?_⟩
  · simp only [mapXYOpt, List.getElem_map]; cases f data[i].c0 data[i].c1 <;> rfl
  · simp only [mapXYOpt, List.getElem_map]; cases f data[i].c0 data[i].c1 <;> rfl
  · intro hn; simp [mapXYOpt, hn]
  · intro r hr; simp [mapXYOpt, hr]

/-- the loop of tmerc / utm: as `mapXYOpt` -/
theorem tmerc_loop_spec (f : R → R → Option (R × R)) (data : List (Coor R)) :
    (Tmerc.loop f data).1.length = data.length ∧
    (Tmerc.loop f data).2 = (data.filter fun c => (f c.c0 c.c1).isSome).length ∧
    (Tmerc.loop f data).2 ≤ data.length ∧
    (Tmerc.loop f data).1 = data.map fun c =>
      match f c.c0 c.c1 with
      | some r => { c with c0 := r.1, c1 := r.2 }
      | none => { c with c0 := Scalar.nan, c1 := Scalar.nan } := by
  have key : (Tmerc.loop f data).1 = (data.map fun c =>
      match f c.c0 c.c1 with
      | some r => ({ c with c0 := r.1, c1 := r.2 } : Coor R)
      | none => { c with c0 := Scalar.nan, c1 := Scalar.nan }) ∧
      (Tmerc.loop f data).2 = (data.filter fun c => (f c.c0 c.c1).isSome).length := by
    induction data with
    | nil => exact ⟨rfl, rfl⟩
    | cons c rest ih =>
      unfold Tmerc.loop at ih ⊢
      simp only [List.foldr_cons, List.map_cons, List.filter_cons]
      cases hf : f c.c0 c.c1 <;> simp [ih.1, ih.2]
  refine ⟨by rw [key.1]; simp, key.2, by rw [key.2]; exact List.length_filter_le _ _, key.1⟩

/-! ### honesty of every modelled operator -/

theorem honest_mapXY (f : R → R → R × R) : Honest (mapXY f) := fun d => by simp [mapXY]
theorem honest_mapXYOpt (f : R → R → Option (R × R)) : Honest (mapXYOpt f) := fun d =>
  ⟨(mapXYOpt_spec f d).1, (mapXYOpt_spec f d).2.2.1⟩
theorem honest_loop (f : R → R → Option (R × R)) : Honest (Tmerc.loop f) := fun d =>
  ⟨(tmerc_loop_spec f d).1, (tmerc_loop_spec f d).2.2.1⟩
theorem honest_untouched : Honest (fun d : List (Coor R) => (d, 0)) := fun d => by simp
theorem honest_all (f : Coor R → Coor R) : Honest (fun d => (d.map f, d.length)) := fun d => by simp
theorem honest_countNonNaN (f : Coor R → Coor R) : Honest (mapCountNonNaN f) := fun d => by
  simp only [mapCountNonNaN, List.length_map, true_and]; exact filter_map_le _ _ _

theorem merc_honest (p : Parsed R) (dir : Dir) : Honest (Merc.sem p dir) := by
  cases dir <;> exact honest_mapXY _
theorem webmerc_honest (p : Parsed R) (dir : Dir) : Honest (Webmerc.sem p dir) := by
  cases dir <;> exact honest_mapXY _
theorem omerc_honest (p : Parsed R) (dir : Dir) : Honest (Omerc.sem p dir) := by
  cases dir <;> exact honest_mapXY _
theorem btmerc_honest (p : Parsed R) (dir : Dir) : Honest (Btmerc.sem p dir) := by
  cases dir <;> exact honest_mapXY _
theorem somerc_honest (p : Parsed R) (dir : Dir) : Honest (Somerc.sem p dir) := by
  cases dir
  · exact honest_mapXY _
  · exact honest_mapXYOpt _
/-- **beyond the disc of laea, in the polar aspects**: where the sine of the authalic latitude a point of the plane
stands for exceeds 1 in magnitude, the inverse answers "no point" (so that the tuple gets NaN and is not counted,
as in the other aspects), and otherwise it answers a position -/
theorem laea_polar_inverse_beyond_the_disc (p : Parsed R) (s : Laea.Stored R) (authalic : Series.Fourier R) (x y : R)
    (hpolar : (p.flagSet (S "north_polar") || p.flagSet (S "south_polar")) = true) :
    let x0 : R := (p.real? (S "x_0")).getD 0.0
    let y0 : R := (p.real? (S "y_0")).getD 0.0
    let sign : R := if p.flagSet (S "north_polar") then -1.0 else 1.0
    let rho := Scalar.hypot (x - x0) (y - y0)
    let sinXi := (-sign) * (1.0 - rho * rho / ((p.ellps 0).a * (p.ellps 0).a * s.qp))
    (Scalar.gt (Scalar.abs sinXi) 1.0 = true → Laea.inv p s authalic x y = none) ∧
    (Scalar.gt (Scalar.abs sinXi) 1.0 = false → (Laea.inv p s authalic x y).isSome = true) := by
  intro x0 y0 sign rho sinXi
  constructor
  · intro h
    simp only [Laea.inv, hpolar, if_true]
    simp only [sinXi, rho, sign, x0, y0] at h
    simp [h]
  · intro h
    simp only [Laea.inv, hpolar, if_true]
    simp only [sinXi, rho, sign, x0, y0] at h
    simp [h]

theorem laea_honest (p : Parsed R) (dir : Dir) : Honest (Laea.sem p dir) := by
  intro d; unfold Laea.sem; split
  · simp
  · cases dir
    · exact honest_mapXYOpt _ d
    · exact honest_mapXYOpt _ d
theorem tmerc_honest (p : Parsed R) (dir : Dir) : Honest (Tmerc.sem p dir) := by
  intro d; unfold Tmerc.sem; split
  · simp
  · cases dir <;> exact honest_loop _ d
theorem cart_honest (p : Parsed R) (dir : Dir) : Honest (Cart.sem p dir) := by
  cases dir <;> exact honest_countNonNaN _
theorem foldl_add_le (l : List Nat) (h : ∀ x ∈ l, x ≤ 1) (acc : Nat) : l.foldl (· + ·) acc ≤ acc + l.length := by
  induction l generalizing acc with
  | nil => simp
  | cons x rest ih =>
    have hx := h x (by simp)
    have := ih (fun y hy => h y (by simp [hy])) (acc + x)
    simp only [List.foldl_cons, List.length_cons]
    omega

theorem lcc_honest (p : Parsed R) (dir : Dir) : Honest (Lcc.sem p dir) := by
  intro d; unfold Lcc.sem; split
  · simp
  · simp only [List.map_map, List.length_map, true_and]
    refine Nat.le_trans (foldl_add_le _ ?_ 0) (by simp)
    intro x hx
    simp only [List.mem_map, Function.comp] at hx
    obtain ⟨c, _, rfl⟩ := hx
    split <;> simp

theorem molodensky_honest (p : Parsed R) (dir : Dir) : Honest (Molodensky.sem p dir) := by
  intro d; unfold Molodensky.sem; split <;> simp
theorem permtide_honest (p : Parsed R) (dir : Dir) : Honest (Permtide.sem p dir) := by
  intro d; unfold Permtide.sem; split <;> simp
theorem geodesic_honest (p : Parsed R) (dir : Dir) : Honest (Geodesic.sem p dir) := by
  intro d; unfold Geodesic.sem
  simp only [List.length_map, true_and]
  exact filter_map_le _ _ _
theorem latitude_honest (p : Parsed R) (dir : Dir) : Honest (Latitude.sem p dir) := by
  intro d; cases dir <;> simp only [Latitude.sem, Latitude.fwd, Latitude.inv] <;> repeat' split
  all_goals simp [Latitude.mapLat]
theorem curvature_honest (p : Parsed R) (dir : Dir) : Honest (Curvature.sem p dir) := by
  intro d
  cases dir
  · simp only [Curvature.sem, Curvature.fwd]
    repeat' split
    all_goals simp [Curvature.mapXY]
  · exact honest_untouched d
theorem gravity_honest (p : Parsed R) (dir : Dir) : Honest (Gravity.sem p dir) := by
  intro d; cases dir <;> simp only [Gravity.sem, Gravity.fwd] <;> repeat' split
  all_goals simp [Gravity.welmecLoop, Gravity.grs80Loop, Gravity.grs67Loop, Gravity.jeffreysLoop,
    Gravity.cassinisLoop, Gravity.mapFirst]
theorem dm_honest (p : Parsed R) (dir : Dir) : Honest (Iso6709.dmSem p dir) := by
  intro d; cases dir <;> exact honest_all (R := R) _ d
theorem dms_honest (p : Parsed R) (dir : Dir) : Honest (Iso6709.dmsSem p dir) := by
  intro d; cases dir <;> exact honest_all (R := R) _ d
theorem helmert_loop_length (hp : Helmert.Params R) (dir : Dir) (st : Helmert.LoopState R) (d : List (Coor R)) :
    (Helmert.loop hp dir st d).length = d.length := by
  induction d generalizing st with
  | nil => rfl
  | cons c rest ih => simp [Helmert.loop, ih]
theorem helmert_honest (p : Parsed R) (dir : Dir) : Honest (Helmert.sem p dir) := by
  intro d; unfold Helmert.sem; split
  · simp [helmert_loop_length]
  · simp
theorem adapt_honest (p : Parsed R) (dir : Dir) : Honest (Adapt.sem p dir) := by
  intro d; unfold Adapt.sem; repeat' split
  all_goals simp
theorem unitconvert_honest (p : Parsed R) (dir : Dir) : Honest (Unitconvert.sem p dir) := by
  intro d; unfold Unitconvert.sem; split <;> simp
theorem axisswap_honest (p : Parsed R) (dir : Dir) : Honest (Ops.axisswapSem R p dir) := by
  intro d; unfold Ops.axisswapSem; split <;> simp
theorem addone_honest (dir : Dir) : Honest (fun d : List (Coor R) => Ops.addoneSem dir d) := by
  intro d; simp [Ops.addoneSem]

theorem gridshift_honest (genv : Grid.GridEnv R) (p : Parsed R) (dir : Dir) : Honest (Gridshift.sem genv p dir) := by
  intro d; unfold Gridshift.sem
  simp only []
  split
  · simp
  · simp only [List.length_map, true_and]; exact filter_map_le _ _ _
theorem deformation_honest (genv : Grid.GridEnv R) (p : Parsed R) (dir : Dir) : Honest (Deformation.sem genv p dir) := by
  intro d; unfold Deformation.sem
  simp only [List.length_map, true_and]; exact filter_map_le _ _ _
theorem deflection_honest (genv : Grid.GridEnv R) (p : Parsed R) (dir : Dir) : Honest (Deflection.sem genv p dir) := by
  intro d; unfold Deflection.sem
  cases dir
  · simp only []
    split
    · simp
    · simp only [List.length_map, true_and]; exact filter_map_le _ _ _
  · simp

/-- **Every modelled built-in operator, in either direction, for any parameters and any data,
returns as many tuples as it was given and never reports more successes than that** -/
theorem honest_ite (c : Bool) (f g : List (Coor R) → List (Coor R) × Nat) (hf : Honest f) (hg : Honest g) :
    Honest (fun d => if c then f d else g d) := by
  intro d; cases c
  · exact hg d
  · exact hf d

theorem registry_honest (genv : Grid.GridEnv R) (tag : Str) (p : Parsed R) (dir : Dir) :
    Honest (Registry.sem R genv tag p dir) := by
  unfold Registry.sem
  apply honest_ite; · exact addone_honest dir
  apply honest_ite; · exact fun d => by simp [Ops.noopSem]
  apply honest_ite; · exact axisswap_honest p dir
  apply honest_ite; · exact helmert_honest p dir
  apply honest_ite; · exact adapt_honest p dir
  apply honest_ite; · exact unitconvert_honest p dir
  apply honest_ite; · exact merc_honest p dir
  apply honest_ite; · exact webmerc_honest p dir
  apply honest_ite; · exact omerc_honest p dir
  apply honest_ite; · exact geodesic_honest p dir
  apply honest_ite; · exact latitude_honest p dir
  apply honest_ite; · exact curvature_honest p dir
  apply honest_ite; · exact gravity_honest p dir
  apply honest_ite; · exact dm_honest p dir
  apply honest_ite; · exact dms_honest p dir
  apply honest_ite; · exact tmerc_honest p dir
  apply honest_ite; · exact btmerc_honest p dir
  apply honest_ite; · exact laea_honest p dir
  apply honest_ite; · exact somerc_honest p dir
  apply honest_ite; · exact cart_honest p dir
  apply honest_ite; · exact molodensky_honest p dir
  apply honest_ite; · exact permtide_honest p dir
  apply honest_ite; · exact lcc_honest p dir
  apply honest_ite; · exact gridshift_honest genv p dir
  apply honest_ite; · exact deformation_honest genv p dir
  apply honest_ite; · exact deflection_honest genv p dir
  apply honest_ite; · exact fun d => by simp [Ops.placeholderSem]
  exact fun d => by simp

/-! ### one-way operators, pipelines -/

/-- **the unsupported inverse of a one-way operator reports zero and leaves the data untouched** -/
theorem oneway_inverse_untouched (p : Parsed R) (data : List (Coor R)) :
    Curvature.sem p .inv data = (data, 0) ∧ Gravity.sem p .inv data = (data, 0) := ⟨rfl, rfl⟩

/-- **a pipeline reports the minimum over its steps**: recording a step's count after a running
minimum `k` leaves `min k m`, and the first recorded count is taken as it is -/
theorem record_min (s : PState R) (cols : Stack.Cols R) (data : List (Coor R)) (m : Nat) :
    (s.record cols data m).n = some (match s.n with | none => m | some k => min k m) := rfl

/-- the running minimum never increases along the steps of a pipeline -/
theorem runFwd_n_le (sem : LeafSem R) (nan : R) (actionOf : ActionOf R) (steps : List (Op R)) (s : PState R)
    (k : Nat) (hk : s.n = some k) : ∃ k', (runFwd sem nan actionOf steps s).n = some k' ∧ k' ≤ k := by
  induction steps generalizing s k with
  | nil => exact ⟨k, by simp [runFwd, hk], Nat.le_refl _⟩
  | cons step rest ih =>
    simp only [runFwd]
    split
    · exact ih s k hk
    · have h : ∀ cols data m, ∃ k1, (s.record cols data m).n = some k1 ∧ k1 ≤ k := by
        intro cols data m
        exact ⟨min k m, by simp [PState.record, hk], Nat.min_le_left _ _⟩
      split
      all_goals first
        | (obtain ⟨k1, h1, h2⟩ := h _ _ _
           obtain ⟨k', h3, h4⟩ := ih _ k1 h1
           exact ⟨k', h3, Nat.le_trans h4 h2⟩)

/-! ### whole operators: pipelines, nested pipelines, stack steps -/

open HonestLemmas StackLemmas in
/-- the shape of the state of a running pipeline over `N` operands: every stack column holds one
value per operand, there are `N` operands, and the running minimum does not exceed `N` -/
def PInv (N : Nat) (s : PState R) : Prop :=
  StackLemmas.ColsOk N s.cols ∧ s.data.length = N ∧ ∀ k, s.n = some k → k ≤ N

theorem record_inv {N : Nat} (s : PState R) (hs : PInv N s) (r : Stack.Cols R × Stack.Data R × Nat)
    (hr : HonestLemmas.StepOk N r) : PInv N (s.record r.1 r.2.1 r.2.2) := by
  refine ⟨hr.1, hr.2.1, ?_⟩
  intro k hk
  simp only [PState.record, Option.some.injEq] at hk
  subst hk
  cases hn : s.n with
  | none => exact hr.2.2
  | some k0 => exact Nat.le_trans (Nat.min_le_right _ _) hr.2.2

/-- **Every operator — elementary, pipeline, nested pipeline, with stack steps, omitted steps and
inverted steps, in either direction — returns as many tuples as it was given and never reports
more successes than that**, provided its elementary operators do (`registry_honest`: every
built-in does).  For all operator trees, all operand sets, all scalar readings. -/
theorem pipeline_honest (sem : LeafSem R) (nan : R) (actionOf : ActionOf R)
    (hsem : ∀ tag p dir, Honest (sem tag p dir)) (o : Op R) :
    ∀ dir, Honest (Geodesy.apply sem nan actionOf o dir) := by
  refine Op.rec
    (motive_1 := fun o => ∀ dir, Honest (Geodesy.apply sem nan actionOf o dir))
    (motive_2 := fun steps => ∀ N s, PInv N s →
      PInv N (runFwd sem nan actionOf steps s) ∧ PInv N (runInv sem nan actionOf steps s))
    ?_ ?_ ?_ o
  · -- an operator: a pipeline runs its steps from the empty stack, anything else is elementary
    intro node steps ih dir data
    rw [Geodesy.apply]
    simp only []
    split
    · have h0 : PInv data.length (⟨[], data, none⟩ : PState R) :=
        ⟨fun c hc => (by cases hc), rfl, fun k hk => (by cases hk)⟩
      obtain ⟨hf, hi⟩ := ih data.length _ h0
      split
      · refine ⟨hf.2.1, ?_⟩
        split
        · exact Nat.le_refl _
        · rename_i k hk; exact hf.2.2 k hk
      · refine ⟨hi.2.1, ?_⟩
        split
        · exact Nat.le_refl _
        · rename_i k hk; exact hi.2.2 k hk
    · exact hsem _ _ _ data
  · intro N s hs
    exact ⟨by simpa [runFwd] using hs, by simpa [runInv] using hs⟩
  · intro step rest ihstep ihrest N s hs
    constructor
    · simp only [runFwd]
      split
      · exact (ihrest N s hs).1
      · refine (ihrest N _ ?_).1
        split
        · exact record_inv s hs _ (HonestLemmas.legacyPush_ok _ _ _ hs.1 hs.2.1)
        · exact record_inv s hs _ (HonestLemmas.legacyPop_ok _ _ _ _ hs.1 hs.2.1)
        · exact record_inv s hs _ (HonestLemmas.fwd_ok _ _ _ _ hs.1 hs.2.1)
        · exact record_inv s hs (s.cols, s.data, 0) ⟨hs.1, hs.2.1, Nat.zero_le _⟩
        · have h := ihstep .fwd s.data
          exact record_inv s hs (s.cols, _, _) ⟨hs.1, by rw [h.1, hs.2.1], by rw [← hs.2.1]; exact h.2⟩
    · simp only [runInv]
      have hs' := (ihrest N s hs).2
      split
      · exact hs'
      · split
        · exact record_inv _ hs' _ (HonestLemmas.legacyPop_ok _ _ _ _ hs'.1 hs'.2.1)
        · exact record_inv _ hs' _ (HonestLemmas.legacyPush_ok _ _ _ hs'.1 hs'.2.1)
        · exact record_inv _ hs' _ (HonestLemmas.inv_ok _ _ _ _ hs'.1 hs'.2.1)
        · exact record_inv _ hs' (_, _, 0) ⟨hs'.1, hs'.2.1, Nat.zero_le _⟩
        · have h := ihstep .inv (runInv sem nan actionOf rest s).data
          exact record_inv _ hs' (_, _, _) ⟨hs'.1, by rw [h.1, hs'.2.1], by rw [← hs'.2.1]; exact h.2⟩

/-- **the built-in operators composed in any way are honest** (the registry instance of
`pipeline_honest`) -/
theorem builtin_pipelines_honest (genv : Grid.GridEnv R) (nan : R) (actionOf : ActionOf R) (o : Op R) (dir : Dir) :
    Honest (Geodesy.apply (Registry.sem R genv) nan actionOf o dir) :=
  pipeline_honest _ nan actionOf (fun tag p dir => registry_honest genv tag p dir) o dir

end C10
end Geodesy
