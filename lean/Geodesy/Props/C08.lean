/-
C08 — grid look-up is bilinear, first-hit among grids, finest sub-grid within a file.

Model side: `Geodesy/Model/Num/Grid.lean` (`contains`, `at`, `grids_at`, Gravsoft reader),
`Geodesy/Model/Num/Ntv2.lean` (NTv2 decoder, `find_grid`), mirrored from `grid/mod.rs`,
`grid/ntv2/*`.  The theorems below are in the real-number reading.
-/
import Geodesy.Model.Num.Ntv2
import Geodesy.Model.Ops.GridOps
import Geodesy.Lemmas.Real
import Mathlib.Tactic.Linarith

namespace Geodesy
namespace C08
open Grid

/-! ### the interpolation formula -/

/-- `bilinear` over ℝ, spelled out -/
theorem bilinear_eq (ll lr ul ur a c : ℝ) :
    bilinear ll lr ul ur a c = (1 - a) * ((1 - c) * ll + c * ul) + a * ((1 - c) * lr + c * ur) := by
  simp [bilinear, Grid.n]

/-- **At a node the node value is delivered**: the four corners of the cell -/
theorem at_node (ll lr ul ur : ℝ) :
    bilinear ll lr ul ur 0 0 = ll ∧ bilinear ll lr ul ur 1 0 = lr ∧
    bilinear ll lr ul ur 0 1 = ul ∧ bilinear ll lr ul ur 1 1 = ur := by
  simp [bilinear_eq]

/-- **Inside a cell the value lies within the range of the four corner values** -/
theorem at_convex (ll lr ul ur a c lo hi : ℝ) (ha : 0 ≤ a ∧ a ≤ 1) (hc : 0 ≤ c ∧ c ≤ 1)
    (hlo : lo ≤ ll ∧ lo ≤ lr ∧ lo ≤ ul ∧ lo ≤ ur) (hhi : ll ≤ hi ∧ lr ≤ hi ∧ ul ≤ hi ∧ ur ≤ hi) :
    lo ≤ bilinear ll lr ul ur a c ∧ bilinear ll lr ul ur a c ≤ hi := by
  rw [bilinear_eq]
  obtain ⟨ha0, ha1⟩ := ha
  obtain ⟨hc0, hc1⟩ := hc
  have h1a : 0 ≤ 1 - a := by linarith
  have h1c : 0 ≤ 1 - c := by linarith
  constructor
  · have e : lo = (1 - a) * ((1 - c) * lo + c * lo) + a * ((1 - c) * lo + c * lo) := by ring
    rw [e]
    have i1 : (1 - c) * lo + c * lo ≤ (1 - c) * ll + c * ul := by
      have := mul_le_mul_of_nonneg_left hlo.1 h1c
      have := mul_le_mul_of_nonneg_left hlo.2.2.1 hc0
      linarith
    have i2 : (1 - c) * lo + c * lo ≤ (1 - c) * lr + c * ur := by
      have := mul_le_mul_of_nonneg_left hlo.2.1 h1c
      have := mul_le_mul_of_nonneg_left hlo.2.2.2 hc0
      linarith
    have := mul_le_mul_of_nonneg_left i1 h1a
    have := mul_le_mul_of_nonneg_left i2 ha0
    linarith
  · have e : hi = (1 - a) * ((1 - c) * hi + c * hi) + a * ((1 - c) * hi + c * hi) := by ring
    rw [e]
    have i1 : (1 - c) * ll + c * ul ≤ (1 - c) * hi + c * hi := by
      have := mul_le_mul_of_nonneg_left hhi.1 h1c
      have := mul_le_mul_of_nonneg_left hhi.2.2.1 hc0
      linarith
    have i2 : (1 - c) * lr + c * ur ≤ (1 - c) * hi + c * hi := by
      have := mul_le_mul_of_nonneg_left hhi.2.1 h1c
      have := mul_le_mul_of_nonneg_left hhi.2.2.2 hc0
      linarith
    have := mul_le_mul_of_nonneg_left i1 h1a
    have := mul_le_mul_of_nonneg_left i2 ha0
    linarith

/-- **Continuity across cell boundaries**: on the edge shared by two neighbouring cells (east /
west neighbours: relative abscissa 1 in the one, 0 in the other) both cells' bilinear forms
give the same value, the linear interpolation of the two shared nodes; likewise for north /
south neighbours.  So the choice of cell made by `floor` / `ceil` on an edge is immaterial. -/
theorem at_edge_agree (a b c d e f t : ℝ) :
    bilinear a b c d 1 t = bilinear b e d f 0 t ∧ bilinear a b c d t 1 = bilinear c d e f t 0 := by
  simp only [bilinear_eq]
  constructor <;> ring

/-- **Linear continuation in the margin**: outside the grid the value is the same bilinear form
of the nearest cell; along any line it is a polynomial of degree ≤ 1 in each coordinate, e.g. the
second difference in the abscissa vanishes. -/
theorem at_margin_linear (ll lr ul ur a h c : ℝ) :
    bilinear ll lr ul ur (a + h) c - 2 * bilinear ll lr ul ur a c + bilinear ll lr ul ur (a - h) c = 0 := by
  simp only [bilinear_eq]
  ring

/-! ### containment -/

/-- **Containment with margin**: for a grid stored north to south, west to east, a point is
contained iff it is within the borders widened by `margin` cells, borders included. -/
theorem contains_iff (g : BaseGrid ℝ) (lon lat m : ℝ) (hlat : g.dlat ≤ 0) (hlon : 0 ≤ g.dlon) :
    contains g lon lat m = true ↔
      (g.latS - m * |g.dlat| ≤ lat ∧ lat ≤ g.latN + m * |g.dlat|) ∧
      (g.lonW - m * |g.dlon| ≤ lon ∧ lon ≤ g.lonE + m * |g.dlon|) := by
  have h1 : ¬ (0 < g.dlat) := by linarith
  have h2 : ¬ (g.dlon < 0) := by linarith
  simp [contains, within, Scalar.gt, Grid.n, h1, h2]

/-! ### lists of grids -/

section lists
variable {R : Type} [Scalar R]

/-- **First hit**: the first grid containing the point at margin 0 is used; if there is none,
the first one within the half-cell margin; if there is none either, the null grid (when given)
passes the point unchanged, else the point is failed. -/
theorem grids_at_first_hit (ats : List (R → Option (Coor R))) (useNull : Bool) :
    gridsAt ats useNull =
      match ats.findSome? (fun f => f (Grid.n 0)) with
      | some d => some d
      | none =>
        match ats.findSome? (fun f => f (Scalar.ofLit (.fin false 5 (-1)))) with
        | some d => some d
        | none => if useNull then some ⟨Grid.n 0, Grid.n 0, Grid.n 0, Grid.n 0⟩ else none := rfl

/-- the grid at position `k` is used iff no earlier grid contains the point at margin 0 -/
theorem first_hit_position (ats : List (R → Option (Coor R))) (k : Nat) (f : R → Option (Coor R)) (d : Coor R)
    (hk : ats[k]? = some f) (hd : f (Grid.n 0) = some d)
    (hbefore : ∀ j g, j < k → ats[j]? = some g → g (Grid.n 0) = none) (useNull : Bool) :
    gridsAt ats useNull = some d := by
  have : ats.findSome? (fun f => f (Grid.n 0)) = some d := by
    induction ats generalizing k with
    | nil => simp at hk
    | cons a rest ih =>
      cases k with
      | zero =>
        simp at hk
        subst hk
        simp [List.findSome?, hd]
      | succ k =>
        have ha : a (Grid.n 0) = none := hbefore 0 a (by omega) (by simp)
        simp only [List.findSome?, ha]
        exact ih k (by simpa using hk) (fun j g hj hg => hbefore (j + 1) g (by omega) (by simpa using hg))
  simp [gridsAt, this]

/-- outside all grids: failed, unless the null grid is given -/
theorem outside_all (ats : List (R → Option (Coor R))) (h : ∀ f ∈ ats, ∀ m, f m = none) :
    gridsAt ats false = none ∧ gridsAt ats true = some ⟨Grid.n 0, Grid.n 0, Grid.n 0, Grid.n 0⟩ := by
  have hn : ∀ m : R, ats.findSome? (fun f => f m) = none := by
    intro m
    apply List.findSome?_eq_none_iff.mpr
    intro f hf
    exact h f hf m
  simp [gridsAt, hn]

end lists

/-! ### unit and order conventions of Gravsoft node values -/

/-- two bands: the file's (latitude, longitude) pairs become (longitude, latitude) -/
theorem swap_pairs_spec (a b c d : ℝ) : swapPairs [a, b, c, d] = [b, a, d, c] := rfl

/-- three bands: (north, east, up) becomes (east, north, up) -/
theorem swap_triples_spec (a b c d e f : ℝ) : swapFirstTwoOfThree [a, b, c, d, e, f] = [b, a, c, e, d, f] := rfl

/-! ### the grid operators -/

open Ops in
/-- **deformation searches its grids exactly like `grids_at` without the null grid**: the two
nested loops of the operator (margin 0 over all grids, then margin 0.5) are the two passes -/
theorem deformation_first_hit (gs : List (GridObj ℝ)) (lon lat : ℝ) :
    Deformation.firstHit gs lon lat = gridsAtObjs gs lon lat false := by
  simp only [Deformation.firstHit, gridsAtObjs, gridsAt, List.findSome?_map, Function.comp_def]
  have h0 : (@OfScientific.ofScientific ℝ Scalar.instOfScientific 0 true 1) = Grid.n 0 := by
    simp [OfScientific.ofScientific, Scalar.ofSci, Lit.toReal, Grid.n]
  have h5 : (@OfScientific.ofScientific ℝ Scalar.instOfScientific 5 true 1) = Scalar.ofLit (.fin false 5 (-1)) := by
    simp [OfScientific.ofScientific, Scalar.ofSci]
  rw [h0, h5]
  cases List.findSome? (fun g => g.look lon lat (Grid.n 0)) gs with
  | some d => rfl
  | none =>
    cases List.findSome? (fun g => g.look lon lat (Scalar.ofLit (.fin false 5 (-1)))) gs <;> rfl

open Ops in
/-- **forward datum shifts ADD the correction of the first grid hit, geoid heights are
SUBTRACTED; with the null grid a point outside every grid passes unchanged; without it the
point is failed** (gridshift, two-band and one-band grids) -/
theorem gridshift_fwd_spec (gs : List (GridObj ℝ)) (c : Coor ℝ) :
    (∀ d, gridsAtObjs gs c.c0 c.c1 false = some d → (gs.head?.map (·.bands)) ≠ some 1 →
      Gridshift.fwd gs false c = some { c with c0 := c.c0 + d.c0, c1 := c.c1 + d.c1 }) ∧
    (∀ d, gridsAtObjs gs c.c0 c.c1 false = some d → (gs.head?.map (·.bands)) = some 1 →
      Gridshift.fwd gs false c = some { c with c2 := c.c2 - d.c0 }) ∧
    (gridsAtObjs gs c.c0 c.c1 false = none → Gridshift.fwd gs false c = none) ∧
    ((∀ g ∈ gs, ∀ m, g.look c.c0 c.c1 m = none) → (gs.head?.map (·.bands)) ≠ some 1 →
      Gridshift.fwd gs true c = some c) := by
  refine ⟨?_, ?_, ?_, ?_⟩
  · intro d hd hb
    simp [Gridshift.fwd, hd, hb]
  · intro d hd hb
    simp [Gridshift.fwd, hd, hb]
  · intro hn
    simp [Gridshift.fwd, hn]
  · intro hout hb
    have : gridsAtObjs gs c.c0 c.c1 true = some ⟨Grid.n 0, Grid.n 0, Grid.n 0, Grid.n 0⟩ := by
      unfold gridsAtObjs
      exact (outside_all _ (by
        intro f hf m
        simp only [List.mem_map] at hf
        obtain ⟨g, hg, rfl⟩ := hf
        exact hout g hg m)).2
    simp [Gridshift.fwd, this, hb, Grid.n]

/-! ### NTv2: the sub-grid tree walk -/

section subgrids
variable {R : Type} [Scalar R]
open Ntv2

/-- sub-grid `id` *takes* the point: it exists, contains the point (tolerance 1e-6) and the point
is not on its upper latitude or longitude border (NTv2 counts those as outside) -/
def Takes (g : Ntv2 R) (lon lat : R) (id : Str) : Prop :=
  ∃ cur, lookupGrid g id = some cur ∧ Grid.contains cur lon lat eps6 = true ∧
    (Scalar.lt (Scalar.abs (lon - cur.lonE)) eps6 || Scalar.lt (Scalar.abs (lat - cur.latN)) eps6) = false

/-- `find_grid`'s loop with the bookkeeping made visible: `none` when the iteration allowance of
the model is used up or a table entry is missing (the Rust loop has no allowance; the decoder
builds both tables together) -/
def findLoopF (g : Ntv2 R) (lon lat : R) : Nat → List Str → Str → Option Str
  | 0, _, _ => none
  | fuel + 1, queue, current =>
    match queue.getLast? with
    | none => some current
    | some gridId =>
      match lookupGrid g gridId with
      | none => none
      | some cur =>
        if Grid.contains cur lon lat eps6 then
          if Scalar.lt (Scalar.abs (lon - cur.lonE)) eps6 || Scalar.lt (Scalar.abs (lat - cur.latN)) eps6 then
            findLoopF g lon lat fuel queue.dropLast current
          else
            match childrenOf g gridId with
            | some ch => findLoopF g lon lat fuel ch gridId
            | none => some gridId
        else findLoopF g lon lat fuel queue.dropLast current

/-- whenever the visible loop ends, the model's loop ends with the same sub-grid -/
theorem findLoopF_eq (g : Ntv2 R) (lon lat : R) (fuel : Nat) (queue : List Str) (current r : Str)
    (h : findLoopF g lon lat fuel queue current = some r) : findLoop g lon lat fuel queue current = r := by
  induction fuel generalizing queue current with
  | zero => simp [findLoopF] at h
  | succ fuel ih =>
    unfold findLoopF at h
    unfold findLoop
    cases hq : queue.getLast? with
    | none => simp only [hq] at h ⊢; exact Option.some.inj h
    | some gridId =>
      simp only [hq] at h ⊢
      cases hl : lookupGrid g gridId with
      | none => simp [hl] at h
      | some cur =>
        simp only [hl] at h ⊢
        split at h
        · split at h
          · rename_i h1 h2; simp only [h1, h2, if_true]; exact ih _ _ h
          · rename_i h1 h2
            simp only [h1, h2, if_true]
            cases hc : childrenOf g gridId with
            | none => simp only [hc] at h ⊢; simp at h ⊢; exact h
            | some ch => simp only [hc] at h ⊢; simp; exact ih _ _ h
        · rename_i h1; simp only [h1]; simp; exact ih _ _ h

/-- **the sub-grid used takes the point** (for any hierarchy, any allowance): the walk never
ends in a sub-grid that does not contain the point -/
theorem find_grid_sound (g : Ntv2 R) (lon lat : R) (fuel : Nat) (queue : List Str) (current : Str) :
    findLoop g lon lat fuel queue current = current ∨ Takes g lon lat (findLoop g lon lat fuel queue current) := by
  induction fuel generalizing queue current with
  | zero => left; rfl
  | succ fuel ih =>
    unfold findLoop
    cases hq : queue.getLast? with
    | none => left; rfl
    | some gridId =>
      simp only []
      cases hl : lookupGrid g gridId with
      | none => left; rfl
      | some cur =>
        simp only []
        split
        · rename_i h1
          split
          · exact ih _ _
          · rename_i h2
            have htk : Takes g lon lat gridId := ⟨cur, hl, h1, by simpa using h2⟩
            cases hc : childrenOf g gridId with
            | none => right; exact htk
            | some ch =>
              simp only []
              rcases ih ch gridId with h | h
              · right; rw [h]; exact htk
              · right; exact h
        · exact ih _ _

/-- **within an NTv2 file the deepest sub-grid containing the point is used**: when the walk
ends in sub-grid `r`, either nothing in the queue took the point (and `r` is where the walk
stood), or `r` takes the point and none of its children does -/
theorem find_grid_deepest (g : Ntv2 R) (lon lat : R) (fuel : Nat) (queue : List Str) (current r : Str)
    (h : findLoopF g lon lat fuel queue current = some r) :
    (r = current ∧ ∀ q ∈ queue, ¬ Takes g lon lat q) ∨
    (Takes g lon lat r ∧ ∀ chs, childrenOf g r = some chs → ∀ ch ∈ chs, ¬ Takes g lon lat ch) := by
  induction fuel generalizing queue current with
  | zero => simp [findLoopF] at h
  | succ fuel ih =>
    unfold findLoopF at h
    cases hq : queue.getLast? with
    | none =>
      simp only [hq] at h
      left
      have : queue = [] := by simpa using hq
      exact ⟨(Option.some.inj h).symm, by simp [this]⟩
    | some gridId =>
      simp only [hq] at h
      have hsplit : queue = queue.dropLast ++ [gridId] := by
        have := List.dropLast_append_getLast? gridId hq
        exact this.symm
      cases hl : lookupGrid g gridId with
      | none => simp [hl] at h
      | some cur =>
        simp only [hl] at h
        -- the popped sub-grid does not take the point: go on with the rest of the queue
        have skip : ¬ Takes g lon lat gridId → findLoopF g lon lat fuel queue.dropLast current = some r →
            (r = current ∧ ∀ q ∈ queue, ¬ Takes g lon lat q) ∨
            (Takes g lon lat r ∧ ∀ chs, childrenOf g r = some chs → ∀ ch ∈ chs, ¬ Takes g lon lat ch) := by
          intro hnt hrest
          rcases ih _ _ hrest with ⟨h1, h2⟩ | h2
          · left
            refine ⟨h1, fun q hqm => ?_⟩
            rw [hsplit] at hqm
            rcases List.mem_append.mp hqm with hm | hm
            · exact h2 q hm
            · simp only [List.mem_cons, List.mem_nil_iff, or_false] at hm; subst hm; exact hnt
          · right; exact h2
        split at h
        · rename_i h1
          split at h
          · rename_i h2
            apply skip _ h
            rintro ⟨c', hl', _, hb⟩
            rw [hl] at hl'; cases hl'
            rw [h2] at hb; cases hb
          · rename_i h2
            have htk : Takes g lon lat gridId := ⟨cur, hl, h1, by simpa using h2⟩
            right
            cases hc : childrenOf g gridId with
            | none =>
              simp only [hc] at h
              cases h
              exact ⟨htk, fun chs hch => by rw [hc] at hch; cases hch⟩
            | some ch =>
              simp only [hc] at h
              rcases ih _ _ h with ⟨h3, h4⟩ | h4
              · subst h3
                exact ⟨htk, fun chs hch => by rw [hc] at hch; cases hch; exact h4⟩
              · exact h4
        · rename_i h1
          apply skip _ h
          rintro ⟨c', hl', hcont, _⟩
          rw [hl] at hl'; cases hl'
          exact h1 hcont

end subgrids


/-! ### NTv2: the walk ends

The Rust loop `while let Some(grid_id) = queue.pop()` has no iteration allowance; the model's has
one (`subgrids.length + 1`).  For every hierarchy the decoder accepts — sub-grids in any order,
children before parents, parents that do not exist, cycles among sub-grids that cannot be reached
from the roots — the allowance is never used up: every sub-grid is popped at most once. -/

section termination
variable {R : Type} [Scalar R]
open Ntv2 Text

/-- the sub-grid names, in file order -/
def names (g : Ntv2 R) : List Str := g.subgrids.map (·.1)

/-- what `Ntv2Grid::new` establishes about its two tables -/
structure WF (g : Ntv2 R) : Prop where
  namesNodup : (names g).Nodup
  kidsNodup : ∀ e ∈ g.children, e.2.Nodup
  oneParent : ∀ e1 ∈ g.children, ∀ e2 ∈ g.children, ∀ n, n ∈ e1.2 → n ∈ e2.2 → e1.1 = e2.1
  kidsNamed : ∀ e ∈ g.children, ∀ n ∈ e.2, n ∈ names g ∧ n ≠ S "NONE"

theorem lookup_of_named (g : Ntv2 R) (n : Str) (h : n ∈ names g) : ∃ cur, lookupGrid g n = some cur := by
  unfold names at h
  obtain ⟨e, he, rfl⟩ := List.mem_map.mp h
  unfold lookupGrid
  cases hf : g.subgrids.find? (·.1 == e.1) with
  | none =>
    have := List.find?_eq_none.mp hf e he
    simp at this
  | some x => exact ⟨x.2, rfl⟩

theorem childrenOf_mem (g : Ntv2 R) (k : Str) (ch : List Str) (h : childrenOf g k = some ch) :
    ∃ e ∈ g.children, e.1 = k ∧ e.2 = ch := by
  unfold childrenOf at h
  cases hf : g.children.find? (·.1 == k) with
  | none => simp [hf] at h
  | some x =>
    simp only [hf, Option.map_some, Option.some.injEq] at h
    exact ⟨x, List.mem_of_find?_eq_some hf, by simpa using List.find?_some hf, h⟩

/-- the state of the walk: `P` are the sub-grids popped so far -/
structure WalkInv (g : Ntv2 R) (P queue : List Str) (current : Str) : Prop where
  pNodup : P.Nodup
  pNamed : ∀ n ∈ P, n ∈ names g
  qNodup : queue.Nodup
  qFresh : ∀ q ∈ queue, q ∉ P
  qKids : ∀ q ∈ queue, ∃ e ∈ g.children, e.1 = current ∧ q ∈ e.2
  curPopped : current ∈ P ∨ current = S "NONE"
  parents : ∀ e ∈ g.children, ∀ n ∈ e.2, n ∈ P → e.1 ∈ P ∨ e.1 = S "NONE"

theorem popped_le (g : Ntv2 R) (P : List Str) (h1 : P.Nodup) (h2 : ∀ n ∈ P, n ∈ names g) :
    P.length ≤ (names g).length :=
  (List.subperm_of_subset h1 h2).length_le

/-- **the walk ends within the allowance** -/
theorem walk_ends (g : Ntv2 R) (wf : WF g) (lon lat : R) (fuel : Nat) (P queue : List Str) (current : Str)
    (inv : WalkInv g P queue current) (hfuel : (names g).length + 1 ≤ fuel + P.length) :
    ∃ r, findLoopF g lon lat fuel queue current = some r := by
  induction fuel generalizing P queue current with
  | zero =>
    have := popped_le g P inv.pNodup inv.pNamed
    omega
  | succ fuel ih =>
    unfold findLoopF
    cases hq : queue.getLast? with
    | none => exact ⟨current, rfl⟩
    | some gridId =>
      simp only []
      have hsplit : queue = queue.dropLast ++ [gridId] := (List.dropLast_append_getLast? gridId hq).symm
      have hmem : gridId ∈ queue := by rw [hsplit]; simp
      obtain ⟨e0, he0, hk0, hin0⟩ := inv.qKids gridId hmem
      have hnamed := wf.kidsNamed e0 he0 gridId hin0
      obtain ⟨cur, hl⟩ := lookup_of_named g gridId hnamed.1
      have hfresh : gridId ∉ P := inv.qFresh gridId hmem
      have hnd : (queue.dropLast ++ [gridId]).Nodup := hsplit ▸ inv.qNodup
      -- what holds of the popped set after this iteration, wherever the walk goes
      have pNodup' : (gridId :: P).Nodup := List.nodup_cons.mpr ⟨hfresh, inv.pNodup⟩
      have pNamed' : ∀ n ∈ gridId :: P, n ∈ names g := by
        intro n hn
        rcases List.mem_cons.mp hn with rfl | hn
        · exact hnamed.1
        · exact inv.pNamed n hn
      have curPopped' : current ∈ gridId :: P ∨ current = S "NONE" := by
        rcases inv.curPopped with h | h
        · left; exact List.mem_cons_of_mem _ h
        · right; exact h
      have parents' : ∀ e ∈ g.children, ∀ n ∈ e.2, n ∈ gridId :: P → e.1 ∈ gridId :: P ∨ e.1 = S "NONE" := by
        intro e he n hn hp
        rcases List.mem_cons.mp hp with rfl | hp
        · have := wf.oneParent e he e0 he0 n hn hin0
          rw [this, hk0]; exact curPopped'
        · rcases inv.parents e he n hn hp with h | h
          · left; exact List.mem_cons_of_mem _ h
          · right; exact h
      have hfuel' : (names g).length + 1 ≤ fuel + (gridId :: P).length := by
        simp only [List.length_cons]; omega
      -- the rest of the queue
      have skipInv : WalkInv g (gridId :: P) queue.dropLast current := by
        refine ⟨pNodup', pNamed', (List.nodup_append.mp hnd).1, ?_, ?_, curPopped', parents'⟩
        · intro q hqm hp
          rcases List.mem_cons.mp hp with rfl | hp
          · exact (List.nodup_append.mp hnd).2.2 q hqm q (by simp) rfl
          · exact inv.qFresh q (by rw [hsplit]; exact List.mem_append_left _ hqm) hp
        · intro q hqm
          exact inv.qKids q (by rw [hsplit]; exact List.mem_append_left _ hqm)
      simp only [hl]
      split
      · split
        · exact ih _ _ _ skipInv hfuel'
        · cases hc : childrenOf g gridId with
          | none => exact ⟨gridId, rfl⟩
          | some ch =>
            simp only []
            obtain ⟨e1, he1, hk1, hch1⟩ := childrenOf_mem g gridId ch hc
            have downInv : WalkInv g (gridId :: P) ch gridId := by
              refine ⟨pNodup', pNamed', hch1 ▸ wf.kidsNodup e1 he1, ?_, ?_, Or.inl (by simp), parents'⟩
              · intro q hqm hp
                have hq1 : q ∈ e1.2 := hch1 ▸ hqm
                rcases List.mem_cons.mp hp with rfl | hp
                · -- the sub-grid would be its own parent
                  have := wf.oneParent e1 he1 e0 he0 q hq1 hin0
                  rw [hk1, hk0] at this
                  rcases inv.curPopped with h | h
                  · exact hfresh (this ▸ h)
                  · exact hnamed.2 (this ▸ h)
                · rcases inv.parents e1 he1 q hq1 hp with h | h
                  · exact hfresh (hk1 ▸ h)
                  · exact hnamed.2 (hk1 ▸ h)
              · intro q hqm
                exact ⟨e1, he1, hk1, hch1 ▸ hqm⟩
            exact ih _ _ _ downInv hfuel'
      · exact ih _ _ _ skipInv hfuel'

/-- an entry of the table after `lookup_table.entry(parent).or_insert_with(Vec::new).push(name)`:
an old entry, an old entry under `parent` with `name` appended, or the new entry -/
theorem mem_pushChild (t : List (Str × List Str)) (parent name : Str) (e : Str × List Str)
    (h : e ∈ pushChild t parent name) :
    ∃ old : List Str, (old = [] ∨ ∃ e0 ∈ t, e0.1 = e.1 ∧ e0.2 = old) ∧
      (e.2 = old ∨ (e.2 = old ++ [name] ∧ e.1 = parent)) := by
  unfold pushChild at h
  split at h
  · obtain ⟨e0, he0, rfl⟩ := List.mem_map.mp h
    by_cases hk : (e0.1 == parent) = true
    · simp only [hk, if_true]
      exact ⟨e0.2, Or.inr ⟨e0, he0, rfl, rfl⟩, Or.inr ⟨rfl, by simpa using hk⟩⟩
    · simp only [hk]
      exact ⟨e0.2, Or.inr ⟨e0, he0, rfl, rfl⟩, Or.inl rfl⟩
  · rcases List.mem_append.mp h with h | h
    · exact ⟨e.2, Or.inr ⟨e, h, rfl, rfl⟩, Or.inl rfl⟩
    · simp only [List.mem_cons, List.not_mem_nil, or_false] at h
      subst h
      exact ⟨[], Or.inl rfl, Or.inr ⟨rfl, rfl⟩⟩

/-- one more sub-grid keeps the tables well formed -/
theorem wf_push (g : Ntv2 R) (wf : WF g) (name parent : Str) (b : Grid.BaseGrid R)
    (hnone : name ≠ S "NONE") (hnew : name ∉ names g) :
    WF { subgrids := g.subgrids ++ [(name, b)], children := pushChild g.children parent name } := by
  have hnames : names ({ subgrids := g.subgrids ++ [(name, b)], children := pushChild g.children parent name } : Ntv2 R)
      = names g ++ [name] := by simp [names]
  -- `name` is in no list of the old table
  have hfresh : ∀ e0 ∈ g.children, name ∉ e0.2 := fun e0 he0 hin => hnew (wf.kidsNamed e0 he0 name hin).1
  -- membership in a list of the new table
  have hmem : ∀ e ∈ pushChild g.children parent name, ∀ n ∈ e.2,
      (∃ e0 ∈ g.children, e0.1 = e.1 ∧ n ∈ e0.2) ∨ (n = name ∧ e.1 = parent) := by
    intro e he n hn
    obtain ⟨old, hold, hnew'⟩ := mem_pushChild _ _ _ e he
    rcases hnew' with h | ⟨h, hp⟩
    · rcases hold with rfl | ⟨e0, he0, hk, rfl⟩
      · rw [h] at hn; cases hn
      · left; exact ⟨e0, he0, hk, h ▸ hn⟩
    · rw [h] at hn
      rcases List.mem_append.mp hn with hn | hn
      · rcases hold with rfl | ⟨e0, he0, hk, rfl⟩
        · cases hn
        · left; exact ⟨e0, he0, hk, hn⟩
      · right; exact ⟨by simpa using hn, hp⟩
  refine ⟨?_, ?_, ?_, ?_⟩
  · rw [hnames]
    refine List.nodup_append.mpr ⟨wf.namesNodup, by simp, ?_⟩
    intro a ha c hc hac
    simp only [List.mem_cons, List.not_mem_nil, or_false] at hc
    subst hc; subst hac; exact hnew ha
  · intro e he
    obtain ⟨old, hold, hnew'⟩ := mem_pushChild _ _ _ e he
    have hold_nd : old.Nodup ∧ name ∉ old := by
      rcases hold with rfl | ⟨e0, he0, _, rfl⟩
      · simp
      · exact ⟨wf.kidsNodup e0 he0, hfresh e0 he0⟩
    rcases hnew' with h | ⟨h, _⟩
    · rw [h]; exact hold_nd.1
    · rw [h]
      refine List.nodup_append.mpr ⟨hold_nd.1, by simp, ?_⟩
      intro a ha c hc hac
      simp only [List.mem_cons, List.not_mem_nil, or_false] at hc
      subst hc; subst hac; exact hold_nd.2 ha
  · intro e1 he1 e2 he2 n hn1 hn2
    rcases hmem e1 he1 n hn1 with ⟨a, ha, hka, hna⟩ | ⟨hn, hp1⟩
    · rcases hmem e2 he2 n hn2 with ⟨c, hc, hkc, hnc⟩ | ⟨hn, _⟩
      · rw [← hka, ← hkc]; exact wf.oneParent a ha c hc n hna hnc
      · exact absurd (hn ▸ hna) (hfresh a ha)
    · rcases hmem e2 he2 n hn2 with ⟨c, hc, _, hnc⟩ | ⟨_, hp2⟩
      · exact absurd (hn ▸ hnc) (hfresh c hc)
      · rw [hp1, hp2]
  · intro e he n hn
    rw [hnames]
    rcases hmem e he n hn with ⟨a, ha, _, hna⟩ | ⟨rfl, _⟩
    · have := wf.kidsNamed a ha n hna
      exact ⟨List.mem_append_left _ this.1, this.2⟩
    · exact ⟨by simp, hnone⟩

/-- the loop over the sub-grids of `Ntv2Grid::new` keeps the tables well formed -/
theorem readSubgrids_wf (nm : Num R) (p : Parser) (k off : Nat) (acc g : Ntv2 R) (wf : WF acc)
    (h : readSubgrids nm p k off acc = .ok g) : WF g := by
  induction k generalizing off acc with
  | zero => simp only [readSubgrids] at h; cases h; exact wf
  | succ k ih =>
    unfold readSubgrids at h
    split at h
    · cases h
    · cases hs : subgrid nm p off with
      | error e => simp [hs] at h
      | ok r =>
        obtain ⟨name, parent, b⟩ := r
        simp only [hs] at h
        split at h
        · cases h
        · rename_i hcond
          simp only [Bool.or_eq_true, not_or] at hcond
          have h1 : name ≠ S "NONE" := by simpa using hcond.1
          have h2 : name ∉ names acc := by
            intro hin
            obtain ⟨e, he, rfl⟩ := List.mem_map.mp hin
            exact hcond.2 (List.any_eq_true.mpr ⟨e, he, by simp⟩)
          exact ih _ _ (wf_push acc wf name parent b h1 h2) h

/-- **every hierarchy the decoder accepts is well formed** -/
theorem decode_wf (nm : Num R) (buf : Bytes) (g : Ntv2 R) (h : decode nm buf = .ok g) : WF g := by
  unfold decode at h
  split at h; · cases h
  simp only [] at h
  split at h; · cases h
  split at h; · cases h
  split at h; · cases h
  split at h
  · cases h
  · rename_i g' hr
    split at h
    · cases h
      refine readSubgrids_wf nm _ _ _ _ _ ⟨?_, ?_, ?_, ?_⟩ hr <;> simp [names]
    · cases h

/-- **`find_grid`'s loop ends for every file the decoder accepts and every point**, within the
allowance the model gives it; with `findLoopF_eq` and `find_grid_deepest` the sub-grid the model
uses is then the deepest one that takes the point -/
theorem find_grid_ends (nm : Num R) (buf : Bytes) (g : Ntv2 R) (h : decode nm buf = .ok g) (lon lat : R) :
    ∃ r, findLoopF g lon lat (g.subgrids.length + 1) ((childrenOf g (S "NONE")).getD []) (S "NONE") = some r := by
  have wf := decode_wf nm buf g h
  apply walk_ends g wf lon lat _ [] _ _ _ (by simp [names])
  cases hc : childrenOf g (S "NONE") with
  | none => exact ⟨by simp, by simp, by simp, by simp, by simp, Or.inr rfl, by simp⟩
  | some ch =>
    obtain ⟨e, he, hk, hch⟩ := childrenOf_mem g _ ch hc
    refine ⟨by simp, by simp, ?_, by simp, ?_, Or.inr rfl, by simp⟩
    · simpa [hch] using wf.kidsNodup e he
    · intro q hq
      exact ⟨e, he, hk, hch ▸ (by simpa using hq)⟩

/-- the model's `find_grid` on a decoded file: the walk's result is the deepest sub-grid taking the point -/
theorem find_grid_decoded (nm : Num R) (buf : Bytes) (g : Ntv2 R) (h : decode nm buf = .ok g) (lon lat : R) :
    let r := findLoop g lon lat (g.subgrids.length + 1) ((childrenOf g (S "NONE")).getD []) (S "NONE")
    (r = S "NONE" ∧ ∀ q ∈ (childrenOf g (S "NONE")).getD [], ¬ Takes g lon lat q) ∨
    (Takes g lon lat r ∧ ∀ chs, childrenOf g r = some chs → ∀ ch ∈ chs, ¬ Takes g lon lat ch) := by
  obtain ⟨r, hr⟩ := find_grid_ends nm buf g h lon lat
  have := findLoopF_eq g lon lat _ _ _ r hr
  simp only [this]
  exact find_grid_deepest g lon lat _ _ _ r hr

end termination

/-! ### non-vacuity -/

example : (0 : ℝ) ≤ 1 / 2 ∧ (1 / 2 : ℝ) ≤ 1 := by norm_num
/-- a root with a child, read child first: well formed, as is a table with an unreachable cycle -/
example (b : BaseGrid ℝ) : WF (⟨[(Text.S "B", b), (Text.S "A", b)],
    Ntv2.pushChild (Ntv2.pushChild [] (Text.S "A") (Text.S "B")) (Text.S "NONE") (Text.S "A")⟩ : Ntv2.Ntv2 ℝ) := by
  constructor <;> simp [names, Text.S, Ntv2.pushChild]
example (b : BaseGrid ℝ) : WF (⟨[(Text.S "R", b), (Text.S "A", b), (Text.S "B", b)],
    [(Text.S "NONE", [Text.S "R"]), (Text.S "B", [Text.S "A"]), (Text.S "A", [Text.S "B"])]⟩ : Ntv2.Ntv2 ℝ) := by
  constructor <;> simp [names, Text.S]
example : bilinear (1 : ℝ) 2 3 4 (1 / 2) (1 / 2) = 5 / 2 := by
  rw [bilinear_eq]; norm_num

/-! ### the inverse of a datum shift -/

section inverse
open Ops
variable {R : Type} [Scalar R]

/-- what the inverse of a datum shift returns when it returns something (two-band grids): the last estimate `t`
of the iteration, corrected once more by an update `d = t − coord + shift(t)` that was shorter than the
tolerance — so that `r = coord − shift(t)` with `t` within the tolerance of `r` -/
theorem gridshift_inv_sound (gs : List (GridObj R)) (useNull : Bool) (coord r : Coor R)
    (hb : ((gs.head?.map (·.bands)) == some 1) = false)
    (h : Gridshift.inv gs useNull coord = some r) :
    ∃ t t2 : Coor R, gridsAtObjs gs t.c0 t.c1 useNull = some t2 ∧
      r = Coor.sub t (Coor.add (Coor.sub t coord) t2) ∧
      Scalar.lt (Scalar.hypot (Coor.add (Coor.sub t coord) t2).c0 (Coor.add (Coor.sub t coord) t2).c1) 1e-12 = true := by
  unfold Gridshift.inv at h
  cases h0 : gridsAtObjs gs coord.c0 coord.c1 useNull with
  | none => simp [h0] at h
  | some t0 =>
    simp only [h0, hb, Bool.false_eq_true, if_false] at h
    -- the invariant of the ten rounds
    let P : Gridshift.InvState R → Prop := fun s => ∀ r, s.done = some (some r) →
      ∃ t t2 : Coor R, gridsAtObjs gs t.c0 t.c1 useNull = some t2 ∧
        r = Coor.sub t (Coor.add (Coor.sub t coord) t2) ∧
        Scalar.lt (Scalar.hypot (Coor.add (Coor.sub t coord) t2).c0 (Coor.add (Coor.sub t coord) t2).c1) 1e-12 = true
    have hfold : ∀ (l : List Nat) (f : Gridshift.InvState R → Nat → Gridshift.InvState R) (s0 : Gridshift.InvState R),
        P s0 → (∀ s x, P s → P (f s x)) → P (l.foldl f s0) := by
      intro l f
      induction l with
      | nil => intro s0 h0 _; exact h0
      | cons a l ih => intro s0 h0 hstep; exact ih _ (hstep _ _ h0) hstep
    have hP := hfold (List.range 10)
      (fun s _ =>
        match s.done with
        | some _ => s
        | none =>
          match gridsAtObjs gs s.t.c0 s.t.c1 useNull with
          | some t2 =>
            if Scalar.lt (Scalar.hypot (Coor.add (Coor.sub s.t coord) t2).c0 (Coor.add (Coor.sub s.t coord) t2).c1) 1e-12 = true then
              { t := Coor.sub s.t (Coor.add (Coor.sub s.t coord) t2),
                done := some (some (Coor.sub s.t (Coor.add (Coor.sub s.t coord) t2))) }
            else { t := Coor.sub s.t (Coor.add (Coor.sub s.t coord) t2) }
          | none => { t := s.t, done := some none })
      ({ t := Coor.sub coord t0 } : Gridshift.InvState R)
      (by intro r hr; simp at hr)
      (by
        intro s _ hs
        cases hd : s.done with
        | some v => simpa [hd] using hs
        | none =>
          simp only [hd]
          cases hg : gridsAtObjs gs s.t.c0 s.t.c1 useNull with
          | none => intro r hr; simp at hr
          | some t2 =>
            simp only
            split
            · rename_i hlt
              intro r hr
              simp only [Option.some.injEq] at hr
              exact ⟨s.t, t2, hg, hr.symm, hlt⟩
            · intro r hr; simp at hr)
    generalize hfin : (List.foldl _ _ (List.range 10)) = fin at h hP
    cases hd : fin.done with
    | none => simp [hd] at h
    | some v =>
      simp only [hd] at h
      subst h
      exact hP r hd

/-- the tolerance the iteration of the inverse is run to -/
noncomputable def shiftTol : ℝ := @OfScientific.ofScientific ℝ Scalar.instOfScientific 1 true 12
theorem shiftTol_eq : shiftTol = 1 / 10 ^ 12 := by
  simp [shiftTol, OfScientific.ofScientific, Scalar.ofSci, Lit.toReal]

/-- **the inverse of a datum shift undoes the forward shift to within the tolerance of its iteration times the
roughness of the grids**: if the corrections of two points `p`, `q` never differ by more than `L` times their
distance, then shifting back what the inverse returned misses the point asked for by less than `L · 10^-12` -/
theorem gridshift_roundtrip_bound (gs : List (GridObj ℝ)) (useNull : Bool) (coord r f : Coor ℝ) (L : ℝ) (hL : 0 ≤ L)
    (hb : ((gs.head?.map (·.bands)) == some 1) = false)
    (hlip : ∀ (p q s1 s2 : Coor ℝ), gridsAtObjs gs p.c0 p.c1 useNull = some s1 → gridsAtObjs gs q.c0 q.c1 useNull = some s2 →
      Real.sqrt ((s1.c0 - s2.c0) ^ 2 + (s1.c1 - s2.c1) ^ 2) ≤ L * Real.sqrt ((p.c0 - q.c0) ^ 2 + (p.c1 - q.c1) ^ 2))
    (hinv : Gridshift.inv gs useNull coord = some r) (hfwd : Gridshift.fwd gs useNull r = some f) :
    Real.sqrt ((f.c0 - coord.c0) ^ 2 + (f.c1 - coord.c1) ^ 2) ≤ L * shiftTol := by
  obtain ⟨t, t2, ht, hr, hd⟩ := gridshift_inv_sound gs useNull coord r hb hinv
  unfold Gridshift.fwd at hfwd
  cases hs : gridsAtObjs gs r.c0 r.c1 useNull with
  | none => simp [hs] at hfwd
  | some sr =>
    simp only [hs, hb, Bool.false_eq_true, if_false, Option.some.injEq] at hfwd
    have hf0 : f.c0 = r.c0 + sr.c0 := by rw [← hfwd]
    have hf1 : f.c1 = r.c1 + sr.c1 := by rw [← hfwd]
    have hr0 : r.c0 = coord.c0 - t2.c0 := by rw [hr]; simp only [Coor.sub, Coor.add]; ring
    have hr1 : r.c1 = coord.c1 - t2.c1 := by rw [hr]; simp only [Coor.sub, Coor.add]; ring
    -- the last update is the distance between the last two estimates
    have hdist : Real.sqrt ((r.c0 - t.c0) ^ 2 + (r.c1 - t.c1) ^ 2) < shiftTol := by
      rw [scalar_lt, decide_eq_true_eq, scalar_hypot] at hd
      have e : (r.c0 - t.c0) ^ 2 + (r.c1 - t.c1) ^ 2 =
          (Coor.add (Coor.sub t coord) t2).c0 * (Coor.add (Coor.sub t coord) t2).c0 +
            (Coor.add (Coor.sub t coord) t2).c1 * (Coor.add (Coor.sub t coord) t2).c1 := by
        rw [hr0, hr1]; simp only [Coor.sub, Coor.add]; ring
      rw [e]; exact hd
    have hl := hlip r t sr t2 hs ht
    have e2 : (f.c0 - coord.c0) ^ 2 + (f.c1 - coord.c1) ^ 2 = (sr.c0 - t2.c0) ^ 2 + (sr.c1 - t2.c1) ^ 2 := by
      rw [hf0, hf1, hr0, hr1]; ring
    rw [e2]
    calc Real.sqrt ((sr.c0 - t2.c0) ^ 2 + (sr.c1 - t2.c1) ^ 2)
        ≤ L * Real.sqrt ((r.c0 - t.c0) ^ 2 + (r.c1 - t.c1) ^ 2) := hl
      _ ≤ L * shiftTol := mul_le_mul_of_nonneg_left hdist.le hL

end inverse

end C08
end Geodesy
