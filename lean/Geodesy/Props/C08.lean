/-
C08 — grid look-up is bilinear, first-hit among grids, finest sub-grid within a file.

Model side: `Geodesy/Model/Num/Grid.lean` (`contains`, `at`, `grids_at`, Gravsoft reader),
`Geodesy/Model/Num/Ntv2.lean` (NTv2 decoder, `find_grid`), mirrored from `grid/mod.rs`,
`grid/ntv2/*`.  The theorems below are in the real-number reading.
-/
import Geodesy.Model.Num.Ntv2
import Geodesy.Model.Ops.GridOps
import Geodesy.Lemmas.Real
import Mathlib.Tactic.Linarith

namespace Geodesy
namespace C08
open Grid

/-! ### the interpolation formula -/

/-- `bilinear` over ℝ, spelled out -/
theorem bilinear_eq (ll lr ul ur a c : ℝ) :
    bilinear ll lr ul ur a c = (1 - a) * ((1 - c) * ll + c * ul) + a * ((1 - c) * lr + c * ur) := by
  simp [bilinear, Grid.n]

/-- **At a node the node value is delivered**: the four corners of the cell -/
theorem at_node (ll lr ul ur : ℝ) :
    bilinear ll lr ul ur 0 0 = ll ∧ bilinear ll lr ul ur 1 0 = lr ∧
    bilinear ll lr ul ur 0 1 = ul ∧ bilinear ll lr ul ur 1 1 = ur := by
  simp [bilinear_eq]

/-- **Inside a cell the value lies within the range of the four corner values** -/
theorem at_convex (ll lr ul ur a c lo hi : ℝ) (ha : 0 ≤ a ∧ a ≤ 1) (hc : 0 ≤ c ∧ c ≤ 1)
    (hlo : lo ≤ ll ∧ lo ≤ lr ∧ lo ≤ ul ∧ lo ≤ ur) (hhi : ll ≤ hi ∧ lr ≤ hi ∧ ul ≤ hi ∧ ur ≤ hi) :
    lo ≤ bilinear ll lr ul ur a c ∧ bilinear ll lr ul ur a c ≤ hi := by
  rw [bilinear_eq]
  obtain ⟨ha0, ha1⟩ := ha
  obtain ⟨hc0, hc1⟩ := hc
  have h1a : 0 ≤ 1 - a := by linarith
  have h1c : 0 ≤ 1 - c := by linarith
  constructor
  · have e : lo = (1 - a) * ((1 - c) * lo + c * lo) + a * ((1 - c) * lo + c * lo) := by ring
    rw [e]
    have i1 : (1 - c) * lo + c * lo ≤ (1 - c) * ll + c * ul := by
      have := mul_le_mul_of_nonneg_left hlo.1 h1c
      have := mul_le_mul_of_nonneg_left hlo.2.2.1 hc0
      linarith
    have i2 : (1 - c) * lo + c * lo ≤ (1 - c) * lr + c * ur := by
      have := mul_le_mul_of_nonneg_left hlo.2.1 h1c
      have := mul_le_mul_of_nonneg_left hlo.2.2.2 hc0
      linarith
    have := mul_le_mul_of_nonneg_left i1 h1a
    have := mul_le_mul_of_nonneg_left i2 ha0
    linarith
  · have e : hi = (1 - a) * ((1 - c) * hi + c * hi) + a * ((1 - c) * hi + c * hi) := by ring
    rw [e]
    have i1 : (1 - c) * ll + c * ul ≤ (1 - c) * hi + c * hi := by
      have := mul_le_mul_of_nonneg_left hhi.1 h1c
      have := mul_le_mul_of_nonneg_left hhi.2.2.1 hc0
      linarith
    have i2 : (1 - c) * lr + c * ur ≤ (1 - c) * hi + c * hi := by
      have := mul_le_mul_of_nonneg_left hhi.2.1 h1c
      have := mul_le_mul_of_nonneg_left hhi.2.2.2 hc0
      linarith
    have := mul_le_mul_of_nonneg_left i1 h1a
    have := mul_le_mul_of_nonneg_left i2 ha0
    linarith

/-- **Continuity across cell boundaries**: on the edge shared by two neighbouring cells (east /
west neighbours: relative abscissa 1 in the one, 0 in the other) both cells' bilinear forms
give the same value, the linear interpolation of the two shared nodes; likewise for north /
south neighbours.  So the choice of cell made by `floor` / `ceil` on an edge is immaterial. -/
theorem at_edge_agree (a b c d e f t : ℝ) :
    bilinear a b c d 1 t = bilinear b e d f 0 t ∧ bilinear a b c d t 1 = bilinear c d e f t 0 := by
  simp only [bilinear_eq]
  constructor <;> ring

/-- **Linear continuation in the margin**: outside the grid the value is the same bilinear form
of the nearest cell; along any line it is a polynomial of degree ≤ 1 in each coordinate, e.g. the
second difference in the abscissa vanishes. -/
theorem at_margin_linear (ll lr ul ur a h c : ℝ) :
    bilinear ll lr ul ur (a + h) c - 2 * bilinear ll lr ul ur a c + bilinear ll lr ul ur (a - h) c = 0 := by
  simp only [bilinear_eq]
  ring

/-! ### containment -/

/-- **Containment with margin**: for a grid stored north to south, west to east, a point is
contained iff it is within the borders widened by `margin` cells, borders included. -/
theorem contains_iff (g : BaseGrid ℝ) (lon lat m : ℝ) (hlat : g.dlat ≤ 0) (hlon : 0 ≤ g.dlon) :
    contains g lon lat m = true ↔
      (g.latS - m * |g.dlat| ≤ lat ∧ lat ≤ g.latN + m * |g.dlat|) ∧
      (g.lonW - m * |g.dlon| ≤ lon ∧ lon ≤ g.lonE + m * |g.dlon|) := by
  have h1 : ¬ (0 < g.dlat) := by linarith
  have h2 : ¬ (g.dlon < 0) := by linarith
  simp [contains, within, Scalar.gt, Grid.n, h1, h2]

/-! ### lists of grids -/

section lists
variable {R : Type} [Scalar R]

/-- **First hit**: the first grid containing the point at margin 0 is used; if there is none,
the first one within the half-cell margin; if there is none either, the null grid (when given)
passes the point unchanged, else the point is failed. -/
theorem grids_at_first_hit (ats : List (R → Option (Coor R))) (useNull : Bool) :
    gridsAt ats useNull =
      match ats.findSome? (fun f => f (Grid.n 0)) with
      | some d => some d
      | none =>
        match ats.findSome? (fun f => f (Scalar.ofLit (.fin false 5 (-1)))) with
        | some d => some d
        | none => if useNull then some ⟨Grid.n 0, Grid.n 0, Grid.n 0, Grid.n 0⟩ else none := rfl

/-- the grid at position `k` is used iff no earlier grid contains the point at margin 0 -/
theorem first_hit_position (ats : List (R → Option (Coor R))) (k : Nat) (f : R → Option (Coor R)) (d : Coor R)
    (hk : ats[k]? = some f) (hd : f (Grid.n 0) = some d)
    (hbefore : ∀ j g, j < k → ats[j]? = some g → g (Grid.n 0) = none) (useNull : Bool) :
    gridsAt ats useNull = some d := by
  have : ats.findSome? (fun f => f (Grid.n 0)) = some d := by
    induction ats generalizing k with
    | nil => simp at hk
    | cons a rest ih =>
      cases k with
      | zero =>
        simp at hk
        subst hk
        simp [List.findSome?, hd]
      | succ k =>
        have ha : a (Grid.n 0) = none := hbefore 0 a (by omega) (by simp)
        simp only [List.findSome?, ha]
        exact ih k (by simpa using hk) (fun j g hj hg => hbefore (j + 1) g (by omega) (by simpa using hg))
  simp [gridsAt, this]

/-- outside all grids: failed, unless the null grid is given -/
theorem outside_all (ats : List (R → Option (Coor R))) (h : ∀ f ∈ ats, ∀ m, f m = none) :
    gridsAt ats false = none ∧ gridsAt ats true = some ⟨Grid.n 0, Grid.n 0, Grid.n 0, Grid.n 0⟩ := by
  have hn : ∀ m : R, ats.findSome? (fun f => f m) = none := by
    intro m
    apply List.findSome?_eq_none_iff.mpr
    intro f hf
    exact h f hf m
  simp [gridsAt, hn]

end lists

/-! ### unit and order conventions of Gravsoft node values -/

/-- two bands: the file's (latitude, longitude) pairs become (longitude, latitude) -/
theorem swap_pairs_spec (a b c d : ℝ) : swapPairs [a, b, c, d] = [b, a, d, c] := rfl

/-- three bands: (north, east, up) becomes (east, north, up) -/
theorem swap_triples_spec (a b c d e f : ℝ) : swapFirstTwoOfThree [a, b, c, d, e, f] = [b, a, c, e, d, f] := rfl

/-! ### the grid operators -/

open Ops in
/-- **deformation searches its grids exactly like `grids_at` without the null grid**: the two
nested loops of the operator (margin 0 over all grids, then margin 0.5) are the two passes -/
theorem deformation_first_hit (gs : List (GridObj ℝ)) (lon lat : ℝ) :
    Deformation.firstHit gs lon lat = gridsAtObjs gs lon lat false := by
  simp only [Deformation.firstHit, gridsAtObjs, gridsAt, List.findSome?_map, Function.comp_def]
  have h0 : (@OfScientific.ofScientific ℝ Scalar.instOfScientific 0 true 1) = Grid.n 0 := by
    simp [OfScientific.ofScientific, Scalar.ofSci, Lit.toReal, Grid.n]
  have h5 : (@OfScientific.ofScientific ℝ Scalar.instOfScientific 5 true 1) = Scalar.ofLit (.fin false 5 (-1)) := by
    simp [OfScientific.ofScientific, Scalar.ofSci]
  rw [h0, h5]
  cases List.findSome? (fun g => g.look lon lat (Grid.n 0)) gs with
  | some d => rfl
  | none =>
    cases List.findSome? (fun g => g.look lon lat (Scalar.ofLit (.fin false 5 (-1)))) gs <;> rfl

open Ops in
/-- **forward datum shifts ADD the correction of the first grid hit, geoid heights are
SUBTRACTED; with the null grid a point outside every grid passes unchanged; without it the
point is failed** (gridshift, two-band and one-band grids) -/
theorem gridshift_fwd_spec (gs : List (GridObj ℝ)) (c : Coor ℝ) :
    (∀ d, gridsAtObjs gs c.c0 c.c1 false = some d → (gs.head?.map (·.bands)) ≠ some 1 →
      Gridshift.fwd gs false c = some { c with c0 := c.c0 + d.c0, c1 := c.c1 + d.c1 }) ∧
    (∀ d, gridsAtObjs gs c.c0 c.c1 false = some d → (gs.head?.map (·.bands)) = some 1 →
      Gridshift.fwd gs false c = some { c with c2 := c.c2 - d.c0 }) ∧
    (gridsAtObjs gs c.c0 c.c1 false = none → Gridshift.fwd gs false c = none) ∧
    ((∀ g ∈ gs, ∀ m, g.look c.c0 c.c1 m = none) → (gs.head?.map (·.bands)) ≠ some 1 →
      Gridshift.fwd gs true c = some c) := by
  refine ⟨?_, ?_, ?_, ?_⟩
  · intro d hd hb
    simp [Gridshift.fwd, hd, hb]
  · intro d hd hb
    simp [Gridshift.fwd, hd, hb]
  · intro hn
    simp [Gridshift.fwd, hn]
  · intro hout hb
    have : gridsAtObjs gs c.c0 c.c1 true = some ⟨Grid.n 0, Grid.n 0, Grid.n 0, Grid.n 0⟩ := by
      unfold gridsAtObjs
      exact (outside_all _ (by
        intro f hf m
        simp only [List.mem_map] at hf
        obtain ⟨g, hg, rfl⟩ := hf
        exact hout g hg m)).2
    simp [Gridshift.fwd, this, hb, Grid.n]

/-! ### non-vacuity -/

example : (0 : ℝ) ≤ 1 / 2 ∧ (1 / 2 : ℝ) ≤ 1 := by norm_num
example : bilinear (1 : ℝ) 2 3 4 (1 / 2) (1 / 2) = 5 / 2 := by
  rw [bilinear_eq]; norm_num

end C08
end Geodesy
