/-
C08 — grid look-up is bilinear, first-hit among grids, finest sub-grid within a file.

Model side: `Geodesy/Model/Num/Grid.lean` (`contains`, `at`, `grids_at`, Gravsoft reader),
`Geodesy/Model/Num/Ntv2.lean` (NTv2 decoder, `find_grid`), mirrored from `grid/mod.rs`,
`grid/ntv2/*`.  The theorems below are in the real-number reading.
-/
import Geodesy.Model.Num.Ntv2
import Geodesy.Model.Ops.GridOps
import Geodesy.Lemmas.Real
import Mathlib.Tactic.Linarith

namespace Geodesy
namespace C08
open Grid

/-! ### the interpolation formula -/

/-- `bilinear` over ℝ, spelled out -/
theorem bilinear_eq (ll lr ul ur a c : ℝ) :
    bilinear ll lr ul ur a c = (1 - a) * ((1 - c) * ll + c * ul) + a * ((1 - c) * lr + c * ur) := by
  simp [bilinear, Grid.n]

/-- **At a node the node value is delivered**: the four corners of the cell -/
theorem at_node (ll lr ul ur : ℝ) :
    bilinear ll lr ul ur 0 0 = ll ∧ bilinear ll lr ul ur 1 0 = lr ∧
    bilinear ll lr ul ur 0 1 = ul ∧ bilinear ll lr ul ur 1 1 = ur := by
  simp [bilinear_eq]

/-- **Inside a cell the value lies within the range of the four corner values** -/
theorem at_convex (ll lr ul ur a c lo hi : ℝ) (ha : 0 ≤ a ∧ a ≤ 1) (hc : 0 ≤ c ∧ c ≤ 1)
    (hlo : lo ≤ ll ∧ lo ≤ lr ∧ lo ≤ ul ∧ lo ≤ ur) (hhi : ll ≤ hi ∧ lr ≤ hi ∧ ul ≤ hi ∧ ur ≤ hi) :
    lo ≤ bilinear ll lr ul ur a c ∧ bilinear ll lr ul ur a c ≤ hi := by
  rw [bilinear_eq]
  obtain ⟨ha0, ha1⟩ := ha
  obtain ⟨hc0, hc1⟩ := hc
  have h1a : 0 ≤ 1 - a := by linarith
  have h1c : 0 ≤ 1 - c := by linarith
  constructor
  · have e : lo = (1 - a) * ((1 - c) * lo + c * lo) + a * ((1 - c) * lo + c * lo) := by ring
    rw [e]
    have i1 : (1 - c) * lo + c * lo ≤ (1 - c) * ll + c * ul := by
      have := mul_le_mul_of_nonneg_left hlo.1 h1c
      have := mul_le_mul_of_nonneg_left hlo.2.2.1 hc0
      linarith
    have i2 : (1 - c) * lo + c * lo ≤ (1 - c) * lr + c * ur := by
      have := mul_le_mul_of_nonneg_left hlo.2.1 h1c
      have := mul_le_mul_of_nonneg_left hlo.2.2.2 hc0
      linarith
    have := mul_le_mul_of_nonneg_left i1 h1a
    have := mul_le_mul_of_nonneg_left i2 ha0
    linarith
  · have e : hi = (1 - a) * ((1 - c) * hi + c * hi) + a * ((1 - c) * hi + c * hi) := by ring
    rw [e]
    have i1 : (1 - c) * ll + c * ul ≤ (1 - c) * hi + c * hi := by
      have := mul_le_mul_of_nonneg_left hhi.1 h1c
      have := mul_le_mul_of_nonneg_left hhi.2.2.1 hc0
      linarith
    have i2 : (1 - c) * lr + c * ur ≤ (1 - c) * hi + c * hi := by
      have := mul_le_mul_of_nonneg_left hhi.2.1 h1c
      have := mul_le_mul_of_nonneg_left hhi.2.2.2 hc0
      linarith
    have := mul_le_mul_of_nonneg_left i1 h1a
    have := mul_le_mul_of_nonneg_left i2 ha0
    linarith

/-- **Continuity across cell boundaries**: on the edge shared by two neighbouring cells (east /
west neighbours: relative abscissa 1 in the one, 0 in the other) both cells' bilinear forms
give the same value, the linear interpolation of the two shared nodes; likewise for north /
south neighbours.  So the choice of cell made by `floor` / `ceil` on an edge is immaterial. -/
theorem at_edge_agree (a b c d e f t : ℝ) :
    bilinear a b c d 1 t = bilinear b e d f 0 t ∧ bilinear a b c d t 1 = bilinear c d e f t 0 := by
  simp only [bilinear_eq]
  constructor <;> ring

/-- **Linear continuation in the margin**: outside the grid the value is the same bilinear form
of the nearest cell; along any line it is a polynomial of degree ≤ 1 in each coordinate, e.g. the
second difference in the abscissa vanishes. -/
theorem at_margin_linear (ll lr ul ur a h c : ℝ) :
    bilinear ll lr ul ur (a + h) c - 2 * bilinear ll lr ul ur a c + bilinear ll lr ul ur (a - h) c = 0 := by
  simp only [bilinear_eq]
  ring

/-! ### containment -/

/-- **Containment with margin**: for a grid stored north to south, west to east, a point is
contained iff it is within the borders widened by `margin` cells, borders included. -/
theorem contains_iff (g : BaseGrid ℝ) (lon lat m : ℝ) (hlat : g.dlat ≤ 0) (hlon : 0 ≤ g.dlon) :
    contains g lon lat m = true ↔
      (g.latS - m * |g.dlat| ≤ lat ∧ lat ≤ g.latN + m * |g.dlat|) ∧
      (g.lonW - m * |g.dlon| ≤ lon ∧ lon ≤ g.lonE + m * |g.dlon|) := by
  have h1 : ¬ (0 < g.dlat) := by linarith
  have h2 : ¬ (g.dlon < 0) := by linarith
  simp [contains, within, Scalar.gt, Grid.n, h1, h2]

/-! ### lists of grids -/

section lists
variable {R : Type} [Scalar R]

/-- **First hit**: the first grid containing the point at margin 0 is used; if there is none,
the first one within the half-cell margin; if there is none either, the null grid (when given)
passes the point unchanged, else the point is failed. -/
theorem grids_at_first_hit (ats : List (R → Option (Coor R))) (useNull : Bool) :
    gridsAt ats useNull =
      match ats.findSome? (fun f => f (Grid.n 0)) with
      | some d => some d
      | none =>
        match ats.findSome? (fun f => f (Scalar.ofLit (.fin false 5 (-1)))) with
        | some d => some d
        | none => if useNull then some ⟨Grid.n 0, Grid.n 0, Grid.n 0, Grid.n 0⟩ else none := rfl

/-- the grid at position `k` is used iff no earlier grid contains the point at margin 0 -/
theorem first_hit_position (ats : List (R → Option (Coor R))) (k : Nat) (f : R → Option (Coor R)) (d : Coor R)
    (hk : ats[k]? = some f) (hd : f (Grid.n 0) = some d)
    (hbefore : ∀ j g, j < k → ats[j]? = some g → g (Grid.n 0) = none) (useNull : Bool) :
    gridsAt ats useNull = some d := by
  have : ats.findSome? (fun f => f (Grid.n 0)) = some d := by
    induction ats generalizing k with
    | nil => simp at hk
    | cons a rest ih =>
      cases k with
      | zero =>
        simp at hk
        subst hk
        simp [List.findSome?, hd]
      | succ k =>
        have ha : a (Grid.n 0) = none := hbefore 0 a (by omega) (by simp)
        simp only [List.findSome?, ha]
        exact ih k (by simpa using hk) (fun j g hj hg => hbefore (j + 1) g (by omega) (by simpa using hg))
  simp [gridsAt, this]

/-- outside all grids: failed, unless the null grid is given -/
theorem outside_all (ats : List (R → Option (Coor R))) (h : ∀ f ∈ ats, ∀ m, f m = none) :
    gridsAt ats false = none ∧ gridsAt ats true = some ⟨Grid.n 0, Grid.n 0, Grid.n 0, Grid.n 0⟩ := by
  have hn : ∀ m : R, ats.findSome? (fun f => f m) = none := by
    intro m
    apply List.findSome?_eq_none_iff.mpr
    intro f hf
    exact h f hf m
  simp [gridsAt, hn]

end lists

/-! ### unit and order conventions of Gravsoft node values -/

/-- two bands: the file's (latitude, longitude) pairs become (longitude, latitude) -/
theorem swap_pairs_spec (a b c d : ℝ) : swapPairs [a, b, c, d] = [b, a, d, c] := rfl

/-- three bands: (north, east, up) becomes (east, north, up) -/
theorem swap_triples_spec (a b c d e f : ℝ) : swapFirstTwoOfThree [a, b, c, d, e, f] = [b, a, c, e, d, f] := rfl

/-! ### the grid operators -/

open Ops in
/-- **deformation searches its grids exactly like `grids_at` without the null grid**: the two
nested loops of the operator (margin 0 over all grids, then margin 0.5) are the two passes -/
theorem deformation_first_hit (gs : List (GridObj ℝ)) (lon lat : ℝ) :
    Deformation.firstHit gs lon lat = gridsAtObjs gs lon lat false := by
  simp only [Deformation.firstHit, gridsAtObjs, gridsAt, List.findSome?_map, Function.comp_def]
  have h0 : (@OfScientific.ofScientific ℝ Scalar.instOfScientific 0 true 1) = Grid.n 0 := by
    simp [OfScientific.ofScientific, Scalar.ofSci, Lit.toReal, Grid.n]
  have h5 : (@OfScientific.ofScientific ℝ Scalar.instOfScientific 5 true 1) = Scalar.ofLit (.fin false 5 (-1)) := by
    simp [OfScientific.ofScientific, Scalar.ofSci]
  rw [h0, h5]
  cases List.findSome? (fun g => g.look lon lat (Grid.n 0)) gs with
  | some d => rfl
  | none =>
    cases List.findSome? (fun g => g.look lon lat (Scalar.ofLit (.fin false 5 (-1)))) gs <;> rfl

open Ops in
/-- **forward datum shifts ADD the correction of the first grid hit, geoid heights are
SUBTRACTED; with the null grid a point outside every grid passes unchanged; without it the
point is failed** (gridshift, two-band and one-band grids) -/
theorem gridshift_fwd_spec (gs : List (GridObj ℝ)) (c : Coor ℝ) :
    (∀ d, gridsAtObjs gs c.c0 c.c1 false = some d → (gs.head?.map (·.bands)) ≠ some 1 →
      Gridshift.fwd gs false c = some { c with c0 := c.c0 + d.c0, c1 := c.c1 + d.c1 }) ∧
    (∀ d, gridsAtObjs gs c.c0 c.c1 false = some d → (gs.head?.map (·.bands)) = some 1 →
      Gridshift.fwd gs false c = some { c with c2 := c.c2 - d.c0 }) ∧
    (gridsAtObjs gs c.c0 c.c1 false = none → Gridshift.fwd gs false c = none) ∧
    ((∀ g ∈ gs, ∀ m, g.look c.c0 c.c1 m = none) → (gs.head?.map (·.bands)) ≠ some 1 →
      Gridshift.fwd gs true c = some c) := by
  refine ⟨?_, ?_, ?_, ?_⟩
  · intro d hd hb
    simp [Gridshift.fwd, hd, hb]
  · intro d hd hb
    simp [Gridshift.fwd, hd, hb]
  · intro hn
    simp [Gridshift.fwd, hn]
  · intro hout hb
    have : gridsAtObjs gs c.c0 c.c1 true = some ⟨Grid.n 0, Grid.n 0, Grid.n 0, Grid.n 0⟩ := by
      unfold gridsAtObjs
      exact (outside_all _ (by
        intro f hf m
        simp only [List.mem_map] at hf
        obtain ⟨g, hg, rfl⟩ := hf
        exact hout g hg m)).2
    simp [Gridshift.fwd, this, hb, Grid.n]

/-! ### NTv2: the sub-grid tree walk -/

section subgrids
variable {R : Type} [Scalar R]
open Ntv2

/-- sub-grid `id` *takes* the point: it exists, contains the point (tolerance 1e-6) and the point
is not on its upper latitude or longitude border (NTv2 counts those as outside) -/
def Takes (g : Ntv2 R) (lon lat : R) (id : Str) : Prop :=
  ∃ cur, lookupGrid g id = some cur ∧ Grid.contains cur lon lat eps6 = true ∧
    (Scalar.lt (Scalar.abs (lon - cur.lonE)) eps6 || Scalar.lt (Scalar.abs (lat - cur.latN)) eps6) = false

/-- `find_grid`'s loop with the bookkeeping made visible: `none` when the iteration allowance of
the model is used up or a table entry is missing (the Rust loop has no allowance; the decoder
builds both tables together) -/
def findLoopF (g : Ntv2 R) (lon lat : R) : Nat → List Str → Str → Option Str
  | 0, _, _ => none
  | fuel + 1, queue, current =>
    match queue.getLast? with
    | none => some current
    | some gridId =>
      match lookupGrid g gridId with
      | none => none
      | some cur =>
        if Grid.contains cur lon lat eps6 then
          if Scalar.lt (Scalar.abs (lon - cur.lonE)) eps6 || Scalar.lt (Scalar.abs (lat - cur.latN)) eps6 then
            findLoopF g lon lat fuel queue.dropLast current
          else
            match childrenOf g gridId with
            | some ch => findLoopF g lon lat fuel ch gridId
            | none => some gridId
        else findLoopF g lon lat fuel queue.dropLast current

/-- whenever the visible loop ends, the model's loop ends with the same sub-grid -/
theorem findLoopF_eq (g : Ntv2 R) (lon lat : R) (fuel : Nat) (queue : List Str) (current r : Str)
    (h : findLoopF g lon lat fuel queue current = some r) : findLoop g lon lat fuel queue current = r := by
  induction fuel generalizing queue current with
  | zero => simp [findLoopF] at h
  | succ fuel ih =>
    unfold findLoopF at h
    unfold findLoop
    cases hq : queue.getLast? with
    | none => simp only [hq] at h ⊢; exact Option.some.inj h
    | some gridId =>
      simp only [hq] at h ⊢
      cases hl : lookupGrid g gridId with
      | none => simp [hl] at h
      | some cur =>
        simp only [hl] at h ⊢
        split at h
        · split at h
          · rename_i h1 h2; simp only [h1, h2, if_true]; exact ih _ _ h
          · rename_i h1 h2
            simp only [h1, h2, if_true]
            cases hc : childrenOf g gridId with
            | none => simp only [hc] at h ⊢; simp at h ⊢; exact h
            | some ch => simp only [hc] at h ⊢; simp; exact ih _ _ h
        · rename_i h1; simp only [h1]; simp; exact ih _ _ h

/-- **the sub-grid used takes the point** (for any hierarchy, any allowance): the walk never
ends in a sub-grid that does not contain the point -/
theorem find_grid_sound (g : Ntv2 R) (lon lat : R) (fuel : Nat) (queue : List Str) (current : Str) :
    findLoop g lon lat fuel queue current = current ∨ Takes g lon lat (findLoop g lon lat fuel queue current) := by
  induction fuel generalizing queue current with
  | zero => left; rfl
  | succ fuel ih =>
    unfold findLoop
    cases hq : queue.getLast? with
    | none => left; rfl
    | some gridId =>
      simp only []
      cases hl : lookupGrid g gridId with
      | none => left; rfl
      | some cur =>
        simp only []
        split
        · rename_i h1
          split
          · exact ih _ _
          · rename_i h2
            have htk : Takes g lon lat gridId := ⟨cur, hl, h1, by simpa using h2⟩
            cases hc : childrenOf g gridId with
            | none => right; exact htk
            | some ch =>
              simp only []
              rcases ih ch gridId with h | h
              · right; rw [h]; exact htk
              · right; exact h
        · exact ih _ _

/-- **within an NTv2 file the deepest sub-grid containing the point is used**: when the walk
ends in sub-grid `r`, either nothing in the queue took the point (and `r` is where the walk
stood), or `r` takes the point and none of its children does -/
theorem find_grid_deepest (g : Ntv2 R) (lon lat : R) (fuel : Nat) (queue : List Str) (current r : Str)
    (h : findLoopF g lon lat fuel queue current = some r) :
    (r = current ∧ ∀ q ∈ queue, ¬ Takes g lon lat q) ∨
    (Takes g lon lat r ∧ ∀ chs, childrenOf g r = some chs → ∀ ch ∈ chs, ¬ Takes g lon lat ch) := by
  induction fuel generalizing queue current with
  | zero => simp [findLoopF] at h
  | succ fuel ih =>
    unfold findLoopF at h
    cases hq : queue.getLast? with
    | none =>
      simp only [hq] at h
      left
      have : queue = [] := by simpa using hq
      exact ⟨(Option.some.inj h).symm, by simp [this]⟩
    | some gridId =>
      simp only [hq] at h
      have hsplit : queue = queue.dropLast ++ [gridId] := by
        have := List.dropLast_append_getLast? gridId hq
        exact this.symm
      cases hl : lookupGrid g gridId with
      | none => simp [hl] at h
      | some cur =>
        simp only [hl] at h
        -- the popped sub-grid does not take the point: go on with the rest of the queue
        have skip : ¬ Takes g lon lat gridId → findLoopF g lon lat fuel queue.dropLast current = some r →
            (r = current ∧ ∀ q ∈ queue, ¬ Takes g lon lat q) ∨
            (Takes g lon lat r ∧ ∀ chs, childrenOf g r = some chs → ∀ ch ∈ chs, ¬ Takes g lon lat ch) := by
          intro hnt hrest
          rcases ih _ _ hrest with ⟨h1, h2⟩ | h2
          · left
            refine ⟨h1, fun q hqm => ?_⟩
            rw [hsplit] at hqm
            rcases List.mem_append.mp hqm with hm | hm
            · exact h2 q hm
            · simp only [List.mem_cons, List.mem_nil_iff, or_false] at hm; subst hm; exact hnt
          · right; exact h2
        split at h
        · rename_i h1
          split at h
          · rename_i h2
            apply skip _ h
            rintro ⟨c', hl', _, hb⟩
            rw [hl] at hl'; cases hl'
            rw [h2] at hb; cases hb
          · rename_i h2
            have htk : Takes g lon lat gridId := ⟨cur, hl, h1, by simpa using h2⟩
            right
            cases hc : childrenOf g gridId with
            | none =>
              simp only [hc] at h
              cases h
              exact ⟨htk, fun chs hch => by rw [hc] at hch; cases hch⟩
            | some ch =>
              simp only [hc] at h
              rcases ih _ _ h with ⟨h3, h4⟩ | h4
              · subst h3
                exact ⟨htk, fun chs hch => by rw [hc] at hch; cases hch; exact h4⟩
              · exact h4
        · rename_i h1
          apply skip _ h
          rintro ⟨c', hl', hcont, _⟩
          rw [hl] at hl'; cases hl'
          exact h1 hcont

end subgrids

/-! ### non-vacuity -/

example : (0 : ℝ) ≤ 1 / 2 ∧ (1 / 2 : ℝ) ≤ 1 := by norm_num
example : bilinear (1 : ℝ) 2 3 4 (1 / 2) (1 / 2) = 5 / 2 := by
  rw [bilinear_eq]; norm_num

end C08
end Geodesy
