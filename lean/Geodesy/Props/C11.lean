/-
C11 — adapt, axisswap and unitconvert do exactly the declared reordering and scaling.

Model side: `Geodesy/Model/Ops/Adapt.lean` (mirrors `adapt.rs`, `unitconvert.rs`), unit tables
generated from `units.rs` by the translator (`Gen.linearUnits`, `Gen.angularUnits`).
-/
import Geodesy.Model.Ops.Adapt
import Geodesy.Model.Ops.Basic
import Geodesy.Lemmas.Real
import Mathlib.Tactic.FinCases

namespace Geodesy
namespace C11
open Text Ops.Adapt

/-! ### the unit tables (re-decided whenever the generated tables change) -/

def allUnits : List (String × String × Lit × Lit) := Gen.linearUnits ++ Gen.angularUnits

/-- **All unit names are distinct**, so that a name can only resolve to its own row. -/
theorem unit_names_distinct : (allUnits.map (·.1)).Nodup := by decide

/-- **Every supported unit name resolves to its own row** of the table. -/
theorem unit_lookup_own_row :
    (allUnits.all fun u => allUnits.find? (fun v => S v.1 == S u.1) == some u) = true := by decide

/-- the published factors (PROJ `units.c`; the U.S. survey units by their defining fractions of
the metre, 1 us-ft = 1200/3937 m; degree and grad by the decimal expansions of π/180 and π/200
the source spells out): name, numerator (mantissa, exponent), denominator (mantissa, exponent) -/
def published : List (String × (Nat × Int) × (Nat × Int)) := [
  ("km", (10000, -1), (1, 0)), ("m", (10, -1), (1, 0)), ("dm", (1, -1), (1, 0)), ("cm", (1, -2), (1, 0)),
  ("mm", (1, -3), (1, 0)), ("kmi", (18520, -1), (1, 0)), ("in", (254, -4), (1, 0)), ("ft", (3048, -4), (1, 0)),
  ("yd", (9144, -4), (1, 0)), ("mi", (1609344, -3), (1, 0)), ("fath", (18288, -4), (1, 0)),
  ("ch", (201168, -4), (1, 0)), ("link", (201168, -6), (1, 0)),
  ("us-in", (1000, -1), (39370, -1)), ("us-ft", (12000, -1), (39370, -1)), ("us-yd", (36000, -1), (39370, -1)),
  ("us-ch", (792000, -1), (39370, -1)), ("us-mi", (63360000, -1), (39370, -1)),
  ("ind-yd", (91439523, -8), (1, 0)), ("ind-ft", (30479841, -8), (1, 0)), ("ind-ch", (2011669506, -8), (1, 0)),
  ("rad", (10, -1), (1, 0)), ("deg", (17453292519943296, -18), (1, 0)), ("grad", (15707963267948967, -18), (1, 0)) ]

/-- `a · 10^x = b · 10^y` for naturals with integer exponents, decided by cross-multiplication -/
def sameDecimal (a : Nat) (x : Int) (b : Nat) (y : Int) : Bool :=
  let m := min x y
  a * 10 ^ (x - m).toNat == b * 10 ^ (y - m).toNat

def litIs (l : Lit) (v : Nat × Int) : Bool :=
  match l with
  | .fin false m e => sameDecimal m e v.1 v.2
  | _ => false

/-- **The unit table carries the published factors**, row by row and in the same order. -/
theorem unit_factors_published :
    (allUnits.length == published.length &&
      (allUnits.zip published).all fun p =>
        p.1.1 == p.2.1 && litIs p.1.2.2.1 p.2.2.1 && litIs p.1.2.2.2 p.2.2.2) = true := by decide

/-! ### unitconvert -/

/-- **unitconvert multiplies by factor(in) · (1 / factor(out))** on x, y (the `xy` units) and on
z (the `z` units), and leaves the fourth element alone; the inverse divides by the same number. -/
theorem unitconvert_spec {R : Type} [Scalar R] (p : Parsed R) (f : Ops.Unitconvert.Factors R)
    (h : Ops.Unitconvert.factors p = some f) (c : Coor R) (rest : List (Coor R)) :
    (Ops.Unitconvert.sem p .fwd (c :: rest)).1.head? =
      some ⟨c.c0 * (f.xyIn * f.xyOutInv), c.c1 * (f.xyIn * f.xyOutInv), c.c2 * (f.zIn * f.zOutInv), c.c3⟩ ∧
    (Ops.Unitconvert.sem p .inv (c :: rest)).1.head? =
      some ⟨c.c0 / (f.xyIn * f.xyOutInv), c.c1 / (f.xyIn * f.xyOutInv), c.c2 / (f.zIn * f.zOutInv), c.c3⟩ := by
  simp [Ops.Unitconvert.sem, h]

/-- in the reals the inverse undoes the forward when no factor is zero -/
theorem unitconvert_roundtrip (x a b : ℝ) (ha : a ≠ 0) (hb : b ≠ 0) : x * (a * (1 / b)) / (a * (1 / b)) = x := by
  field_simp

/-! ### adapt: permutations of four axes -/

/-- a function on `Fin 4` from its four values -/
def ofVals (p0 p1 p2 p3 : Fin 4) : Fin 4 → Fin 4 := fun i => match i with | 0 => p0 | 1 => p1 | 2 => p2 | 3 => p3

theorem eq_ofVals (f : Fin 4 → Fin 4) : f = ofVals (f 0) (f 1) (f 2) (f 3) := by
  funext i
  match i with
  | 0 => rfl | 1 => rfl | 2 => rfl | 3 => rfl

/-- **`positionOf` inverts a permutation**: the external position found for internal axis `a`
does hold axis `a` — for all 24 orders at once. -/
theorem positionOf_spec (post : Fin 4 → Fin 4) (h : isPermutation post = true) (a : Fin 4) :
    post (positionOf post a) = a := by
  rw [eq_ofVals post] at h ⊢
  generalize post 0 = p0 at *
  generalize post 1 = p1 at *
  generalize post 2 = p2 at *
  generalize post 3 = p3 at *
  revert p0 p1 p2 p3 a
  decide

theorem positionOf_post (post : Fin 4 → Fin 4) (h : isPermutation post = true) (i : Fin 4) :
    positionOf post (post i) = i := by
  rw [eq_ofVals post] at h ⊢
  generalize post 0 = p0 at *
  generalize post 1 = p1 at *
  generalize post 2 = p2 at *
  generalize post 3 = p3 at *
  revert p0 p1 p2 p3 i
  decide

@[simp] theorem get_ofFn {α : Type} (f : Fin 4 → α) (i : Fin 4) : (Coor.ofFn f).get i = f i := by
  match i with
  | 0 => rfl | 1 => rfl | 2 => rfl | 3 => rfl

/-- what a descriptor declares: converting an external tuple to the internal form -/
noncomputable def toInternal (d : Desc ℝ) (c : Coor ℝ) : Coor ℝ :=
  Coor.ofFn fun a => c.get (positionOf d.post a) * d.mult (positionOf d.post a)

/-- … and the internal form to an external tuple -/
noncomputable def toExternal (d : Desc ℝ) (x : Coor ℝ) : Coor ℝ := Coor.ofFn fun j => x.get (d.post j) / d.mult j

/-- **adapt from=A to=B is "A to internal, internal to B"**: output element `j` is the source
element on the same axis, times the sign and angular unit factor `A` declares for it, divided by
those `B` declares — for every pair of descriptors whose axis orders are permutations. -/
theorem adapt_spec (frm dst : Desc ℝ) (c : Coor ℝ) :
    fwdTuple (combine frm dst) c = toExternal dst (toInternal frm c) := by
  apply Coor.ext_get
  intro j
  simp only [fwdTuple, combine, toExternal, toInternal, get_ofFn]
  ring

/-- the internal form really is the tuple with every element on its own axis -/
theorem toInternal_axis (d : Desc ℝ) (h : isPermutation d.post = true) (c : Coor ℝ) (i : Fin 4) :
    (toInternal d c).get (d.post i) = c.get i * d.mult i := by
  simp only [toInternal, get_ofFn, positionOf_post d.post h i]

/-- **The inverse of adapt is the exact reverse mapping** (real arithmetic, non-zero
multipliers, which every accepted descriptor has). -/
theorem adapt_inv_is_inverse (g : Desc ℝ) (h : isPermutation g.post = true) (hm : ∀ i, g.mult i ≠ 0)
    (c : Coor ℝ) : invTuple g (fwdTuple g c) = c := by
  obtain ⟨post, mult, noop⟩ := g
  simp only at h hm
  have h0 := hm 0; have h1 := hm 1; have h2 := hm 2; have h3 := hm 3
  rw [eq_ofVals post] at h ⊢
  generalize post 0 = p0 at *
  generalize post 1 = p1 at *
  generalize post 2 = p2 at *
  generalize post 3 = p3 at *
  obtain ⟨x, y, z, t⟩ := c
  fin_cases p0 <;> fin_cases p1 <;> fin_cases p2 <;> fin_cases p3 <;>
    first
    | (exfalso; revert h; decide)
    | (simp [invTuple, fwdTuple, Coor.ofFn, Coor.set, Coor.get, ofVals, one]
       refine ⟨?_, ?_, ?_, ?_⟩ <;> field_simp)

/-- the multipliers of an accepted descriptor are ±1, ±π/180 or ±π/200: never zero -/
theorem suffix_factor_ne_zero (sfx : Str) (r : ℝ) (h : suffixFactor (R := ℝ) sfx = some r) : r ≠ 0 := by
  unfold suffixFactor at h
  split at h
  · injection h with h; rw [← h]; simp [Real.pi_ne_zero]
  · split at h
    · injection h with h; rw [← h]; simp [Real.pi_ne_zero]
    · split at h
      · injection h with h; rw [← h]; simp [one]
      · exact absurd h (by simp)

/-! ### axisswap: the inverse undoes the forward -/

theorem axisSgn_sq (v : ℝ) : Ops.axisSgn ℝ v * Ops.axisSgn ℝ v = 1 := by
  show (if 0 ≤ v then |(Scalar.ofNatLit 1 : ℝ)| else -|(Scalar.ofNatLit 1 : ℝ)|) * (if 0 ≤ v then |(Scalar.ofNatLit 1 : ℝ)| else -|(Scalar.ofNatLit 1 : ℝ)|) = 1
  split <;> simp

theorem axisswap_aux (x : Coor ℝ) (p0 p1 p2 p3 : Fin 4) (a0 a1 a2 a3 : ℝ) (hnd : [p0, p1, p2, p3].Nodup)
    (s0 : a0 * a0 = 1) (s1 : a1 * a1 = 1) (s2 : a2 * a2 = 1) (s3 : a3 * a3 = 1) :
    let d : Coor ℝ := (((x.set 0 (x.get p0 * a0)).set 1 (x.get p1 * a1)).set 2 (x.get p2 * a2)).set 3 (x.get p3 * a3)
    (((d.set p0 (d.get 0 * a0)).set p1 (d.get 1 * a1)).set p2 (d.get 2 * a2)).set p3 (d.get 3 * a3) = x := by
  obtain ⟨x0, x1, x2, x3⟩ := x
  fin_cases p0 <;> fin_cases p1 <;> fin_cases p2 <;> fin_cases p3 <;>
    first
    | (exfalso; revert hnd; decide)
    | (simp [Coor.set, Coor.get, mul_assoc, s0, s1, s2, s3])

/-- **axisswap with a full order: the inverse undoes the forward** -/
theorem axisswap_roundtrip_full (c : Coor ℝ) (v0 v1 v2 v3 : ℝ)
    (hnd : [Ops.axisPos ℝ v0, Ops.axisPos ℝ v1, Ops.axisPos ℝ v2, Ops.axisPos ℝ v3].Nodup) :
    Ops.axisswapInvLoop ℝ (Ops.axisswapFwdLoop ℝ c [v0, v1, v2, v3] 0 c) [v0, v1, v2, v3] 0 (Ops.axisswapFwdLoop ℝ c [v0, v1, v2, v3] 0 c) = c :=
  axisswap_aux c _ _ _ _ _ _ _ _ hnd (axisSgn_sq v0) (axisSgn_sq v1) (axisSgn_sq v2) (axisSgn_sq v3)

theorem axisswap_aux3 (x : Coor ℝ) (p0 p1 p2 : Fin 4) (a0 a1 a2 : ℝ) (hnd : [p0, p1, p2].Nodup)
    (h0 : p0.val < 3) (h1 : p1.val < 3) (h2 : p2.val < 3)
    (s0 : a0 * a0 = 1) (s1 : a1 * a1 = 1) (s2 : a2 * a2 = 1) :
    let d : Coor ℝ := ((x.set 0 (x.get p0 * a0)).set 1 (x.get p1 * a1)).set 2 (x.get p2 * a2)
    ((d.set p0 (d.get 0 * a0)).set p1 (d.get 1 * a1)).set p2 (d.get 2 * a2) = x := by
  obtain ⟨x0, x1, x2, x3⟩ := x
  fin_cases p0 <;> fin_cases p1 <;> fin_cases p2 <;>
    first
    | (exfalso; revert hnd; decide)
    | (exfalso; revert h0; decide)
    | (exfalso; revert h1; decide)
    | (exfalso; revert h2; decide)
    | (simp [Coor.set, Coor.get, mul_assoc, s0, s1, s2])

theorem axisswap_aux2 (x : Coor ℝ) (p0 p1 : Fin 4) (a0 a1 : ℝ) (hnd : [p0, p1].Nodup)
    (h0 : p0.val < 2) (h1 : p1.val < 2) (s0 : a0 * a0 = 1) (s1 : a1 * a1 = 1) :
    let d : Coor ℝ := (x.set 0 (x.get p0 * a0)).set 1 (x.get p1 * a1)
    (d.set p0 (d.get 0 * a0)).set p1 (d.get 1 * a1) = x := by
  obtain ⟨x0, x1, x2, x3⟩ := x
  fin_cases p0 <;> fin_cases p1 <;>
    first
    | (exfalso; revert hnd; decide)
    | (exfalso; revert h0; decide)
    | (exfalso; revert h1; decide)
    | (simp [Coor.set, Coor.get, mul_assoc, s0, s1])

/-- an order of three: the fourth element is not touched, the first three come back -/
theorem axisswap_roundtrip_three (c : Coor ℝ) (v0 v1 v2 : ℝ)
    (hnd : [Ops.axisPos ℝ v0, Ops.axisPos ℝ v1, Ops.axisPos ℝ v2].Nodup)
    (h0 : (Ops.axisPos ℝ v0).val < 3) (h1 : (Ops.axisPos ℝ v1).val < 3) (h2 : (Ops.axisPos ℝ v2).val < 3) :
    Ops.axisswapInvLoop ℝ (Ops.axisswapFwdLoop ℝ c [v0, v1, v2] 0 c) [v0, v1, v2] 0 (Ops.axisswapFwdLoop ℝ c [v0, v1, v2] 0 c) = c :=
  axisswap_aux3 c _ _ _ _ _ _ hnd h0 h1 h2 (axisSgn_sq v0) (axisSgn_sq v1) (axisSgn_sq v2)

/-- an order of two (`order=2,1`: the usual exchange of the first two axes) -/
theorem axisswap_roundtrip_two (c : Coor ℝ) (v0 v1 : ℝ)
    (hnd : [Ops.axisPos ℝ v0, Ops.axisPos ℝ v1].Nodup) (h0 : (Ops.axisPos ℝ v0).val < 2) (h1 : (Ops.axisPos ℝ v1).val < 2) :
    Ops.axisswapInvLoop ℝ (Ops.axisswapFwdLoop ℝ c [v0, v1] 0 c) [v0, v1] 0 (Ops.axisswapFwdLoop ℝ c [v0, v1] 0 c) = c :=
  axisswap_aux2 c _ _ _ _ hnd h0 h1 (axisSgn_sq v0) (axisSgn_sq v1)

/-- the position a signed axis number stands for: `±(k+1)` is axis `k` -/
theorem axisPos_signed (k : Fin 4) (neg : Bool) :
    Ops.axisPos ℝ (if neg then -(((k : ℕ) : ℝ) + 1) else (((k : ℕ) : ℝ) + 1)) = k := by
  have habs : |(if neg then -(((k : ℕ) : ℝ) + 1) else (((k : ℕ) : ℝ) + 1))| = ((k : ℕ) : ℝ) + 1 := by
    have : (0 : ℝ) ≤ ((k : ℕ) : ℝ) + 1 := by positivity
    cases neg
    · simp [abs_of_nonneg this]
    · simp only [if_true, abs_neg, abs_of_nonneg this]
  unfold Ops.axisPos
  simp only [scalar_abs, habs, scalar_ofNatLit]
  show (if h : realToUsize (((k : ℕ) : ℝ) + 1 - ((1 : ℕ) : ℝ)) < 4 then (⟨realToUsize (((k : ℕ) : ℝ) + 1 - ((1 : ℕ) : ℝ)), h⟩ : Fin 4) else 3) = k
  have hk : realToUsize (((k : ℕ) : ℝ) + 1 - ((1 : ℕ) : ℝ)) = k.val := by
    unfold realToUsize
    have : (((k : ℕ) : ℝ) + 1 - ((1 : ℕ) : ℝ)) = (((k.val : ℤ)) : ℝ) := by push_cast; ring
    rw [this, Int.floor_intCast]
    have hk4 := k.isLt
    omega
  rw [dif_pos (by rw [hk]; exact k.isLt)]
  exact Fin.ext hk

/-- **`axisswap order=…` with the four axes in any order and any signs: the inverse undoes the forward** -/
theorem axisswap_roundtrip_signed (c : Coor ℝ) (k0 k1 k2 k3 : Fin 4) (n0 n1 n2 n3 : Bool) (hnd : [k0, k1, k2, k3].Nodup) :
    let v (k : Fin 4) (neg : Bool) : ℝ := if neg then -(((k : ℕ) : ℝ) + 1) else (((k : ℕ) : ℝ) + 1)
    let order := [v k0 n0, v k1 n1, v k2 n2, v k3 n3]
    Ops.axisswapInvLoop ℝ (Ops.axisswapFwdLoop ℝ c order 0 c) order 0 (Ops.axisswapFwdLoop ℝ c order 0 c) = c := by
  intro v order
  apply axisswap_roundtrip_full
  simp only [v, axisPos_signed]
  exact hnd

example : [(1 : Fin 4), 0, 2, 3].Nodup := by decide

/-- ... for a whole coordinate set, through the operator's two directions -/
theorem axisswap_sem_roundtrip (p : Parsed ℝ) (v0 v1 v2 v3 : ℝ) (ho : p.series? (S "order") = some [v0, v1, v2, v3])
    (hnd : [Ops.axisPos ℝ v0, Ops.axisPos ℝ v1, Ops.axisPos ℝ v2, Ops.axisPos ℝ v3].Nodup) (data : List (Coor ℝ)) :
    Ops.axisswapSem ℝ p .inv (Ops.axisswapSem ℝ p .fwd data).1 = (data, data.length) := by
  simp only [Ops.axisswapSem, ho, List.map_map, List.length_map]
  congr 1
  conv_rhs => rw [← List.map_id data]
  apply List.map_congr_left
  intro c _
  exact axisswap_roundtrip_full c v0 v1 v2 v3 hnd

/-! ### non-vacuity -/

example : isPermutation (ofVals 1 0 2 3) = true := by decide
example : ∃ g : Desc ℝ, isPermutation g.post = true ∧ ∀ i, g.mult i ≠ 0 :=
  ⟨⟨ofVals 1 0 2 3, fun _ => 1, false⟩, by decide, fun _ => one_ne_zero⟩

end C11
end Geodesy
