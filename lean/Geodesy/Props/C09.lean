/-
C09 — no definition string and no coordinate value can make the library panic or hang.

Every function of the model is total: Lean accepts a definition only with a termination proof,
so the model cannot loop, and the correspondence check ties its answers (handle or error,
count and values) to the implementation's on adversarial input, where a panic or a hang of the
implementation shows up as a disagreement.  What is proved HERE are the guards of the partial
operations the modelled code performs — the places where the Rust code would panic
(`Vec::remove`, `Vec::insert`, integer negation, running out of recursion budget) — stated
with "strict" versions of those operations that fail outside their domain:

* `parse_proj` / `tidy_proj`: both `remove`s and both `insert`s are in range;
* `dms_to_dd` / `dm_to_dd`: the magnitude of every `i32` fits the unsigned type used;
* instantiation: the recursion budget of the model is never exhausted (so the explicit
  nesting limit of the code, not the stack, ends every run-away recursion) and parameter
  look-up never fails to terminate (C04's theorems, restated for this property);
* grid files: see C15 (`decode_ok`, `at_indices_in_bounds`); stack operators: see C12.
-/
import Geodesy.Model.Proj
import Geodesy.Model.Num.Angular
import Geodesy.Props.C04
import Geodesy.Model.Ops.Tmerc

namespace Geodesy
namespace C09
open Text Proj

/-- `Vec::remove(i)`: panics (`none`) unless `i < len` -/
def remove? {β : Type} (l : List β) (i : Nat) : Option (List β) :=
  if i < l.length then some (listRemove l i) else none

/-- `Vec::insert(i, v)`: panics (`none`) unless `i ≤ len` -/
def insert? {β : Type} (l : List β) (i : Nat) (v : β) : Option (List β) :=
  if i ≤ l.length then some (listInsert l i v) else none

theorem listRemove_length {β : Type} (l : List β) (i : Nat) (h : i < l.length) :
    (listRemove l i).length = l.length - 1 := by
  simp [listRemove]; omega

theorem lastWithPrefix_lt (pre : Str) (els : List Str) (i : Nat) (h : lastWithPrefix pre els = some i) :
    i < els.length := by
  unfold lastWithPrefix at h
  have := List.mem_of_find?_eq_some h
  simpa using this

/-- **`tidy_proj` removes the `a=` and `rf=` elements in range**: after the `ellps=a,rf` element
has been appended, the larger index is removed first and the smaller one is then still valid -/
theorem tidy_removes_in_bounds (els : List Str) (x : Str) (ai ri : Nat)
    (ha : lastWithPrefix (S "a=") els = some ai) (hr : lastWithPrefix (S "rf=") els = some ri) :
    ∃ l1 l2, (if ai > ri then remove? (els ++ [x]) ai else remove? (els ++ [x]) ri) = some l1 ∧
      (if ai > ri then remove? l1 ri else remove? l1 ai) = some l2 ∧
      l2 = (if ai > ri then listRemove (listRemove (els ++ [x]) ai) ri
            else listRemove (listRemove (els ++ [x]) ri) ai) := by
  have h1 := lastWithPrefix_lt _ _ _ ha
  have h2 := lastWithPrefix_lt _ _ _ hr
  by_cases h : ai > ri
  · have e1 : ai < (els ++ [x]).length := by simp; omega
    have e2 : ri < (listRemove (els ++ [x]) ai).length := by
      rw [listRemove_length _ _ e1]; simp; omega
    refine ⟨listRemove (els ++ [x]) ai, listRemove (listRemove (els ++ [x]) ai) ri, ?_, ?_, ?_⟩
    · simp only [h, if_true, remove?, e1]
    · simp only [h, if_true, remove?, e2]
    · simp only [h, if_true]
  · have e1 : ri < (els ++ [x]).length := by simp; omega
    have e2 : ai < (listRemove (els ++ [x]) ri).length := by
      rw [listRemove_length _ _ e1]; simp; omega
    refine ⟨listRemove (els ++ [x]) ri, listRemove (listRemove (els ++ [x]) ri) ai, ?_, ?_, ?_⟩
    · simp only [h, if_false, remove?, e1, if_true]
    · simp only [h, if_false, remove?, e2, if_true]
    · simp only [h, if_false]

/-- the pipeline globals are inserted after the operator name of a step that is not empty -/
theorem globals_insert_in_bounds (elements : List Str) (g : Str)
    (h : (trim (join (S " ") elements)).isEmpty = false) : (insert? elements 1 g).isSome := by
  cases elements with
  | nil => simp [join, trim, trimEnd, trimStart] at h
  | cons a rest => simp [insert?]

/-- the `inv` modifier is inserted at `min 1 len`, which is always in range, and that is what
the model's total insertion does anyway (a step consisting of `inv` only has length 0 here) -/
theorem inv_insert_in_bounds (elements : List Str) (v : Str) :
    (insert? elements (min 1 elements.length) v).isSome ∧
    listInsert elements (min 1 elements.length) v = listInsert elements 1 v := by
  cases elements with
  | nil => simp [insert?, listInsert]
  | cons a rest => simp [insert?, listInsert]

/-- the magnitude of every `i32`, `i32::MIN` included, fits the `u32` of `unsigned_abs` -/
theorem unsigned_abs_fits (d : Int) (lo : -(2 : Int) ^ 31 ≤ d) (hi : d < (2 : Int) ^ 31) :
    d.natAbs < 2 ^ 32 := by omega

/-- **Instantiation never exhausts the model's recursion budget**: whatever the definition,
the resources and the globals are, `Op::new` returns a handle or an error (C04.op_new_fuel) -/
theorem op_new_total {R : Type} [Scalar R] (env : Env R) (globals : PMap) (definition : Str) :
    (instantiate env (RawParameters.limit + 2) (RawParameters.new definition globals)).isSome = true :=
  C04.op_new_fuel env globals definition

/-- **Parameter look-up terminates with a value or a proper error** (C04.chase_total) -/
theorem chase_total (globals locals : PMap) (key : Str) : chase globals locals key ≠ .error .general :=
  C04.chase_total globals locals key

example : remove? [1, 2, 3] 3 = none ∧ remove? [1, 2, 3] 2 = some [1, 2] := by decide
example : insert? ([] : List Nat) 1 7 = none ∧ insert? ([] : List Nat) (min 1 0) 7 = some [7] := by decide

/-- **`utm zone=Z` with `Z` outside 1 … 60 is refused with an error value** — whatever `Z` is (0, 61, 2^64 − 1): the
zone is compared as a natural number before any arithmetic is done on it -/
theorem utm_zone_outside_range_refused {R : Type} [Scalar R] (ce : Ops.CtorEnv) (raw : RawParameters) (p : Parsed R) (zone : Nat)
    (hp : Parsed.new (R := R) ce.ellpsKnown raw Ops.Tmerc.utmGamut = .ok p) (hz : p.natural? (Text.S "zone") = some zone)
    (hbad : zone = 0 ∨ 61 ≤ zone) :
    Ops.Tmerc.utmNew R ce raw = .error .general := by
  have hcond : (!(decide (1 ≤ zone) && decide (zone < 61))) = true := by
    rcases hbad with h | h
    · subst h; simp
    · have : ¬ zone < 61 := by omega
      simp [this]
  simp only [Ops.Tmerc.utmNew, hp, hz]
  simp [hcond]

/-- ... and inside the range it is accepted -/
theorem utm_zone_in_range_accepted {R : Type} [Scalar R] (ce : Ops.CtorEnv) (raw : RawParameters) (p : Parsed R) (zone : Nat)
    (hp : Parsed.new (R := R) ce.ellpsKnown raw Ops.Tmerc.utmGamut = .ok p) (hz : p.natural? (Text.S "zone") = some zone)
    (h1 : 1 ≤ zone) (h2 : zone ≤ 60) :
    ∃ n, Ops.Tmerc.utmNew R ce raw = .ok n := by
  have hcond : (!(decide (1 ≤ zone) && decide (zone < 61))) = false := by
    have : zone < 61 := by omega
    simp [h1, this]
  simp only [Ops.Tmerc.utmNew, hp, hz]
  simp [hcond]

end C09
end Geodesy
