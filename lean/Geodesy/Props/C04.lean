/-
C04 — a macro invocation means its expansion; macro resolution always terminates.

Model side: `Geodesy/Model/Params.lean` (`chase`, `RawParameters.next`), `Geodesy/Model/Op.lean`
(`instantiate`), mirrored from `op/parsed_parameters.rs`, `op/raw_parameters.rs`, `op/mod.rs`.

Termination is the heart of this file.  In the code, `Op::op` recurses through macro bodies and
pipeline steps; what stops it is the counter `recursion_level`, bumped by every
`RawParameters::next` and refused beyond 100.  The model's `instantiate` carries an explicit
fuel; the theorems show that the fuel is never what stops it (so the model's results are the
code's), that every recursive call strictly increases the level, and that `chase` ends after
at most one visit per parameter.
-/
import Geodesy.Model.Op

namespace Geodesy
namespace C04
open Text

/-! ### `chase` terminates: one visit per entry -/

/-- an index returned by `findUnvisited` is a not yet visited position of the haystack -/
theorem findUnvisited_spec (hay : List (Str × Str)) (visited : List Nat) (needle : Str) (i : Nat)
    (h : findUnvisited hay visited needle = some i) : i < hay.length ∧ i ∉ visited := by
  unfold findUnvisited at h
  have hm := List.mem_of_find?_eq_some h
  have hp := List.find?_some h
  simp only [List.mem_range] at hm
  refine ⟨hm, ?_⟩
  simp only [Bool.and_eq_true, Bool.not_eq_true', List.contains_eq_mem, decide_eq_false_iff_not] at hp
  exact hp.1

/-- the number of haystack positions not yet visited -/
def unvisited (n : Nat) (visited : List Nat) : Nat := ((List.range n).filter (fun i => !visited.contains i)).length

theorem unvisited_cons_lt (n : Nat) (visited : List Nat) (i : Nat) (hi : i < n) (hv : i ∉ visited) :
    unvisited n (i :: visited) < unvisited n visited := by
  unfold unvisited
  -- `i` is counted on the right but not on the left
  have h1 : ((List.range n).filter (fun j => !(i :: visited).contains j)) =
      ((List.range n).filter (fun j => !visited.contains j)).filter (fun j => j != i) := by
    rw [List.filter_filter]
    apply List.filter_congr
    intro j _
    by_cases hji : j = i
    · subst hji; simp
    · have : (j == i) = false := by simpa using hji
      simp [List.contains_cons, this, hji]
  rw [h1]
  have hmem : i ∈ (List.range n).filter (fun j => !visited.contains j) := by
    simp [List.mem_filter, hi, hv]
  exact List.length_filter_lt_length_iff_exists.mpr ⟨i, hmem, by simp⟩

/-- **`chase` never runs out of fuel**: with at least one unit more than there are unvisited
entries the loop ends by itself — it returns a value, "absent", or a `Syntax` error. -/
theorem chaseLoop_fuel_sufficient (hay : List (Str × Str)) (key : Str) (fuel : Nat) (visited : List Nat)
    (needle default : Str) (chasing : Bool) (hf : unvisited hay.length visited < fuel) :
    chaseLoop hay key fuel visited needle default chasing ≠ .error .general := by
  induction fuel generalizing visited needle default chasing with
  | zero => omega
  | succ fuel ih =>
    unfold chaseLoop
    cases hfu : findUnvisited hay visited needle with
    | none =>
      simp only
      split
      · simp
      · split <;> simp
    | some i =>
      simp only
      have ⟨hi, hv⟩ := findUnvisited_spec hay visited needle i hfu
      have hlt := unvisited_cons_lt hay.length visited i hi hv
      have hf' : unvisited hay.length (i :: visited) < fuel := by omega
      split
      · split
        · exact ih _ _ _ _ hf'
        · exact ih _ _ _ _ hf'
        · simp
      · split
        · exact ih _ _ _ _ hf'
        · simp

theorem unvisited_nil (n : Nat) : unvisited n [] = n := by
  have : (List.range n).filter (fun _ => true) = List.range n :=
    List.filter_eq_self.mpr (fun _ _ => rfl)
  simp [unvisited, this]

/-- **`chase` is total**: for every pair of maps and every key it returns a value, "absent" or
a `Syntax` error; the `general` (out-of-fuel) outcome is impossible. -/
theorem chase_total (globals locals : PMap) (key : Str) : chase globals locals key ≠ .error .general := by
  unfold chase
  simp only
  split
  · simp
  · apply chaseLoop_fuel_sufficient
    rw [unvisited_nil]
    omega

/-! ### the recursion counter -/

/-- every `RawParameters::next` increases the level by one, or by two for a macro invocation -/
theorem next_level (p : RawParameters) (definition : Str) :
    (p.next definition).level = p.level + 1 ∨ (p.next definition).level = p.level + 2 := by
  unfold RawParameters.next
  by_cases h : isResourceName definition = true
  · right; simp [h]
  · left; simp [h]

theorem next_level_gt (p : RawParameters) (definition : Str) : p.level < (p.next definition).level := by
  rcases next_level p definition with h | h <;> omega

theorem mapFuel_isSome {β γ : Type} (f : β → Option (Except Err γ)) (l : List β)
    (h : ∀ b ∈ l, (f b).isSome = true) : (mapFuel f l).isSome = true := by
  induction l with
  | nil => rfl
  | cons b bs ih =>
    have hb := h b (List.mem_cons_self ..)
    have hbs := ih (fun b' hb' => h b' (List.mem_cons_of_mem _ hb'))
    simp only [mapFuel]
    rcases hfb : f b with _ | (e | c)
    · simp [hfb] at hb
    · rfl
    · rcases hm : mapFuel f bs with _ | (e | cs)
      · simp [hm] at hbs
      · rfl
      · rfl

/-- **Instantiation terminates and the fuel is never what stops it.**  For every environment
(any set of macro definitions, cyclic or not, any constructors), every text and every level:
with `fuel + level ≥ 102` the model's `instantiate` returns a value or an error of the code —
never "out of fuel".  Hence `Op.new` (fuel 102 at level 0, or 2 for a top-level macro) is the
code's `Op::new`, and recursion through macros is cut by the counter after at most 102 nested
calls. -/
theorem not_too_deep_le (p : RawParameters) (h : p.nestingTooDeep = false) : p.level ≤ RawParameters.limit := by
  simpa [RawParameters.nestingTooDeep] using h

theorem instantiate_fuel_sufficient {R : Type} [Scalar R] (env : Env R) (fuel : Nat) (p : RawParameters)
    (hpos : 0 < fuel) (h : 102 ≤ fuel + p.level) : (instantiate env fuel p).isSome = true := by
  induction fuel generalizing p with
  | zero => omega
  | succ f ih =>
    rw [instantiate]
    by_cases hd : p.nestingTooDeep = true
    · simp [hd]
    · have hd' : p.nestingTooDeep = false := by simpa using hd
      have hl : p.level ≤ 100 := not_too_deep_le p hd'
      have hf : 0 < f := by omega
      have hrec : ∀ q : RawParameters, p.level < q.level → (instantiate env f q).isSome = true :=
        fun q hq => ih q hf (by omega)
      have hsteps : (mapFuel (fun s => instantiate env f (p.next s)) (splitIntoSteps p.definition)).isSome = true :=
        mapFuel_isSome _ _ (fun s _ => hrec _ (next_level_gt p s))
      have hbody : ∀ body : Str, (instantiate env f { p.next p.definition with definition := body }).isSome = true :=
        fun body => hrec _ (next_level_gt p p.definition)
      simp only [hd', Bool.false_eq_true, if_false]
      repeat' split
      all_goals (simp only [Option.isSome_some, Option.isSome_map]; try (first | (with_reducible exact hsteps) | ((with_reducible apply hrec); exact next_level_gt p p.definition)))

/-- the allowance `Op.new` starts with is enough -/
theorem op_new_fuel {R : Type} [Scalar R] (env : Env R) (globals : PMap) (definition : Str) :
    (instantiate env (RawParameters.limit + 2) (RawParameters.new definition globals)).isSome = true :=
  instantiate_fuel_sufficient env _ _ (by simp [RawParameters.limit]) (by simp [RawParameters.limit])

/-- **Depth bound** (restating the ingredients): an instantiation that is not refused at once has
level ≤ 100 (`not_too_deep_le`) and every recursive call is made at a strictly higher level
(`next_level_gt`); so nested calls are at most 102 deep whatever the macro definitions are. -/
theorem depth_bound (p : RawParameters) (s : Str) (h : p.nestingTooDeep = false) :
    p.level ≤ 100 ∧ p.level < (p.next s).level := ⟨not_too_deep_le p h, next_level_gt p s⟩

/-! ### what a look-up finds: locals before globals, literals, fall-backs, absence -/

/-- the key of entry `i` of a haystack -/
theorem getD_append_left_fst (locals globals : List (Str × Str)) (i : Nat) (h : i < locals.length) :
    ((locals ++ globals).getD i ([], [])) = locals.getD i ([], []) := by
  simp [List.getD_eq_getElem?_getD, List.getElem?_append_left h]

/-- **step-local values win over caller values**: when the step's own parameters hold the key,
the look-up starts at one of them, whatever the caller's environment holds -/
theorem local_wins (locals globals : List (Str × Str)) (key : Str) (j : Nat) (hj : j < locals.length)
    (hkey : (locals.getD j ([], [])).1 = key) :
    ∃ i, i < locals.length ∧ findUnvisited (locals ++ globals) [] key = some i := by
  unfold findUnvisited
  have hex : ∃ i ∈ List.range (locals ++ globals).length,
      (!([] : List Nat).contains i && ((locals ++ globals).getD i ([], [])).1 == key) = true := by
    refine ⟨j, by simp; omega, ?_⟩
    rw [getD_append_left_fst _ _ _ hj, hkey]
    simp
  obtain ⟨i, hi⟩ := Option.isSome_iff_exists.mp (List.find?_isSome.mpr hex)
  refine ⟨i, ?_, hi⟩
  -- the first index with the key is at most `j`
  rcases Nat.lt_or_ge i locals.length with h | hge
  · exact h
  · exfalso
    have hlt : j < i := by omega
    obtain ⟨_, k, hk, hik, hbefore⟩ := List.find?_eq_some_iff_getElem.mp hi
    simp only [List.getElem_range] at hik
    subst hik
    have := hbefore j hlt
    simp only [List.getElem_range, List.contains_nil, Bool.not_false, Bool.true_and, Bool.not_eq_true',
      beq_eq_false_iff_ne, ne_eq] at this
    rw [getD_append_left_fst _ _ _ hj] at this
    exact this hkey

/-- **caller values are visible where the step has none of its own**: when no parameter of the step
carries the key, the look-up starts in the caller's environment, at the first entry for the key -/
theorem caller_visible (locals globals : List (Str × Str)) (key : Str) (j : Nat) (hj : j < globals.length)
    (hkey : (globals.getD j ([], [])).1 = key)
    (hnolocal : ∀ i, i < locals.length → (locals.getD i ([], [])).1 ≠ key) :
    ∃ i, locals.length ≤ i ∧ i < locals.length + globals.length ∧
      findUnvisited (locals ++ globals) [] key = some i := by
  unfold findUnvisited
  have hex : ∃ i ∈ List.range (locals ++ globals).length,
      (!([] : List Nat).contains i && ((locals ++ globals).getD i ([], [])).1 == key) = true := by
    refine ⟨locals.length + j, by simp; omega, ?_⟩
    have : (locals ++ globals).getD (locals.length + j) ([], []) = globals.getD j ([], []) := by
      simp [List.getD_eq_getElem?_getD, List.getElem?_append_right (Nat.le_add_right _ _)]
    rw [this, hkey]
    simp
  obtain ⟨i, hi⟩ := Option.isSome_iff_exists.mp (List.find?_isSome.mpr hex)
  have hm := List.mem_of_find?_eq_some hi
  have hp := List.find?_some hi
  simp only [List.mem_range, List.length_append] at hm
  refine ⟨i, ?_, hm, hi⟩
  rcases Nat.lt_or_ge i locals.length with h | hge
  · exfalso
    simp only [List.contains_nil, Bool.not_false, Bool.true_and, beq_iff_eq] at hp
    rw [getD_append_left_fst _ _ _ h] at hp
    exact hnolocal i h hp
  · exact hge

/-- a look-up that meets a literal value returns it (trimmed): no further chasing -/
theorem chaseLoop_literal (hay : List (Str × Str)) (key : Str) (fuel : Nat) (visited : List Nat) (needle default : Str)
    (chasing : Bool) (i : Nat) (hfound : findUnvisited hay visited needle = some i)
    (h1 : stripPrefix (S "$") (trim (hay.getD i ([], [])).2) = none)
    (h2 : stripPrefix (S "(") (trim (hay.getD i ([], [])).2) = none) :
    chaseLoop hay key (fuel + 1) visited needle default chasing = .ok (some (trim (trim (hay.getD i ([], [])).2))) := by
  simp only [chaseLoop, hfound, h1, h2]

/-- **an absent name**: the fall-back `d` of `$name(d)` / `(d)` if there is one, an error when the
look-up came from a `$name` reference, "not given" otherwise (the operator's default applies) -/
theorem chaseLoop_absent (hay : List (Str × Str)) (key : Str) (fuel : Nat) (visited : List Nat) (needle default : Str)
    (chasing : Bool) (habsent : findUnvisited hay visited needle = none) :
    chaseLoop hay key (fuel + 1) visited needle default chasing =
      if !default.isEmpty then .ok (some default) else if chasing then .error .syntax else .ok none := by
  simp only [chaseLoop, habsent]

/-- `key=$name`: the look-up goes on for `name`, now as a reference that must resolve -/
theorem chaseLoop_reference (hay : List (Str × Str)) (key : Str) (fuel : Nat) (visited : List Nat) (needle default : Str)
    (chasing : Bool) (i : Nat) (name stripped : Str) (hfound : findUnvisited hay visited needle = some i)
    (h1 : stripPrefix (S "$") (trim (hay.getD i ([], [])).2) = some stripped)
    (hparts : (splitOnAny ['(', ')'] (trim stripped)).filter (fun x => !(trim x).isEmpty) = [name]) :
    chaseLoop hay key (fuel + 1) visited needle default chasing = chaseLoop hay key fuel (i :: visited) name default true := by
  simp only [chaseLoop, hfound, h1, hparts]

/-- `key=$name(d)`: as before, with the fall-back `d` -/
theorem chaseLoop_reference_default (hay : List (Str × Str)) (key : Str) (fuel : Nat) (visited : List Nat)
    (needle default : Str) (chasing : Bool) (i : Nat) (name d stripped : Str)
    (hfound : findUnvisited hay visited needle = some i)
    (h1 : stripPrefix (S "$") (trim (hay.getD i ([], [])).2) = some stripped)
    (hparts : (splitOnAny ['(', ')'] (trim stripped)).filter (fun x => !(trim x).isEmpty) = [name, d]) :
    chaseLoop hay key (fuel + 1) visited needle default chasing = chaseLoop hay key fuel (i :: visited) name d true := by
  simp only [chaseLoop, hfound, h1, hparts]

/-- `key=(d)`: the look-up goes on for the key itself (in the caller's environment: this entry is
now visited), with the fall-back `d` -/
theorem chaseLoop_optional (hay : List (Str × Str)) (key : Str) (fuel : Nat) (visited : List Nat) (needle default : Str)
    (chasing : Bool) (i : Nat) (stripped : Str) (hfound : findUnvisited hay visited needle = some i)
    (h1 : stripPrefix (S "$") (trim (hay.getD i ([], [])).2) = none)
    (h2 : stripPrefix (S "(") (trim (hay.getD i ([], [])).2) = some stripped) :
    chaseLoop hay key (fuel + 1) visited needle default chasing =
      chaseLoop hay key fuel (i :: visited) key (trimEndMatches ')' stripped) true := by
  simp only [chaseLoop, hfound, h1, h2]

/-- **`key=$name` with `name` absent everywhere is an error**, for a parameter of any type (the
look-up does not know the type) -/
theorem reference_to_absent_name_is_error (hay : List (Str × Str)) (key : Str) (fuel : Nat) (i : Nat) (name stripped : Str)
    (hfound : findUnvisited hay [] key = some i)
    (h1 : stripPrefix (S "$") (trim (hay.getD i ([], [])).2) = some stripped)
    (hparts : (splitOnAny ['(', ')'] (trim stripped)).filter (fun x => !(trim x).isEmpty) = [name])
    (habsent : findUnvisited hay [i] name = none) :
    chaseLoop hay key (fuel + 2) [] key [] false = .error .syntax := by
  rw [chaseLoop_reference hay key (fuel + 1) [] key [] false i name stripped hfound h1 hparts,
    chaseLoop_absent hay key fuel [i] name [] true habsent]
  simp

/-- **`key=$name(d)` with `name` absent falls back to `d`** -/
theorem reference_with_default (hay : List (Str × Str)) (key : Str) (fuel : Nat) (i : Nat) (name d stripped : Str)
    (hfound : findUnvisited hay [] key = some i)
    (h1 : stripPrefix (S "$") (trim (hay.getD i ([], [])).2) = some stripped)
    (hparts : (splitOnAny ['(', ')'] (trim stripped)).filter (fun x => !(trim x).isEmpty) = [name, d])
    (habsent : findUnvisited hay [i] name = none) (hd : d.isEmpty = false) :
    chaseLoop hay key (fuel + 2) [] key [] false = .ok (some d) := by
  rw [chaseLoop_reference_default hay key (fuel + 1) [] key [] false i name d stripped hfound h1 hparts,
    chaseLoop_absent hay key fuel [i] name d true habsent]
  simp [hd]

/-! ### a macro invocation is the instantiation of its body in the extended environment -/

/-- unfolding of `instantiate` for an invocation of a macro (a name with a colon, no user operator
involved at that point: names with a colon are looked up among the resources first): **the body
is instantiated with the invocation's arguments in its environment (`RawParameters.next`), the
result inverted if the invocation carries `inv`, and given the invocation's omit flags** -/
theorem macro_invocation_is_expansion {R : Type} [Scalar R] (env : Env R) (fuel : Nat) (p : RawParameters) (body : Str)
    (hdeep : p.nestingTooDeep = false) (hpipe : isPipeline p.definition = false)
    (hres : isResourceName (operatorName p.definition) = true)
    (hbody : env.resource (operatorName p.definition) = some body) :
    instantiate env (fuel + 1) p =
      (instantiate env fuel { p.next p.definition with definition := body }).map fun r =>
        match r with
        | .ok o =>
          match handleInversion o (argSet (splitIntoParameters p.definition) (S "inv")) with
          | .ok o => .ok (setOmits o (splitIntoParameters p.definition))
          | .error e => .error e
        | .error e => .error e := by
  rw [instantiate]
  simp only [hdeep, hpipe, hres, hbody, Bool.false_eq_true, if_false, Bool.not_true]
  rfl

/-! ### the environment handed to a macro body (`RawParameters::next`) -/

theorem pmap_get_insert_same (m : PMap) (k v : Str) : (m.insert k v).get? k = some v := by
  simp [PMap.insert, PMap.get?]

theorem find_filter_ne (m : PMap) (k k' : Str) (h : k' ≠ k) :
    (m.filter (·.1 != k)).find? (·.1 == k') = m.find? (·.1 == k') := by
  induction m with
  | nil => rfl
  | cons e rest ih =>
    by_cases he : e.1 = k
    · have h1 : (e.1 != k) = false := by simp [he]
      have h2 : (e.1 == k') = false := by
        rw [he]; simpa using fun hh => h hh.symm
      simp only [List.filter_cons, h1, Bool.false_eq_true, if_false, List.find?_cons, h2]
      exact ih
    · have h1 : (e.1 != k) = true := by simpa using he
      simp only [List.filter_cons, h1, if_true, List.find?_cons]
      cases e.1 == k' <;> simp [ih]

theorem pmap_get_insert_ne (m : PMap) (k k' v : Str) (h : k' ≠ k) : (m.insert k v).get? k' = m.get? k' := by
  have h2 : (k == k') = false := by simpa using fun hh => h hh.symm
  simp only [PMap.insert, PMap.get?, List.find?_cons, h2, find_filter_ne m k k' h]

theorem pmap_get_erase_ne (m : PMap) (k k' : Str) (h : k' ≠ k) : (m.erase k).get? k' = m.get? k' := by
  simp only [PMap.erase, PMap.get?, find_filter_ne m k k' h]

/-- extending an environment leaves every key that the extension does not mention as it was -/
theorem pmap_get_extend_not_mem (m n : PMap) (k : Str) (h : ∀ e ∈ n, e.1 ≠ k) : (m.extend n).get? k = m.get? k := by
  unfold PMap.extend
  induction n generalizing m with
  | nil => rfl
  | cons e rest ih =>
    simp only [List.foldl_cons]
    rw [ih _ (fun e' he' => h e' (List.mem_cons_of_mem _ he'))]
    exact pmap_get_insert_ne m e.1 k e.2 (fun hh => h e List.mem_cons_self hh.symm)

/-- ... and binds the key of its last entry to that entry's value -/
theorem pmap_get_extend_last (m n1 n2 : PMap) (k v : Str) (h : ∀ e ∈ n2, e.1 ≠ k) :
    (m.extend (n1 ++ (k, v) :: n2)).get? k = some v := by
  unfold PMap.extend
  rw [List.foldl_append, List.foldl_cons]
  have := pmap_get_extend_not_mem ((List.foldl (fun acc e => acc.insert e.1 e.2) m n1).insert k v) n2 k h
  unfold PMap.extend at this
  rw [this, pmap_get_insert_same]

/-- **caller arguments are visible to the body of a macro regardless of how parameters are named**:
whatever the caller's environment binds and the invocation does not rebind (other than the
operator name and the three modifiers, which belong to the invocation itself) is bound the same
way in the environment the body is instantiated in -/
theorem next_keeps_caller_values (self : RawParameters) (definition : Str) (k : Str)
    (hres : isResourceName definition = true)
    (hfresh : ((splitIntoParameters definition).contains nameKey &&
      self.globals.get? nameKey == (splitIntoParameters definition).get? nameKey) = false)
    (hnot : ∀ e ∈ splitIntoParameters definition, e.1 ≠ k)
    (hk : k ≠ nameKey ∧ k ≠ S "inv" ∧ k ≠ S "omit_fwd" ∧ k ≠ S "omit_inv") :
    (self.next definition).globals.get? k = self.globals.get? k := by
  unfold RawParameters.next
  simp only [hres, if_true, hfresh, Bool.false_eq_true, if_false]
  rw [pmap_get_erase_ne _ _ _ hk.2.2.2, pmap_get_erase_ne _ _ _ hk.2.2.1, pmap_get_erase_ne _ _ _ hk.2.1,
    pmap_get_extend_not_mem, pmap_get_erase_ne _ _ _ hk.1]
  intro e he
  simp only [List.mem_map] at he
  obtain ⟨e0, he0, rfl⟩ := he
  have := hnot e0 he0
  split <;> exact this

/-- **an argument of the invocation is bound in the body's environment**, to the value written or,
when that is a reference to the caller's parameters, to what it resolves to in the caller's
environment (the last of repeated keys wins) -/
theorem next_binds_argument (self : RawParameters) (definition : Str) (k v : Str) (args1 args2 : PMap)
    (hres : isResourceName definition = true)
    (hfresh : ((splitIntoParameters definition).contains nameKey &&
      self.globals.get? nameKey == (splitIntoParameters definition).get? nameKey) = false)
    (hsplit : splitIntoParameters definition = args1 ++ (k, v) :: args2)
    (hlast : ∀ e ∈ args2, e.1 ≠ k)
    (hk : k ≠ S "inv" ∧ k ≠ S "omit_fwd" ∧ k ≠ S "omit_inv") :
    (self.next definition).globals.get? k =
      some (match chase self.globals [(k, v)] k with
        | .ok (some r) => r
        | _ => v) := by
  unfold RawParameters.next
  simp only [hres, if_true, hfresh, Bool.false_eq_true, if_false]
  rw [pmap_get_erase_ne _ _ _ hk.2.2, pmap_get_erase_ne _ _ _ hk.2.1, pmap_get_erase_ne _ _ _ hk.1, hsplit,
    List.map_append, List.map_cons]
  have hkeys : ∀ e ∈ List.map (fun (e : Str × Str) =>
      match chase self.globals [(e.1, e.2)] e.1 with
      | .ok (some r) => (e.1, r)
      | _ => e) args2, e.1 ≠ k := by
    intro e he
    simp only [List.mem_map] at he
    obtain ⟨e0, he0, rfl⟩ := he
    have := hlast e0 he0
    split <;> exact this
  simp only []
  cases hc : chase self.globals [(k, v)] k with
  | error err => exact pmap_get_extend_last _ _ _ k v hkeys
  | ok o =>
    cases o with
    | none => exact pmap_get_extend_last _ _ _ k v hkeys
    | some r => exact pmap_get_extend_last _ _ _ k r hkeys


theorem pmap_get_erase_same (m : PMap) (k : Str) : (m.erase k).get? k = none := by
  simp only [PMap.erase, PMap.get?]
  cases h : (m.filter (·.1 != k)).find? (·.1 == k) with
  | none => rfl
  | some e =>
    have h1 := List.find?_some h
    have h2 := (List.mem_filter.mp (List.mem_of_find?_eq_some h)).2
    simp at h1 h2
    exact absurd h1 h2

/-- **the modifiers of an invocation stay with the invocation**: `inv`, `omit_fwd` and `omit_inv`, whether
written on the invocation or inherited from an enclosing one, are not among the parameters the body
of the macro is instantiated with (so they cannot be picked up by the steps of the body, which all
look for these three keys) -/
theorem next_strips_modifiers (self : RawParameters) (definition : Str)
    (hres : isResourceName definition = true)
    (hfresh : ((splitIntoParameters definition).contains nameKey &&
      self.globals.get? nameKey == (splitIntoParameters definition).get? nameKey) = false) :
    (self.next definition).globals.get? (S "inv") = none ∧
    (self.next definition).globals.get? (S "omit_fwd") = none ∧
    (self.next definition).globals.get? (S "omit_inv") = none := by
  unfold RawParameters.next
  simp only [hres, if_true, hfresh, Bool.false_eq_true, if_false]
  refine ⟨?_, ?_, ?_⟩
  · rw [pmap_get_erase_ne _ _ _ (by decide), pmap_get_erase_ne _ _ _ (by decide), pmap_get_erase_same]
  · rw [pmap_get_erase_ne _ _ _ (by decide), pmap_get_erase_same]
  · rw [pmap_get_erase_same]

end C04
end Geodesy
