/-
C04 — a macro invocation means its expansion; macro resolution always terminates.

Model side: `Geodesy/Model/Params.lean` (`chase`, `RawParameters.next`), `Geodesy/Model/Op.lean`
(`instantiate`), mirrored from `op/parsed_parameters.rs`, `op/raw_parameters.rs`, `op/mod.rs`.

Termination is the heart of this file.  In the code, `Op::op` recurses through macro bodies and
pipeline steps; what stops it is the counter `recursion_level`, bumped by every
`RawParameters::next` and refused beyond 100.  The model's `instantiate` carries an explicit
fuel; the theorems show that the fuel is never what stops it (so the model's results are the
code's), that every recursive call strictly increases the level, and that `chase` ends after
at most one visit per parameter.
-/
import Geodesy.Model.Op

namespace Geodesy
namespace C04
open Text

/-! ### `chase` terminates: one visit per entry -/

/-- an index returned by `findUnvisited` is a not yet visited position of the haystack -/
theorem findUnvisited_spec (hay : List (Str × Str)) (visited : List Nat) (needle : Str) (i : Nat)
    (h : findUnvisited hay visited needle = some i) : i < hay.length ∧ i ∉ visited := by
  unfold findUnvisited at h
  have hm := List.mem_of_find?_eq_some h
  have hp := List.find?_some h
  simp only [List.mem_range] at hm
  refine ⟨hm, ?_⟩
  simp only [Bool.and_eq_true, Bool.not_eq_true', List.contains_eq_mem, decide_eq_false_iff_not] at hp
  exact hp.1

/-- the number of haystack positions not yet visited -/
def unvisited (n : Nat) (visited : List Nat) : Nat := ((List.range n).filter (fun i => !visited.contains i)).length

theorem unvisited_cons_lt (n : Nat) (visited : List Nat) (i : Nat) (hi : i < n) (hv : i ∉ visited) :
    unvisited n (i :: visited) < unvisited n visited := by
  unfold unvisited
  -- `i` is counted on the right but not on the left
  have h1 : ((List.range n).filter (fun j => !(i :: visited).contains j)) =
      ((List.range n).filter (fun j => !visited.contains j)).filter (fun j => j != i) := by
    rw [List.filter_filter]
    apply List.filter_congr
    intro j _
    by_cases hji : j = i
    · subst hji; simp
    · have : (j == i) = false := by simpa using hji
      simp [List.contains_cons, this, hji]
  rw [h1]
  have hmem : i ∈ (List.range n).filter (fun j => !visited.contains j) := by
    simp [List.mem_filter, hi, hv]
  exact List.length_filter_lt_length_iff_exists.mpr ⟨i, hmem, by simp⟩

/-- **`chase` never runs out of fuel**: with at least one unit more than there are unvisited
entries the loop ends by itself — it returns a value, "absent", or a `Syntax` error. -/
theorem chaseLoop_fuel_sufficient (hay : List (Str × Str)) (key : Str) (fuel : Nat) (visited : List Nat)
    (needle default : Str) (chasing : Bool) (hf : unvisited hay.length visited < fuel) :
    chaseLoop hay key fuel visited needle default chasing ≠ .error .general := by
  induction fuel generalizing visited needle default chasing with
  | zero => omega
  | succ fuel ih =>
    unfold chaseLoop
    cases hfu : findUnvisited hay visited needle with
    | none =>
      simp only
      split
      · simp
      · split <;> simp
    | some i =>
      simp only
      have ⟨hi, hv⟩ := findUnvisited_spec hay visited needle i hfu
      have hlt := unvisited_cons_lt hay.length visited i hi hv
      have hf' : unvisited hay.length (i :: visited) < fuel := by omega
      split
      · split
        · exact ih _ _ _ _ hf'
        · exact ih _ _ _ _ hf'
        · simp
      · split
        · exact ih _ _ _ _ hf'
        · simp

theorem unvisited_nil (n : Nat) : unvisited n [] = n := by
  have : (List.range n).filter (fun _ => true) = List.range n :=
    List.filter_eq_self.mpr (fun _ _ => rfl)
  simp [unvisited, this]

/-- **`chase` is total**: for every pair of maps and every key it returns a value, "absent" or
a `Syntax` error; the `general` (out-of-fuel) outcome is impossible. -/
theorem chase_total (globals locals : PMap) (key : Str) : chase globals locals key ≠ .error .general := by
  unfold chase
  simp only
  split
  · simp
  · apply chaseLoop_fuel_sufficient
    rw [unvisited_nil]
    omega

/-! ### the recursion counter -/

/-- every `RawParameters::next` increases the level by one, or by two for a macro invocation -/
theorem next_level (p : RawParameters) (definition : Str) :
    (p.next definition).level = p.level + 1 ∨ (p.next definition).level = p.level + 2 := by
  unfold RawParameters.next
  by_cases h : isResourceName definition = true
  · right; simp [h]
  · left; simp [h]

theorem next_level_gt (p : RawParameters) (definition : Str) : p.level < (p.next definition).level := by
  rcases next_level p definition with h | h <;> omega

theorem mapFuel_isSome {β γ : Type} (f : β → Option (Except Err γ)) (l : List β)
    (h : ∀ b ∈ l, (f b).isSome = true) : (mapFuel f l).isSome = true := by
  induction l with
  | nil => rfl
  | cons b bs ih =>
    have hb := h b (List.mem_cons_self ..)
    have hbs := ih (fun b' hb' => h b' (List.mem_cons_of_mem _ hb'))
    simp only [mapFuel]
    rcases hfb : f b with _ | (e | c)
    · simp [hfb] at hb
    · rfl
    · rcases hm : mapFuel f bs with _ | (e | cs)
      · simp [hm] at hbs
      · rfl
      · rfl

/-- **Instantiation terminates and the fuel is never what stops it.**  For every environment
(any set of macro definitions, cyclic or not, any constructors), every text and every level:
with `fuel + level ≥ 102` the model's `instantiate` returns a value or an error of the code —
never "out of fuel".  Hence `Op.new` (fuel 102 at level 0, or 2 for a top-level macro) is the
code's `Op::new`, and recursion through macros is cut by the counter after at most 102 nested
calls. -/
theorem not_too_deep_le (p : RawParameters) (h : p.nestingTooDeep = false) : p.level ≤ RawParameters.limit := by
  simpa [RawParameters.nestingTooDeep] using h

theorem instantiate_fuel_sufficient {R : Type} [Scalar R] (env : Env R) (fuel : Nat) (p : RawParameters)
    (hpos : 0 < fuel) (h : 102 ≤ fuel + p.level) : (instantiate env fuel p).isSome = true := by
  induction fuel generalizing p with
  | zero => omega
  | succ f ih =>
    rw [instantiate]
    by_cases hd : p.nestingTooDeep = true
    · simp [hd]
    · have hd' : p.nestingTooDeep = false := by simpa using hd
      have hl : p.level ≤ 100 := not_too_deep_le p hd'
      have hf : 0 < f := by omega
      have hrec : ∀ q : RawParameters, p.level < q.level → (instantiate env f q).isSome = true :=
        fun q hq => ih q hf (by omega)
      have hsteps : (mapFuel (fun s => instantiate env f (p.next s)) (splitIntoSteps p.definition)).isSome = true :=
        mapFuel_isSome _ _ (fun s _ => hrec _ (next_level_gt p s))
      have hbody : ∀ body : Str, (instantiate env f { p.next p.definition with definition := body }).isSome = true :=
        fun body => hrec _ (next_level_gt p p.definition)
      simp only [hd', Bool.false_eq_true, if_false]
      repeat' split
      all_goals (simp only [Option.isSome_some, Option.isSome_map]; try (first | (with_reducible exact hsteps) | ((with_reducible apply hrec); exact next_level_gt p p.definition)))

/-- the allowance `Op.new` starts with is enough -/
theorem op_new_fuel {R : Type} [Scalar R] (env : Env R) (globals : PMap) (definition : Str) :
    (instantiate env (RawParameters.limit + 2) (RawParameters.new definition globals)).isSome = true :=
  instantiate_fuel_sufficient env _ _ (by simp [RawParameters.limit]) (by simp [RawParameters.limit])

/-- **Depth bound** (restating the ingredients): an instantiation that is not refused at once has
level ≤ 100 (`not_too_deep_le`) and every recursive call is made at a strictly higher level
(`next_level_gt`); so nested calls are at most 102 deep whatever the macro definitions are. -/
theorem depth_bound (p : RawParameters) (s : Str) (h : p.nestingTooDeep = false) :
    p.level ≤ 100 ∧ p.level < (p.next s).level := ⟨not_too_deep_le p h, next_level_gt p s⟩

end C04
end Geodesy
