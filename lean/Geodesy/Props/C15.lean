/-
C15 — grid files decode faithfully; damaged files are rejected rather than crashing.

Model side: `Geodesy/Model/Num/Grid.lean` (`gravsoftBytes`, `gravsoft`, `plain`,
`gridDimensions`, `atPoint`), `Geodesy/Model/Num/Ntv2.lean` (`decode`, `subgrid`, the byte
readers), mirrored from `grid/mod.rs` and `grid/ntv2/*`.

Safety is stated as an invariant: whatever bytes are presented, a grid that the decoder
accepts satisfies `Inv`, and under `Inv` every index that a look-up computes — for every
query point, including NaN and the infinities, which only enter through `clampInt` — lies
inside the node table.  Every byte range the NTv2 decoder reads lies inside the buffer, and
what it stores is bounded by the size of the buffer.
-/
import Geodesy.Model.Num.Ntv2
import Geodesy.Lemmas.Real
import Mathlib.Tactic.Linarith

namespace Geodesy
namespace C15
open Grid Text

variable {R : Type} [Scalar R]

/-! ### the invariant of a decoded grid -/

/-- what `BaseGrid::at` relies on: two rows and columns at least (it clamps the cell index to
`[1, rows-1] × [0, cols-2]`), one band at least, and a node table that holds every node -/
structure Inv (g : BaseGrid R) : Prop where
  rows : 2 ≤ g.rows
  cols : 2 ≤ g.cols
  bands : 1 ≤ g.bands
  size : g.offset + g.rows * g.cols * g.bands ≤ g.grid.length

theorem clampInt_range (x lo hi : Int) (h : lo ≤ hi) :
    lo ≤ clampInt x lo hi ∧ clampInt x lo hi ≤ hi := by
  unfold clampInt
  split
  · omega
  · split <;> omega

/-- **The cell used for ANY query point lies inside the grid** (the point enters through two
conversions to integer that are clamped afterwards; NaN and infinities make no difference) -/
theorem cell_in_range (g : BaseGrid R) (lon lat : R) (hr : 2 ≤ g.rows) (hc : 2 ≤ g.cols) :
    1 ≤ (cellOf g lon lat).row ∧ (cellOf g lon lat).row + 1 ≤ g.rows ∧
    (cellOf g lon lat).col + 2 ≤ g.cols := by
  simp only [cellOf]
  have h1 := clampInt_range
    (Scalar.toI64 (Scalar.ceil ((g.latN - lat) / Scalar.abs g.dlat))) 1 ((g.rows : Int) - 1) (by omega)
  have h2 := clampInt_range
    (Scalar.toI64 (Scalar.floor ((lon - g.lonW) / Scalar.abs g.dlon))) 0 ((g.cols : Int) - 2) (by omega)
  omega

/-- the arithmetic behind the node index -/
theorem index_lt (rows cols bands r k i : Nat) (hr : r + 1 ≤ rows) (hk : k + 1 ≤ cols) (hi : i < bands) :
    bands * (cols * r + k) + i < rows * cols * bands := by
  have h1 : cols * r + k + 1 ≤ cols * rows := by
    calc cols * r + k + 1 ≤ cols * r + cols := by omega
      _ = cols * (r + 1) := by ring
      _ ≤ cols * rows := Nat.mul_le_mul_left _ hr
  calc bands * (cols * r + k) + i < bands * (cols * r + k) + bands := by omega
    _ = bands * (cols * r + k + 1) := by ring
    _ ≤ bands * (cols * rows) := Nat.mul_le_mul_left _ h1
    _ = rows * cols * bands := by ring

/-- **No look-up reads outside the node table**: the four corner indices of `BaseGrid::at`, for
every band it reads, for every query point -/
theorem at_indices_in_bounds (g : BaseGrid R) (h : Inv g) (lon lat : R) (i : Nat) (hi : i < min g.bands 4) :
    let c := cellOf g lon lat
    g.offset + g.bands * (g.cols * c.row + c.col) + i < g.grid.length ∧
    g.offset + g.bands * (g.cols * c.row + (c.col + 1)) + i < g.grid.length ∧
    g.offset + g.bands * (g.cols * (c.row - 1) + c.col) + i < g.grid.length ∧
    g.offset + g.bands * (g.cols * (c.row - 1) + (c.col + 1)) + i < g.grid.length := by
  intro c
  have hc : 1 ≤ c.row ∧ c.row + 1 ≤ g.rows ∧ c.col + 2 ≤ g.cols := cell_in_range g lon lat h.rows h.cols
  obtain ⟨c1, c2, c3⟩ := hc
  have hib : i < g.bands := by omega
  have hs := h.size
  have a := index_lt g.rows g.cols g.bands c.row c.col i c2 (by omega) hib
  have b := index_lt g.rows g.cols g.bands c.row (c.col + 1) i c2 (by omega) hib
  have d := index_lt g.rows g.cols g.bands (c.row - 1) c.col i (by omega) (by omega) hib
  have e := index_lt g.rows g.cols g.bands (c.row - 1) (c.col + 1) i (by omega) (by omega) hib
  refine ⟨?_, ?_, ?_, ?_⟩ <;> omega

/-! ### whatever the decoders accept satisfies the invariant -/

/-- the one fact about Rust's `x as usize` that the decoders rely on: a number that compared
`>= 2.0` converts to at least 2 -/
class UsizeLaw (R : Type) [Scalar R] : Prop where
  two_le : ∀ x : R, Scalar.le (Grid.n 2) x = true → 2 ≤ Scalar.toUsize x

instance : UsizeLaw ℝ where
  two_le := by
    intro x hx
    simp only [scalar_le, decide_eq_true_eq, Grid.n, scalar_ofNatLit] at hx
    show 2 ≤ realToUsize x
    unfold realToUsize
    have : (2 : Int) ≤ ⌊x⌋ := Int.le_floor.mpr (by exact_mod_cast hx)
    omega

theorem gridDimensions_some [UsizeLaw R] {a b c d e f : R} {r k : Nat}
    (h : gridDimensions a b c d e f = some (r, k)) : 2 ≤ r ∧ 2 ≤ k := by
  unfold gridDimensions at h
  simp only [] at h
  split at h
  · cases h
  · rename_i hc
    simp only [Option.some.injEq, Prod.mk.injEq] at h
    obtain ⟨rfl, rfl⟩ := h
    simp only [Bool.or_eq_true, Bool.not_eq_true', not_or, Bool.not_eq_false, Bool.and_eq_true] at hc
    exact ⟨UsizeLaw.two_le _ hc.1.2.1, UsizeLaw.two_le _ hc.2.1⟩

/-- **`BaseGrid::plain` accepts nothing that violates the invariant**, whatever the header and
the node table are -/
theorem plain_ok_inv [UsizeLaw R] (header grid : List R) (g : BaseGrid R)
    (h : plain header grid 0 = .ok g) : Inv g := by
  unfold plain at h
  simp only [] at h
  split at h
  · cases h
  · split at h
    · cases h
    · rename_i rows cols hd
      split at h
      · cases h
      · split at h
        · cases h
        · rename_i hge hbad
          have := gridDimensions_some hd
          cases h
          simp only [beq_self_eq_true, Bool.true_and, Bool.or_eq_true, beq_iff_eq, decide_eq_true_eq,
            not_or, not_lt] at hbad
          exact ⟨this.1, this.2, hbad.2, by simpa using hbad.1.2⟩

/-- **The Gravsoft reader accepts nothing that violates the invariant**: any text at all -/
theorem gravsoft_ok_inv [UsizeLaw R] (text : Str) (g : BaseGrid R)
    (h : gravsoft text = .ok g) : Inv g := by
  unfold gravsoft at h
  simp only [] at h
  split at h
  · cases h
  · split at h
    · cases h
    · split at h
      · cases h
      · split at h
        · cases h
        · split at h
          · cases h
          · split at h
            · cases h
            · exact plain_ok_inv _ _ g h

/-- ... and any bytes at all (bytes that are not UTF-8 are an error) -/
theorem gravsoftBytes_ok_inv [UsizeLaw R] (buf : List UInt8) (g : BaseGrid R)
    (h : gravsoftBytes buf = .ok g) : Inv g := by
  unfold gravsoftBytes at h
  split at h
  · cases h
  · exact gravsoft_ok_inv _ g (by assumption)

/-- a Gravsoft file that is accepted has used ALL the numbers after the header as node values:
none left over, none missing, at most three bands -/
theorem gravsoft_uses_all_values (text : Str) (g : BaseGrid R) (h : gravsoft text = .ok g) :
    ∃ rows cols : Nat,
      let vals : List Str := (Text.lines text).flatMap fun line => Text.splitWs ((Text.splitOn '#' line).headD [])
      6 ≤ vals.length ∧ rows * cols * ((vals.length - 6) / (rows * cols)) = vals.length - 6 ∧
      (vals.length - 6) / (rows * cols) ≤ 3 := by
  unfold gravsoft at h
  simp only [] at h
  split at h
  · cases h
  · rename_i hlen
    split at h
    · cases h
    · rename_i rows cols _
      split at h
      · cases h
      · split at h
        · cases h
        · split at h
          · cases h
          · rename_i hne
            split at h
            · cases h
            · rename_i hb
              refine ⟨rows, cols, ?_⟩
              simp only [List.length_map, List.length_drop, bne_iff_ne, ne_eq, Decidable.not_not,
                not_lt] at hlen hne hb ⊢
              exact ⟨hlen, hne, by omega⟩

/-! ### NTv2: every read lies inside the buffer -/

open Ntv2

theorem slice_isSome {b : Bytes} {off len : Nat} (h : off + len ≤ b.length) : (slice b off len).isSome := by
  simp [slice, h]

theorem slice_length {b bs : Bytes} {off len : Nat} (h : slice b off len = some bs) : bs.length = len := by
  unfold slice at h
  split at h
  · cases h
    simp only [List.length_take, List.length_drop]
    omega
  · cases h

/-- reads in a header record: whenever the 176 bytes of the header are present (the guard in
`Ntv2Grid::new`), every field access (offset + length within the header) is inside the buffer -/
theorem header_reads_in_bounds (p : Parser) (off o len : Nat)
    (hbuf : off + headerSize ≤ p.buf.length) (ho : o + len ≤ headerSize) :
    (p.nat (off + o) len).isSome := by
  unfold Parser.nat
  have : (slice p.buf (off + o) len).isSome := slice_isSome (by omega)
  cases hs : slice p.buf (off + o) len with
  | none => simp [hs] at this
  | some bs => simp

/-- reads of node records: past the length check of `parse_subgrid_grid`, both reads of every
node record are inside the buffer -/
theorem node_reads_in_bounds (p : Parser) (gridStart numNodes i : Nat)
    (hlen : gridStart + numNodes * nodeSize ≤ p.buf.length) (hi : i < numNodes) :
    (p.nat (gridStart + i * nodeSize) 4).isSome ∧ (p.nat (gridStart + i * nodeSize + 4) 4).isSome := by
  have h1 : (i + 1) * nodeSize ≤ numNodes * nodeSize := Nat.mul_le_mul_right _ hi
  have hn : nodeSize = 16 := rfl
  have e : (i + 1) * nodeSize = i * nodeSize + 16 := by rw [hn]; ring
  unfold Parser.nat
  have a : (slice p.buf (gridStart + i * nodeSize) 4).isSome := slice_isSome (by omega)
  have b : (slice p.buf (gridStart + i * nodeSize + 4) 4).isSome := slice_isSome (by omega)
  constructor
  · cases hs : slice p.buf (gridStart + i * nodeSize) 4 with
    | none => simp [hs] at a
    | some bs => simp
  · cases hs : slice p.buf (gridStart + i * nodeSize + 4) 4 with
    | none => simp [hs] at b
    | some bs => simp

/-- a sub-grid header is parsed only when all of it is present -/
theorem readSubgrids_guard (nm : Num R) (p : Parser) (k off : Nat) (acc : Ntv2 R)
    (h : off + headerSize > p.buf.length) : readSubgrids nm p (k + 1) off acc = .error .invalid := by
  simp [readSubgrids, h]

/-- a file shorter than the overview header is refused before anything is read -/
theorem decode_guard (nm : Num R) (buf : Bytes) (h : buf.length < headerSize) :
    decode nm buf = .error .invalid := by
  simp [decode, h]

/-! ### NTv2: what is accepted satisfies the invariant, and is no larger than the file -/

theorem length_flatMap_pair {α : Type} (f : Nat → List α) (hf : ∀ i, (f i).length = 2) (n : Nat) :
    ((List.range n).flatMap f).length = 2 * n := by
  induction n with
  | zero => simp
  | succ n ih => rw [List.range_succ, List.flatMap_append]; simp [ih, hf]; omega

/-- one accepted sub-grid: the invariant holds, and its node table has two values per node
record that is present in the buffer -/
theorem subgrid_ok [UsizeLaw R] (nm : Num R) (p : Parser) (off : Nat) (name parent : Str) (g : BaseGrid R)
    (h : subgrid nm p off = .ok (name, parent, g)) :
    Inv g ∧ off + headerSize + g.grid.length / 2 * nodeSize ≤ p.buf.length := by
  unfold subgrid at h
  simp only [] at h
  split at h
  · cases h
  · split at h
    · rename_i nme par _ _
      split at h
      · cases h
      · rename_i hlen
        split at h
        · cases h
        · rename_i g' hp
          cases h
          refine ⟨plain_ok_inv _ _ _ hp, ?_⟩
          have hg : g.grid.length = 2 * (p.getU32 (off + 168)).getD 0 := by
            have := hp
            unfold plain at this
            simp only [] at this
            split at this
            · cases this
            · split at this
              · cases this
              · split at this
                · cases this
                · split at this
                  · cases this
                  · cases this
                    simp only [List.length_reverse]
                    exact length_flatMap_pair _ (fun i => by simp) _
          rw [hg]
          simp only [not_lt] at hlen
          have e : 2 * (p.getU32 (off + 168)).getD 0 / 2 = (p.getU32 (off + 168)).getD 0 := by omega
          rw [e]
          exact hlen
    · cases h

/-- the loop over the sub-grids keeps whatever holds of each accepted sub-grid -/
theorem readSubgrids_all (nm : Num R) (p : Parser) (P : BaseGrid R → Prop)
    (hsub : ∀ off name parent g, subgrid nm p off = .ok (name, parent, g) → P g)
    (k off : Nat) (acc t : Ntv2 R) (hacc : ∀ e ∈ acc.subgrids, P e.2)
    (h : readSubgrids nm p k off acc = .ok t) : ∀ e ∈ t.subgrids, P e.2 := by
  induction k generalizing off acc with
  | zero => simp only [readSubgrids] at h; cases h; exact hacc
  | succ k ih =>
    simp only [readSubgrids] at h
    split at h
    · cases h
    · split at h
      · cases h
      · rename_i name parent g hs
        split at h
        · cases h
        · refine ih _ _ ?_ h
          intro e he
          simp only [List.mem_append, List.mem_singleton] at he
          rcases he with he | rfl
          · exact hacc e he
          · exact hsub _ _ _ _ hs

/-- **Every sub-grid of an accepted NTv2 file satisfies the invariant and is no larger than the
file**: 8 bytes of file at least for every stored value — whatever the bytes are -/
theorem decode_ok [UsizeLaw R] (nm : Num R) (buf : Bytes) (t : Ntv2 R) (h : decode nm buf = .ok t) :
    ∀ e ∈ t.subgrids, Inv e.2 ∧ e.2.grid.length * 8 ≤ buf.length := by
  unfold decode at h
  simp only [] at h
  split at h
  · cases h
  · split at h
    · cases h
    · split at h
      · cases h
      · split at h
        · cases h
        · split at h
          · cases h
          · rename_i g hr
            split at h
            · cases h
              refine readSubgrids_all nm _ (fun b => Inv b ∧ b.grid.length * 8 ≤ buf.length) ?_ _ _ _ _ ?_ hr
              · intro off name parent b hb
                have := subgrid_ok nm _ off name parent b hb
                refine ⟨this.1, ?_⟩
                have h2 := this.2
                have hn : nodeSize = 16 := rfl
                have hh : headerSize = 176 := rfl
                simp only [hn, hh] at h2
                omega
              · intro e he; cases he
            · cases h

/-! ### NTv2: either byte order, and the order of the nodes -/

/-- the `k` bytes of `v`, least significant first -/
def encLE : Nat → Nat → Bytes
  | 0, _ => []
  | k + 1, v => UInt8.ofNat (v % 256) :: encLE k (v / 256)

/-- ... most significant first -/
def encBE (k v : Nat) : Bytes := (encLE k v).reverse

theorem encLE_length (k v : Nat) : (encLE k v).length = k := by
  induction k generalizing v with
  | zero => rfl
  | succ k ih => simp [encLE, ih]

theorem toNatLE_encLE (k v : Nat) (h : v < 256 ^ k) : toNatLE (encLE k v) = v := by
  induction k generalizing v with
  | zero => simp [encLE, toNatLE] at *; omega
  | succ k ih =>
    have h' : v / 256 < 256 ^ k := by
      rw [Nat.div_lt_iff_lt_mul (by norm_num)]; rw [pow_succ] at h; exact h
    have := ih (v / 256) h'
    simp only [toNatLE] at this
    simp only [encLE, toNatLE, List.foldr_cons, this]
    have : (UInt8.ofNat (v % 256)).toNat = v % 256 := by
      simp [UInt8.toNat_ofNat']
    rw [this]; omega

theorem toNatBE_eq (bs : Bytes) : toNatBE bs = toNatLE bs.reverse := by
  simp [toNatBE, toNatLE, List.foldr_reverse]

theorem toNatBE_encBE (k v : Nat) (h : v < 256 ^ k) : toNatBE (encBE k v) = v := by
  rw [toNatBE_eq, encBE, List.reverse_reverse, toNatLE_encLE k v h]

/-- **A number written in either byte order is read back as written**, wherever it stands in
the file: `k = 4` covers the counts and (through `f32::from_bits`) the node values, `k = 8`
(through `f64::from_bits`) the header fields -/
theorem reads_what_was_written (be : Bool) (pre post : Bytes) (k v : Nat) (h : v < 256 ^ k) :
    Parser.nat { buf := pre ++ (if be then encBE k v else encLE k v) ++ post, bigEndian := be } pre.length k
      = some v := by
  have hl : (if be then encBE k v else encLE k v).length = k := by
    cases be <;> simp [encBE, encLE_length]
  have hs : slice (pre ++ (if be then encBE k v else encLE k v) ++ post) pre.length k
      = some (if be then encBE k v else encLE k v) := by
    unfold slice
    have : pre.length + k ≤ (pre ++ (if be then encBE k v else encLE k v) ++ post).length := by
      simp [hl]
    rw [if_pos this, List.append_assoc, List.drop_left, List.take_left' hl]
  unfold Parser.nat
  rw [hs]
  cases be
  · simp [toNatLE_encLE k v h]
  · simp [toNatBE_encBE k v h]

/-- the byte order is recognised from how the record count 11 of the overview header is written -/
theorem byte_order_detected (be : Bool) (pre post : Bytes) (hpre : pre.length = 8) :
    ((pre ++ (if be then encBE 4 11 else encLE 4 11) ++ post).getD 8 0 != 11) = be := by
  cases be
  · have : (pre ++ encLE 4 11 ++ post).getD 8 0 = 11 := by
      simp only [List.getD_eq_getElem?_getD, List.append_assoc]
      rw [List.getElem?_append_right (by omega)]
      simp [hpre, encLE]
    simp only [Bool.false_eq_true, if_false, this]; decide
  · have : (pre ++ encBE 4 11 ++ post).getD 8 0 = 0 := by
      simp only [List.getD_eq_getElem?_getD, List.append_assoc]
      rw [List.getElem?_append_right (by omega)]
      simp [hpre, encBE, encLE]
    simp only [if_true, this]; decide

/-- the node table is the list of node records REVERSED, each record giving (latitude shift,
longitude shift): record `i` of `N` (counted from the south-east corner westwards, then
northwards) ends up as node `N-1-i` counted from the north-west corner eastwards, then
southwards, with the longitude shift in band 0 and the latitude shift in band 1 -/
theorem node_order {α : Type} (a b : Nat → α) (N i : Nat) (hi : i < N) :
    let l := ((List.range N).flatMap fun i => [a i, b i]).reverse
    l[2 * (N - 1 - i)]? = some (b i) ∧ l[2 * (N - 1 - i) + 1]? = some (a i) := by
  induction N with
  | zero => omega
  | succ N ih =>
    intro l
    have hl : l = b N :: a N :: ((List.range N).flatMap fun i => [a i, b i]).reverse := by
      simp only [l, List.range_succ, List.flatMap_append, List.flatMap_cons, List.flatMap_nil,
        List.append_nil, List.reverse_append, List.reverse_cons, List.reverse_nil, List.nil_append,
        List.cons_append]
    rcases Nat.lt_succ_iff_lt_or_eq.mp hi with h | rfl
    · have := ih h
      have e : N + 1 - 1 - i = (N - 1 - i) + 1 := by omega
      rw [hl, e]
      have e2 : 2 * (N - 1 - i + 1) = 2 * (N - 1 - i) + 1 + 1 := by ring
      rw [e2]
      simpa using this
    · rw [hl]; simp

/-! ### the bytes of a Gravsoft file -/

/-- a file of ASCII bytes is its own text -/
theorem utf8_ascii (bs : List UInt8) (h : ∀ b ∈ bs, b < 0x80) :
    utf8Decode bs = some (bs.map fun b => Char.ofNat b.toNat) := by
  unfold utf8Decode
  suffices ∀ fuel, bs.length ≤ fuel → utf8DecodeAux fuel bs = some (bs.map fun b => Char.ofNat b.toNat) from
    this _ (le_refl _)
  intro fuel
  induction bs generalizing fuel with
  | nil => intro _; cases fuel <;> rfl
  | cons b rest ih =>
    intro hf
    cases fuel with
    | zero => simp at hf
    | succ fuel =>
      have hb : b < 0x80 := h b (by simp)
      simp only [utf8DecodeAux, hb, if_true]
      rw [ih (fun x hx => h x (by simp [hx])) fuel (by simpa using hf)]
      rfl

/-! ### the premises are satisfiable, the invariant is not vacuous -/

/-- a 2 × 3 grid of one band over the reals satisfies the invariant -/
example : Inv (BaseGrid.mk 1 0 0 2 (-1) 1 2 3 1 0 [1, 2, 3, 4, 5, 6] : BaseGrid ℝ) :=
  ⟨by decide, by decide, by decide, by decide⟩

/-- and a single-row "grid" does not: the clamp of the row index to `[1, rows-1]` would be empty -/
example : ¬ Inv (BaseGrid.mk 0 0 0 2 (-1) 1 1 3 1 0 [1, 2, 3] : BaseGrid ℝ) := fun h => absurd h.rows (by decide)

/-- a number in both byte orders -/
example : encLE 4 11 = [11, 0, 0, 0] ∧ encBE 4 11 = [0, 0, 0, 11] := by decide

end C15
end Geodesy
