/-
C19 — coordinate containers and angular encodings are lossless and consistent.

Model side: `Geodesy/Model/Data/Coord.lean` (tuples with the trait's default methods;
containers and adapters as `get_coord` / `set_coord` pairs, with the specialised `xy` /
`set_xy` fast paths), `Geodesy/Model/Num/Angular.lean` (mirrors `math/angular.rs`).
-/
import Geodesy.Model.Data.Coord
import Geodesy.Model.Num.Angular
import Geodesy.Lemmas.Real
import Geodesy.Lemmas.Sexagesimal

namespace Geodesy
namespace C19
open Data

/-! ### tuples: element access -/

section tuple
variable {R : Type} (nan : R)

/-- **out-of-range element access yields NaN** -/
theorem nth_out_of_range (t : Tuple R) (n : Nat) (h : t.dim ≤ n) : t.nth nan n = nan := by
  have : ¬ n < t.dim := by omega
  simp [Tuple.nth, this]

/-- writing an element and reading it back returns it; the other elements are untouched -/
theorem nth_setNth_same (t : Tuple R) (n : Nat) (v : R) (h : n < t.dim) :
    (t.setNth nan n v).nth nan n = v := by
  simp only [Tuple.dim] at h
  simp [Tuple.setNth, Tuple.nth, Tuple.dim, h, List.getD_eq_getElem?_getD]

theorem nth_setNth_other (t : Tuple R) (n m : Nat) (v : R) (h : n < t.dim) (hne : m ≠ n) :
    (t.setNth nan n v).nth nan m = t.nth nan m := by
  simp only [Tuple.dim] at h
  have hne' : n ≠ m := fun e => hne e.symm
  simp [Tuple.setNth, Tuple.nth, Tuple.dim, h, List.getD_eq_getElem?_getD, List.getElem?_set_ne hne']

/-- **writing out of range fills the tuple with NaN** (it never panics) -/
theorem setNth_out_of_range (t : Tuple R) (n : Nat) (v : R) (h : t.dim ≤ n) (m : Nat) (hm : m < t.dim) :
    (t.setNth nan n v).nth nan m = nan := by
  have hn : ¬ n < t.vals.length := by simp only [Tuple.dim] at h; omega
  simp only [Tuple.dim] at hm
  simp [Tuple.setNth, Tuple.dim, hn, Tuple.fill, Tuple.nth, hm, List.getD_eq_getElem?_getD]

theorem setNth_dim (t : Tuple R) (n : Nat) (v : R) : (t.setNth nan n v).dim = t.dim := by
  unfold Tuple.setNth
  split <;> simp [Tuple.dim, Tuple.fill]

/-- **the typed accessors agree with element access** -/
theorem accessors_agree (t : Tuple R) (h : 0 < t.dim) :
    t.x nan = t.nth nan 0 ∧ t.y nan = t.nth nan 1 ∧ t.z nan = t.nth nan 2 ∧ t.tt nan = t.nth nan 3 := by
  refine ⟨?_, ?_, ?_, ?_⟩
  · simp [Tuple.x, Tuple.nth, h]
  · simp only [Tuple.y, Tuple.nth]
  · simp only [Tuple.z, Tuple.nth]
  · simp only [Tuple.tt, Tuple.nth]

/-- `set_xy` is two element writes (or all-NaN on a tuple too short to hold two) -/
theorem setXy_spec (t : Tuple R) (a b : R) (h : 1 < t.dim) :
    t.setXy nan a b = (t.setNth nan 0 a).setNth nan 1 b := by
  have h0 : 0 < t.dim := by omega
  have h1 : 1 < (t.setNth nan 0 a).dim := by rw [setNth_dim]; exact h
  simp only [Tuple.dim] at h h0
  simp [Tuple.setXy, Tuple.setNth, Tuple.dim, h, h0]

/-- **`scale` agrees with the element-wise definition**, for a tuple of any dimension -/
theorem scale_nth [Mul R] (t : Tuple R) (f : R) (n : Nat) (h : n < t.dim) :
    (t.scale f).nth nan n = t.nth nan n * f := by
  simp only [Tuple.dim] at h
  simp [Tuple.scale, Tuple.nth, Tuple.dim, h, List.getD_eq_getElem?_getD]

theorem scale_dim [Mul R] (t : Tuple R) (f : R) : (t.scale f).dim = t.dim := by
  simp [Tuple.scale, Tuple.dim]

/-- `dot` is the left-to-right sum of the element-wise products (the order matters in binary64) -/
theorem dot_eq_foldl [Mul R] [Add R] (zero : R) (t o : Tuple R) :
    Tuple.dot zero nan t o = ((List.range t.dim).map fun i => t.nth nan i * o.nth nan i).foldl (· + ·) zero := by
  simp [Tuple.dot, List.foldl_map]

end tuple

/-- over the reals: **`dot` is the sum of the products of the elements**, whatever the dimension -/
theorem dot_eq_sum (t o : Tuple ℝ) (nan : ℝ) :
    Tuple.dot 0 nan t o = ∑ i ∈ Finset.range t.dim, t.nth nan i * o.nth nan i := by
  rw [dot_eq_foldl]
  generalize t.dim = n
  induction n with
  | zero => simp
  | succ k ih =>
    rw [List.range_succ, List.map_append, List.foldl_append, ih, Finset.sum_range_succ]
    simp

/-- ... and symmetric for tuples of one dimension -/
theorem dot_comm (t o : Tuple ℝ) (nan : ℝ) (h : t.dim = o.dim) : Tuple.dot 0 nan t o = Tuple.dot 0 nan o t := by
  rw [dot_eq_sum, dot_eq_sum, h]
  exact Finset.sum_congr rfl fun i _ => mul_comm _ _

example : Tuple.dot (0 : ℝ) 0 ⟨[1, 2, 3, 4, 5]⟩ ⟨[1, 1, 1, 1, 2]⟩ = 20 := by
  rw [dot_eq_sum]; simp [Finset.sum_range_succ, Tuple.nth, Tuple.dim]; norm_num

/-- the loop of `update` after `k` rounds -/
theorem update_loop (value vals : List R) (k : Nat) (hk1 : k ≤ value.length) (hk2 : k ≤ vals.length) :
    (List.range k).foldl (Tuple.updateStep value) vals = value.take k ++ vals.drop k := by
  induction k with
  | zero => simp
  | succ k ih =>
    have h1 : k < value.length := by omega
    have h2 : k < vals.length := by omega
    rw [List.range_succ, List.foldl_append, ih (by omega) (by omega)]
    simp only [List.foldl_cons, List.foldl_nil, Tuple.updateStep, List.getElem?_eq_getElem h1]
    have hlen : (value.take k).length = k := by rw [List.length_take]; omega
    rw [List.set_append_right _ _ (by rw [hlen]), hlen, Nat.sub_self,
      List.drop_eq_getElem_cons h2, List.set_cons_zero]
    rw [List.take_succ_eq_append_getElem h1, List.append_assoc]
    rfl

/-- **`update` replaces the first `min(len, dim)` elements by those of the slice and leaves the
others, and the dimension, alone — also for a slice longer than the tuple** -/
theorem update_spec (t : Tuple R) (value : List R) :
    (t.update value).vals = value.take (min value.length t.dim) ++ t.vals.drop (min value.length t.dim) ∧
    (t.update value).dim = t.dim := by
  have h := update_loop value t.vals (min value.length t.dim) (Nat.min_le_left _ _) (Nat.min_le_right _ _)
  refine ⟨h, ?_⟩
  simp only [Tuple.dim, Tuple.update] at h ⊢
  rw [h]
  simp only [List.length_append, List.length_take, List.length_drop]
  omega

/-! ### containers: what is written is what is read -/

section containers
variable {R : Type} (zero nan : R)

/-- **Reading back what was written** returns the stored dimensions unchanged; the missing ones
read as height 0 and epoch NaN, or as the adapter's fixed values. -/
theorem get_set (c : Coor R) :
    (Kind.c4 : Kind R).get zero nan (Kind.c4.set c) = c ∧
    (Kind.c3 : Kind R).get zero nan (Kind.c3.set c) = ⟨c.c0, c.c1, c.c2, nan⟩ ∧
    (Kind.c2 : Kind R).get zero nan (Kind.c2.set c) = ⟨c.c0, c.c1, zero, nan⟩ := by
  refine ⟨?_, ?_, ?_⟩ <;> simp [Kind.get, Kind.set]

theorem get_set_adapters (c : Coor R) (h t : R) :
    (Kind.withEpoch Kind.c3 t).get zero nan ((Kind.withEpoch Kind.c3 t).set c) = ⟨c.c0, c.c1, c.c2, t⟩ ∧
    (Kind.withHeightEpoch Kind.c2 h t).get zero nan ((Kind.withHeightEpoch Kind.c2 h t).set c) = ⟨c.c0, c.c1, h, t⟩ ∧
    (Kind.withHeightEpoch Kind.c3 h t).get zero nan ((Kind.withHeightEpoch Kind.c3 h t).set c) = ⟨c.c0, c.c1, h, t⟩ := by
  refine ⟨?_, ?_, ?_⟩ <;> simp [Kind.get, Kind.set]

/-- **Writing back what was read** leaves the stored tuple as it was -/
theorem set_get (a b c d : R) :
    (Kind.c2 : Kind R).set ((Kind.c2 : Kind R).get zero nan [a, b]) = [a, b] ∧
    (Kind.c3 : Kind R).set ((Kind.c3 : Kind R).get zero nan [a, b, c]) = [a, b, c] ∧
    (Kind.c4 : Kind R).set ((Kind.c4 : Kind R).get zero nan [a, b, c, d]) = [a, b, c, d] := by
  refine ⟨?_, ?_, ?_⟩ <;> simp [Kind.get, Kind.set]

/-- the two first elements pass through every container and adapter unchanged -/
theorem get_xy (k : Kind R) (v : List R) (hk : 2 ≤ k.stored) :
    ((k.get zero nan v).c0, (k.get zero nan v).c1) = (v.getD 0 nan, v.getD 1 nan) := by
  induction k with
  | c2 => simp [Kind.get]
  | c3 => simp [Kind.get]
  | c4 => simp [Kind.get]
  | withHeightEpoch k h t ih => simp only [Kind.get]; exact ih (by simpa [Kind.stored] using hk)
  | withEpoch k t ih => simp only [Kind.get]; exact ih (by simpa [Kind.stored] using hk)

/-- **The specialised `xy` fast path equals the trait default**, for every container kind -/
theorem fastpath_eq_default_xy (k : Kind R) (v : List R) (hk : 2 ≤ k.stored) :
    Kind.xyFast nan v = k.xyDefault zero nan v := by
  simp only [Kind.xyFast, Kind.xyDefault]
  exact (get_xy zero nan k v hk).symm

/-- **… and so does `set_xy`**, on the basic containers -/
theorem fastpath_eq_default_set_xy (a b c d x y : R) :
    Kind.setXyFast [a, b] x y = (Kind.c2 : Kind R).setXyDefault zero nan [a, b] x y ∧
    Kind.setXyFast [a, b, c] x y = (Kind.c3 : Kind R).setXyDefault zero nan [a, b, c] x y ∧
    Kind.setXyFast [a, b, c, d] x y = (Kind.c4 : Kind R).setXyDefault zero nan [a, b, c, d] x y := by
  refine ⟨?_, ?_, ?_⟩ <;> simp [Kind.setXyFast, Kind.setXyDefault, Kind.get, Kind.set]

end containers

/-! ### angular encodings (real-number reading) -/

open Angular

/-- **degrees, minutes, seconds ↦ decimal degrees**: `±(|d| + (m + s/60)/60)` with the sign of
`d`, an angle with zero degrees counting as positive. -/
theorem dms_to_dd_spec (d : Int) (m : Nat) (s : ℝ) :
    (dmsToDd d m s : ℝ) = (if d < 0 then -1 else 1) * ((d.natAbs : ℝ) + ((m : ℝ) + s / 60) / 60) := by
  unfold dmsToDd
  split <;> simp [Angular.n]

theorem dm_to_dd_spec (d : Int) (m : ℝ) :
    (dmToDd d m : ℝ) = (if d < 0 then -1 else 1) * ((d.natAbs : ℝ) + m / 60) := by
  unfold dmToDd
  split <;> simp [Angular.n]

/-- zero degrees: the minutes and seconds are not lost -/
theorem dms_zero_degrees (m : Nat) (s : ℝ) : (dmsToDd 0 m s : ℝ) = ((m : ℝ) + s / 60) / 60 := by
  simp [dms_to_dd_spec]

/-- degree / arc-second conversions are mutually inverse -/
theorem arcsec_roundtrip (x : ℝ) : Scalar.toRadians (Scalar.toDegrees x * 3600 / 3600) = x := by
  simp only [scalar_toRadians, scalar_toDegrees]
  have := Real.pi_ne_zero
  field_simp

theorem degrees_roundtrip (x : ℝ) : Scalar.toDegrees (Scalar.toRadians x) = x := by
  simp only [scalar_toRadians, scalar_toDegrees]
  have := Real.pi_ne_zero
  field_simp

/-! ### ISO-6709 encodings and normalisation (real-number reading: "without loss beyond rounding"
means exactly, over the reals) -/

/-- **DDDMM.mmm is lossless for every angle** (decimal degrees → DDDMM.mmm → decimal degrees),
including angles with zero degrees and a negative sign -/
theorem iso_dm_lossless (x : ℝ) (hx : |x| < 42949672) : isoDmToDd (ddToIsoDm x) = x :=
  Sexagesimal.iso_dm_roundtrip x hx

/-- **DDDMMSS.sss is lossless for every angle** -/
theorem iso_dms_lossless (x : ℝ) (hx : |x| < 429496) : isoDmsToDd (ddToIsoDms x) = x :=
  Sexagesimal.iso_dms_roundtrip x hx

/-- **`normalize_symmetric` returns an equivalent angle in `[−π, π)`** -/
theorem normalize_symmetric_equivalent_in_range (x : ℝ) :
    ∃ k : ℤ, normalizeSymmetric x = x + 2 * Real.pi * k ∧ -Real.pi ≤ normalizeSymmetric x ∧ normalizeSymmetric x < Real.pi :=
  Sexagesimal.normalize_symmetric_spec x

/-- **`normalize_positive` returns an equivalent angle in `[0, 2π)`** -/
theorem normalize_positive_equivalent_in_range (x : ℝ) :
    ∃ k : ℤ, normalizePositive x = x + 2 * Real.pi * k ∧ 0 ≤ normalizePositive x ∧ normalizePositive x < 2 * Real.pi :=
  Sexagesimal.normalize_positive_spec x

/-- the range hypotheses are met by the angles the property quantifies over (`[-720, 720]`), e.g. `-0.51°` -/
example : |(-0.51 : ℝ)| < 429496 := by rw [abs_of_neg (by norm_num)]; norm_num

/-! ### non-vacuity -/

example : (⟨[1, 2, 3]⟩ : Tuple Nat).nth 99 5 = 99 ∧ ((⟨[1, 2, 3]⟩ : Tuple Nat).setNth 99 1 7).vals = [1, 7, 3] ∧
    ((⟨[1, 2, 3]⟩ : Tuple Nat).setNth 99 3 7).vals = [99, 99, 99] := by decide

end C19
end Geodesy
