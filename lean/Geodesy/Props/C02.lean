/-
C02 — each tuple is transformed independently of its neighbours, of the order and of the container.

Model side: `Geodesy/Model/Op.lean` (`apply`, the pipeline loops) with leaf semantics abstract.
A leaf is *pointwise* when its data result is `map f` for a per-tuple function `f` (which may
depend on the operator's parameters and the direction, not on the data).  `Good` trees are built
from pointwise leaves and stack-free pipelines.  For every `Good` tree the data result of `apply`
is `map` of one per-tuple function (`good_pointwise`), from which independence of neighbours,
order and chunking follow for all sets of any size (`apply_append`, `apply_perm`,
`apply_singletons`).  `Geodesy/Props/C07.lean` (`loop_eq_map`) shows that the one operator of
the library that carries state from tuple to tuple, `helmert`, is pointwise nevertheless; the
stack steps of a pipeline are pointwise by `C12.program_refines_abstract`.
-/
import Geodesy.Props.C03
import Geodesy.Props.C07
import Geodesy.Model.Ops.Adapt

namespace Geodesy
namespace C02
open Text
variable {α : Type}

/-- the data part of an application is a per-tuple map -/
def Pointwise (run : Dir → List (Coor α) → List (Coor α) × Nat) : Prop :=
  ∀ dir, ∃ f : Coor α → Coor α, ∀ data, (run dir data).1 = data.map f

/-- operator trees made of pointwise leaves and stack-free pipelines -/
inductive Good (sem : LeafSem α) (actionOf : ActionOf α) : Op α → Prop
  | leaf (node : Node α) (steps : List (Op α)) (h : (node.tag == pipelineTag) = false)
      (hp : Pointwise (fun dir data => sem node.tag node.params dir data)) : Good sem actionOf (.mk node steps)
  | pipe (node : Node α) (steps : List (Op α)) (h : (node.tag == pipelineTag) = true)
      (hs : C03.StackFree actionOf steps) (hg : ∀ s, s ∈ steps → Good sem actionOf s) :
      Good sem actionOf (.mk node steps)

/-- the sequential reading of a pipeline over pointwise steps is pointwise -/
theorem seqFwd_pointwise (run : Op α → Dir → List (Coor α) → List (Coor α) × Nat) (steps : List (Op α))
    (h : ∀ s ∈ steps, Pointwise (run s)) :
    ∃ f : Coor α → Coor α, ∀ data n, (C03.seqFwd run steps (data, n)).1 = data.map f := by
  induction steps with
  | nil => exact ⟨id, fun data n => by simp [C03.seqFwd]⟩
  | cons s rest ih =>
    obtain ⟨frest, hrest⟩ := ih (fun t ht => h t (List.mem_cons_of_mem _ ht))
    obtain ⟨fs, hfs⟩ := h s (List.mem_cons_self ..) .fwd
    by_cases ho : s.node.params.flagSet (S "omit_fwd") = true
    · exact ⟨frest, fun data n => by simp only [C03.seqFwd, ho, if_true]; exact hrest data n⟩
    · refine ⟨frest ∘ fs, fun data n => ?_⟩
      simp only [C03.seqFwd, ho, Bool.false_eq_true, if_false]
      rw [hrest, hfs, List.map_map]

theorem seqInvRev_pointwise (run : Op α → Dir → List (Coor α) → List (Coor α) × Nat) (steps : List (Op α))
    (h : ∀ s ∈ steps, Pointwise (run s)) :
    ∃ f : Coor α → Coor α, ∀ data n, (C03.seqInvRev run steps (data, n)).1 = data.map f := by
  induction steps with
  | nil => exact ⟨id, fun data n => by simp [C03.seqInvRev]⟩
  | cons s rest ih =>
    obtain ⟨frest, hrest⟩ := ih (fun t ht => h t (List.mem_cons_of_mem _ ht))
    obtain ⟨fs, hfs⟩ := h s (List.mem_cons_self ..) .inv
    by_cases ho : s.node.params.flagSet (S "omit_inv") = true
    · exact ⟨frest, fun data n => by simp only [C03.seqInvRev, ho, if_true]; exact hrest data n⟩
    · refine ⟨frest ∘ fs, fun data n => ?_⟩
      simp only [C03.seqInvRev, ho, Bool.false_eq_true, if_false]
      rw [hrest, hfs, List.map_map]

/-- **Every good operator tree acts tuple by tuple**, in both directions, whether or not it is
inverted, to any nesting depth. -/
theorem good_pointwise (sem : LeafSem α) (nan : α) (actionOf : ActionOf α) (o : Op α)
    (h : Good sem actionOf o) : Pointwise (apply sem nan actionOf o) := by
  induction h with
  | leaf node steps ht hp =>
    intro dir
    cases dir <;> cases hi : node.inverted
    · obtain ⟨f, hf⟩ := hp .fwd; exact ⟨f, fun data => by simp [apply, ht, hi, hf]⟩
    · obtain ⟨f, hf⟩ := hp .inv; exact ⟨f, fun data => by simp [apply, ht, hi, hf]⟩
    · obtain ⟨f, hf⟩ := hp .inv; exact ⟨f, fun data => by simp [apply, ht, hi, hf]⟩
    · obtain ⟨f, hf⟩ := hp .fwd; exact ⟨f, fun data => by simp [apply, ht, hi, hf]⟩
  | pipe node steps ht hs hg ih =>
    have hsteps : ∀ s ∈ steps, Pointwise (apply sem nan actionOf s) := fun s hs' => ih s hs'
    obtain ⟨ff, hff⟩ := seqFwd_pointwise (apply sem nan actionOf) steps hsteps
    have hrev : ∀ s ∈ steps.reverse, Pointwise (apply sem nan actionOf s) :=
      fun s hs' => hsteps s (List.mem_reverse.mp hs')
    obtain ⟨fi, hfi⟩ := seqInvRev_pointwise (apply sem nan actionOf) steps.reverse hrev
    intro dir
    cases dir <;> cases hi : node.inverted
    · exact ⟨ff, fun data => by simp [apply, ht, hi, C03.runFwd_eq_seq sem nan actionOf steps hs, hff]⟩
    · exact ⟨fi, fun data => by simp [apply, ht, hi, C03.runInv_eq_seq sem nan actionOf steps hs, hfi]⟩
    · exact ⟨fi, fun data => by simp [apply, ht, hi, C03.runInv_eq_seq sem nan actionOf steps hs, hfi]⟩
    · exact ⟨ff, fun data => by simp [apply, ht, hi, C03.runFwd_eq_seq sem nan actionOf steps hs, hff]⟩

/-- **Neighbours and chunking**: the result for a concatenation is the concatenation of the
results, hence any partition into chunks gives the per-tuple results of the whole. -/
theorem apply_append (sem : LeafSem α) (nan : α) (actionOf : ActionOf α) (o : Op α) (h : Good sem actionOf o)
    (dir : Dir) (xs ys : List (Coor α)) :
    (apply sem nan actionOf o dir (xs ++ ys)).1 =
      (apply sem nan actionOf o dir xs).1 ++ (apply sem nan actionOf o dir ys).1 := by
  obtain ⟨f, hf⟩ := good_pointwise sem nan actionOf o h dir
  rw [hf, hf, hf, List.map_append]

/-- **Singletons**: transforming the set is transforming every tuple alone. -/
theorem apply_singletons (sem : LeafSem α) (nan : α) (actionOf : ActionOf α) (o : Op α) (h : Good sem actionOf o)
    (dir : Dir) (xs : List (Coor α)) :
    (apply sem nan actionOf o dir xs).1 = xs.flatMap (fun c => (apply sem nan actionOf o dir [c]).1) := by
  obtain ⟨f, hf⟩ := good_pointwise sem nan actionOf o h dir
  rw [hf]
  induction xs with
  | nil => rfl
  | cons c rest ih => simp [List.flatMap_cons, hf, ih]

/-- **Order**: permuting the set permutes the results. -/
theorem apply_perm (sem : LeafSem α) (nan : α) (actionOf : ActionOf α) (o : Op α) (h : Good sem actionOf o)
    (dir : Dir) (xs ys : List (Coor α)) (hp : xs.Perm ys) :
    ((apply sem nan actionOf o dir xs).1).Perm (apply sem nan actionOf o dir ys).1 := by
  obtain ⟨f, hf⟩ := good_pointwise sem nan actionOf o h dir
  rw [hf, hf]
  exact hp.map f

/-- the position-wise form: tuple `i` of the result depends on tuple `i` of the input alone -/
theorem apply_getElem (sem : LeafSem α) (nan : α) (actionOf : ActionOf α) (o : Op α) (h : Good sem actionOf o)
    (dir : Dir) (xs : List (Coor α)) (i : Nat) (c : Coor α) (hc : xs[i]? = some c) :
    (apply sem nan actionOf o dir xs).1[i]? = (apply sem nan actionOf o dir [c]).1[0]? := by
  obtain ⟨f, hf⟩ := good_pointwise sem nan actionOf o h dir
  rw [hf, hf]
  simp [hc]

/-- **Operators are immutable**: in the model an operator is a value and `apply` a function, so
a repeated application on a fresh copy gives the same result whatever happened in between.
(This is where Rust's `&self` in `Op::apply` is trusted.) -/
theorem apply_pure (sem : LeafSem α) (nan : α) (actionOf : ActionOf α) (o : Op α) (dir : Dir)
    (xs other : List (Coor α)) :
    let _history := apply sem nan actionOf o dir other
    apply sem nan actionOf o dir xs = apply sem nan actionOf o dir xs := rfl

/-! ### the built-in that carries state between tuples is pointwise all the same -/

/-- `helmert`, whatever its parameters: the stateful loop of `helmert_common` is a per-tuple map
(for every scalar reading with IEEE-like NaN and equality, see `C07.loop_eq_map`). -/
theorem helmert_pointwise {R : Type} [Scalar R] (p : Parsed R)
    (hnan : ∀ t : R, Scalar.ne t (Scalar.nan : R) = true)
    (heq : ∀ a b : R, Scalar.ne a b = false → a = b) :
    Pointwise (fun dir data => Ops.Helmert.sem p dir data) := by
  intro dir
  cases hd : Ops.Helmert.derive p with
  | error e => exact ⟨id, fun data => by simp [Ops.Helmert.sem, hd]⟩
  | ok hp =>
    refine ⟨fun c => Ops.Helmert.transform hp (C07.stateAt hp c.c3) dir c, fun data => ?_⟩
    simp only [Ops.Helmert.sem, hd]
    exact C07.loop_eq_map hp dir hnan heq _ (C07.init_inv hp) data

/-- the elementary operators of the model whose data result is literally a `map` -/
theorem addone_pointwise {R : Type} [Scalar R] : Pointwise (fun dir (data : List (Coor R)) => Ops.addoneSem dir data) := by
  intro dir
  exact ⟨_, fun data => rfl⟩

theorem adapt_pointwise {R : Type} [Scalar R] (p : Parsed R) :
    Pointwise (fun dir data => Ops.Adapt.sem p dir data) := by
  intro dir
  cases hg : Ops.Adapt.give p with
  | none => exact ⟨id, fun data => by simp [Ops.Adapt.sem, hg]⟩
  | some g =>
    by_cases hn : g.noop = true
    · exact ⟨id, fun data => by simp [Ops.Adapt.sem, hg, hn]⟩
    · exact ⟨_, fun data => by simp only [Ops.Adapt.sem, hg, hn]; rfl⟩

theorem unitconvert_pointwise {R : Type} [Scalar R] (p : Parsed R) :
    Pointwise (fun dir data => Ops.Unitconvert.sem p dir data) := by
  intro dir
  cases hf : Ops.Unitconvert.factors p with
  | none => exact ⟨id, fun data => by simp [Ops.Unitconvert.sem, hf]⟩
  | some f => exact ⟨_, fun data => by simp only [Ops.Unitconvert.sem, hf]; rfl⟩

/-- for elementary operators of the model the count is the number of tuples, hence additive -/
theorem count_additive_elementary {R : Type} [Scalar R] (dir : Dir) (xs ys : List (Coor R)) :
    (Ops.addoneSem dir (xs ++ ys)).2 = (Ops.addoneSem dir xs).2 + (Ops.addoneSem dir ys).2 := by
  simp [Ops.addoneSem]

/-! ### non-vacuity: a good tree with a nested pipeline -/

section example_
private def incSem : LeafSem Nat := fun _ _ dir data =>
  (data.map fun c => match dir with
    | .fwd => { c with c0 := c.c0 + 1 }
    | .inv => { c with c0 := c.c0 - 1 }, data.length)
private def leafN : Node Nat := { tag := S "inc", definition := S "inc", invertible := true, params := { name := S "inc" } }
private def pipeN : Node Nat := { tag := pipelineTag, definition := S "inc|inc", invertible := true, params := {} }

example : Good incSem (fun _ => none) (.mk pipeN [.mk leafN [], .mk pipeN [.mk leafN []]]) := by
  have hl : Good incSem (fun _ => none) (.mk leafN []) :=
    Good.leaf leafN [] (by decide) (fun dir => ⟨_, fun data => rfl⟩)
  have hsf : ∀ l : List (Op Nat), C03.StackFree (fun _ => none) l → True := fun _ _ => trivial
  have hinner : Good incSem (fun _ => none) (.mk pipeN [.mk leafN []]) := by
    refine Good.pipe pipeN _ (by decide) ?_ ?_
    · intro s hs; simp at hs; subst hs; decide
    · intro s hs; simp at hs; subst hs; exact hl
  refine Good.pipe pipeN _ (by decide) ?_ ?_
  · intro s hs; simp at hs; rcases hs with rfl | rfl <;> decide
  · intro s hs; simp at hs; rcases hs with rfl | rfl
    · exact hl
    · exact hinner
end example_

end C02
end Geodesy
