/-
C03 — pipelines compose their steps in order and invert by reversing inverted steps.

Model side: `Geodesy/Model/Op.lean` (`apply`, `runFwd`, `runInv`, `instantiate`,
`handleInversion`), mirrored from `op/mod.rs` and `inner_op/pipeline.rs`.
Spec side (DESIGN.md A.3): `seqFwd` / `seqInv` below — a left fold over the steps that are not
omitted, each applied as a stand-alone operator; the count is the minimum over the executed
steps, the set size if none was executed.

Leaf operators are uninterpreted (`sem : LeafSem α` is arbitrary), so every theorem holds for all
operators, all parameters and all coordinates at once.
-/
import Geodesy.Model.Op

namespace Geodesy
namespace C03
open Text
variable {α : Type}

/-- running count of the reference semantics: `none` = no step executed yet -/
def minCount (n : Option Nat) (m : Nat) : Option Nat :=
  some (match n with | none => m | some k => min k m)

/-- reference semantics, forward: apply the steps not marked `omit_fwd` one after another, each
as a stand-alone operator in the forward direction -/
def seqFwd (run : Op α → Dir → List (Coor α) → List (Coor α) × Nat) :
    List (Op α) → List (Coor α) × Option Nat → List (Coor α) × Option Nat
  | [], s => s
  | step :: rest, s =>
    if step.node.params.flagSet (S "omit_fwd") then seqFwd run rest s
    else
      let r := run step .fwd s.1
      seqFwd run rest (r.1, minCount s.2 r.2)

/-- reference semantics, inverse: the steps not marked `omit_inv`, in reverse order, each as a
stand-alone operator in the inverse direction -/
def seqInvRev (run : Op α → Dir → List (Coor α) → List (Coor α) × Nat) :
    List (Op α) → List (Coor α) × Option Nat → List (Coor α) × Option Nat
  | [], s => s
  | step :: rest, s =>
    if step.node.params.flagSet (S "omit_inv") then seqInvRev run rest s
    else
      let r := run step .inv s.1
      seqInvRev run rest (r.1, minCount s.2 r.2)

/-- no step of the list is one of the stack related pseudo operators (`push`, `pop`, `stack`),
which have no meaning as stand-alone operators (they are the subject of C12); a nested pipeline
never is one, whatever its text starts with (`stackClass`) -/
def StackFree (actionOf : ActionOf α) (steps : List (Op α)) : Prop :=
  ∀ s ∈ steps, stackClass actionOf s = none

theorem runFwd_eq_seq (sem : LeafSem α) (nan : α) (actionOf : ActionOf α) (steps : List (Op α))
    (h : StackFree actionOf steps) (cols : Stack.Cols α) (data : List (Coor α)) (n : Option Nat) :
    runFwd sem nan actionOf steps ⟨cols, data, n⟩ =
      ⟨cols, (seqFwd (apply sem nan actionOf) steps (data, n)).1,
             (seqFwd (apply sem nan actionOf) steps (data, n)).2⟩ := by
  induction steps generalizing data n with
  | nil => rfl
  | cons step rest ih =>
    have hs : stackClass actionOf step = none := h step (List.mem_cons_self ..)
    have hr : StackFree actionOf rest := fun s hs' => h s (List.mem_cons_of_mem _ hs')
    by_cases ho : step.node.params.flagSet (S "omit_fwd") = true
    · simp only [runFwd, seqFwd, ho, if_true]
      exact ih hr data n
    · simp only [runFwd, seqFwd, ho, hs, PState.record, minCount]
      exact ih hr _ _

theorem runInv_eq_seq (sem : LeafSem α) (nan : α) (actionOf : ActionOf α) (steps : List (Op α))
    (h : StackFree actionOf steps) (cols : Stack.Cols α) (data : List (Coor α)) (n : Option Nat) :
    runInv sem nan actionOf steps ⟨cols, data, n⟩ =
      ⟨cols, (seqInvRev (apply sem nan actionOf) steps.reverse (data, n)).1,
             (seqInvRev (apply sem nan actionOf) steps.reverse (data, n)).2⟩ := by
  -- `seqInvRev` on an appended list
  have happ : ∀ (l1 l2 : List (Op α)) (s : List (Coor α) × Option Nat),
      seqInvRev (apply sem nan actionOf) (l1 ++ l2) s =
        seqInvRev (apply sem nan actionOf) l2 (seqInvRev (apply sem nan actionOf) l1 s) := by
    intro l1
    induction l1 with
    | nil => intro l2 s; rfl
    | cons a t iht =>
      intro l2 s
      by_cases ho : a.node.params.flagSet (S "omit_inv") = true
      · simp only [List.cons_append, seqInvRev, ho, if_true]; exact iht l2 s
      · simp only [List.cons_append, seqInvRev, ho]; exact iht l2 _
  induction steps generalizing data n with
  | nil => rfl
  | cons step rest ih =>
    have hs : stackClass actionOf step = none := h step (List.mem_cons_self ..)
    have hr : StackFree actionOf rest := fun s hs' => h s (List.mem_cons_of_mem _ hs')
    rw [List.reverse_cons, happ]
    simp only [runInv]
    rw [ih hr data n]
    by_cases ho : step.node.params.flagSet (S "omit_inv") = true
    · simp only [seqInvRev, ho, if_true]
    · simp only [seqInvRev, ho, hs, PState.record, minCount]
      rfl

/-- the count a pipeline reports: the running minimum, or the set size if nothing ran -/
def finalCount (data : List (Coor α)) : Option Nat → Nat
  | none => data.length
  | some k => k

/-- **Forward application of a pipeline** (not itself inverted) is the sequential application of
its non-`omit_fwd` steps as stand-alone operators, in order; the count is the minimum. -/
theorem pipeline_fwd_eq_seq (sem : LeafSem α) (nan : α) (actionOf : ActionOf α) (node : Node α)
    (steps : List (Op α)) (data : List (Coor α)) (hp : node.tag = pipelineTag) (hi : node.inverted = false)
    (h : StackFree actionOf steps) :
    apply sem nan actionOf (.mk node steps) .fwd data =
      ((seqFwd (apply sem nan actionOf) steps (data, none)).1,
       finalCount data (seqFwd (apply sem nan actionOf) steps (data, none)).2) := by
  simp [apply, hp, hi, runFwd_eq_seq sem nan actionOf steps h, finalCount]
  cases (seqFwd (apply sem nan actionOf) steps (data, none)).2 <;> rfl

/-- **Inverse application of a pipeline** is the application of the inverse of each
non-`omit_inv` step in reverse order. -/
theorem pipeline_inv_eq_seq_rev (sem : LeafSem α) (nan : α) (actionOf : ActionOf α) (node : Node α)
    (steps : List (Op α)) (data : List (Coor α)) (hp : node.tag = pipelineTag) (hi : node.inverted = false)
    (h : StackFree actionOf steps) :
    apply sem nan actionOf (.mk node steps) .inv data =
      ((seqInvRev (apply sem nan actionOf) steps.reverse (data, none)).1,
       finalCount data (seqInvRev (apply sem nan actionOf) steps.reverse (data, none)).2) := by
  simp [apply, hp, hi, runInv_eq_seq sem nan actionOf steps h, finalCount]
  cases (seqInvRev (apply sem nan actionOf) steps.reverse (data, none)).2 <;> rfl

/-- the node with its `inverted` flag toggled (what the `inv` modifier does, `handle_inversion`) -/
def invert (o : Op α) : Op α := o.setNode { o.node with inverted := !o.node.inverted }

/-- **An inverted step is the step with the two directions exchanged**, whatever the operator
(elementary, pipeline or instantiated macro). -/
theorem op_apply_inverted (sem : LeafSem α) (nan : α) (actionOf : ActionOf α) (o : Op α) (dir : Dir)
    (data : List (Coor α)) :
    apply sem nan actionOf (invert o) dir data = apply sem nan actionOf o dir.flip data := by
  obtain ⟨node, steps⟩ := o
  cases dir <;> cases hinv : node.inverted <;>
    simp [invert, Op.setNode, Op.node, Op.steps, apply, hinv, Dir.flip]

theorem invert_invert (o : Op α) : invert (invert o) = o := by
  obtain ⟨node, steps⟩ := o
  simp [invert, Op.setNode, Op.node, Op.steps]

/-- `handle_inversion` with the flag set inverts an invertible operator, refuses a one-way one -/
theorem handleInversion_spec (o : Op α) :
    handleInversion o false = .ok o ∧
    (o.node.invertible = true → handleInversion o true = .ok (invert o)) ∧
    (o.node.invertible = false → handleInversion o true = .error .nonInvertible) := by
  refine ⟨?_, ?_, ?_⟩
  · unfold handleInversion; cases o.node.invertible <;> simp
  · intro h; simp [handleInversion, h, invert]
  · intro h; simp [handleInversion, h]

/-- the count of a pipeline is the minimum over the executed steps, the set size if none -/
theorem seqFwd_count_none (run : Op α → Dir → List (Coor α) → List (Coor α) × Nat) (steps : List (Op α))
    (data : List (Coor α)) (h : ∀ s ∈ steps, s.node.params.flagSet (S "omit_fwd") = true) :
    seqFwd run steps (data, none) = (data, none) := by
  induction steps with
  | nil => rfl
  | cons s rest ih =>
    simp only [seqFwd, h s (List.mem_cons_self ..), if_true]
    exact ih (fun t ht => h t (List.mem_cons_of_mem _ ht))

/-- running minimum: after the fold the count is at most every executed step's count -/
theorem seqFwd_count_le_init (run : Op α → Dir → List (Coor α) → List (Coor α) × Nat) (steps : List (Op α))
    (data : List (Coor α)) (k : Nat) :
    ∃ m, (seqFwd run steps (data, some k)).2 = some m ∧ m ≤ k := by
  induction steps generalizing data k with
  | nil => exact ⟨k, rfl, Nat.le_refl k⟩
  | cons s rest ih =>
    by_cases ho : s.node.params.flagSet (S "omit_fwd") = true
    · simp only [seqFwd, ho, if_true]; exact ih data k
    · simp only [seqFwd, ho, minCount]
      obtain ⟨m, hm, hle⟩ := ih (run s .fwd data).1 (min k (run s .fwd data).2)
      exact ⟨m, hm, Nat.le_trans hle (Nat.min_le_left ..)⟩

/-! ### modifiers of one step do not reach any other step

`pipeline::new` instantiates step `i` from `parameters.next(step_i)`: the text of the other
steps does not enter.  In the model this is the shape of `mapExcept`. -/

theorem mapFuel_get {β γ : Type} (f : β → Option (Except Err γ)) (l : List β) (out : List γ)
    (h : mapFuel f l = some (.ok out)) :
    out.length = l.length ∧
      ∀ (i : Nat) (b : β), l[i]? = some b → ∃ c, out[i]? = some c ∧ f b = some (.ok c) := by
  induction l generalizing out with
  | nil =>
    simp [mapFuel] at h
    subst h
    exact ⟨rfl, fun i b hb => by simp at hb⟩
  | cons b bs ih =>
    simp only [mapFuel] at h
    rcases hb : f b with _ | (e | c)
    · simp [hb] at h
    · simp [hb] at h
    · rcases hbs : mapFuel f bs with _ | (e | cs)
      · simp [hb, hbs] at h
      · simp [hb, hbs] at h
      · simp [hb, hbs] at h
        subst h
        obtain ⟨hl, hget⟩ := ih cs hbs
        refine ⟨by simp [hl], ?_⟩
        intro i b' hb'
        cases i with
        | zero =>
          simp at hb'
          subst hb'
          exact ⟨c, by simp, hb⟩
        | succ i =>
          obtain ⟨c', hc', hf⟩ := hget i b' (by simpa using hb')
          exact ⟨c', by simpa using hc', hf⟩

/-- **Scope of modifiers.** In an instantiated pipeline, step `i` is the instantiation of the
text of step `i` alone (with the pipeline's globals): no other step's text, and in particular no
other step's `inv` / `omit_fwd` / `omit_inv`, can influence it. -/
theorem modifier_scope {R : Type} [Scalar R] (env : Env R) (fuel : Nat) (p : RawParameters) (o : Op R)
    (hpipe : isPipeline p.definition = true) (hdeep : p.nestingTooDeep = false)
    (h : instantiate env (fuel + 1) p = some (Except.ok o)) :
    o.steps.length = (splitIntoSteps p.definition).length ∧
    ∀ (i : Nat) (s : Str), (splitIntoSteps p.definition)[i]? = some s →
      ∃ o', o.steps[i]? = some o' ∧ instantiate env fuel (p.next s) = some (Except.ok o') := by
  rw [instantiate_pipeline env fuel p hdeep hpipe] at h
  rcases hm : mapFuel (fun s => instantiate env fuel (p.next s)) (splitIntoSteps p.definition) with _ | (e | steps)
  · simp [hm] at h
  · simp [hm, pipelineFinish] at h
  · simp only [hm, Option.map_some, Option.some.injEq] at h
    unfold pipelineFinish at h
    cases hp : (Parsed.new env.ellpsKnown p pipelineGamut : Except Err (Parsed R)) with
    | error e => simp [hp] at h
    | ok params =>
      simp only [hp] at h
      injection h with h
      subst h
      exact mapFuel_get _ _ _ hm

/-- a pipeline never carries directional modifiers of its own after instantiation: whatever
trails its last or leads its first step belongs to that step -/
theorem not_contains_filter (l : List Str) (q : Str → Bool) (k : Str) (h : q k = false) :
    (l.filter q).contains k = false := by
  apply Bool.eq_false_iff.mpr
  intro hc
  have := (List.mem_filter.mp (List.contains_iff_mem.mp hc)).2
  rw [h] at this
  exact Bool.noConfusion this

theorem pipeline_has_no_omit {R : Type} (p : Parsed R) :
    (clearOmits p).flagSet (S "omit_fwd") = false ∧ (clearOmits p).flagSet (S "omit_inv") = false := by
  constructor
  · exact not_contains_filter _ _ _ (by simp)
  · exact not_contains_filter _ _ _ (by simp)

/-! ### non-vacuity: a concrete pipeline of two addone-like steps, one of them omitted forward -/

section example_
private def leafNode (omitted : Bool) : Node Nat :=
  { tag := S "inc", definition := S "inc", invertible := true,
    params := { name := S "inc", boolean := if omitted then [S "omit_fwd"] else [] } }
private def incSem : LeafSem Nat := fun _ _ dir data =>
  (data.map fun c => match dir with
    | .fwd => { c with c0 := c.c0 + 1 }
    | .inv => { c with c0 := c.c0 - 1 }, data.length)
private def pipeNode : Node Nat :=
  { tag := pipelineTag, definition := S "inc|inc", invertible := true, params := {} }
private def demo : Op Nat := .mk pipeNode [.mk (leafNode false) [], .mk (leafNode true) []]

example : apply incSem 0 (fun _ => none) demo .fwd [⟨5, 0, 0, 0⟩] = ([⟨6, 0, 0, 0⟩], 1) := by decide
example : apply incSem 0 (fun _ => none) demo .inv [⟨5, 0, 0, 0⟩] = ([⟨3, 0, 0, 0⟩], 1) := by decide
example : StackFree (fun _ => none) demo.steps := by
  intro s hs
  simp [demo, Op.steps] at hs
  rcases hs with rfl | rfl <;> decide
end example_

end C03
end Geodesy
