/-
C18 — names resolve predictably; handles stay valid and operators never change.

Model side: `Geodesy/Model/Ctx/Context.lean` (the context as a state machine over histories of
API calls), `Geodesy/Model/Op.lean` (`instantiate`, the resolution order).
-/
import Geodesy.Model.Ctx.Context

namespace Geodesy
namespace C18
open Text Ctx
variable {R : Type} [Scalar R]

/-! ### histories: an instantiated operator never changes -/

/-- the operators of a context only ever grow at the end -/
theorem step_operators_prefix (w : World R) (s : State R) (c : Call R) :
    ∃ extra, (step w s c).1.operators = s.operators ++ extra := by
  cases c with
  | registerOp n t => exact ⟨[], by simp [step]⟩
  | registerResource n b => exact ⟨[], by simp [step]⟩
  | op d =>
    simp only [step]
    split
    · exact ⟨[], by simp⟩
    · split
      · exact ⟨[], by simp⟩
      · exact ⟨[_], rfl⟩
  | apply h dir data => simp only [step]; split <;> exact ⟨[], by simp⟩
  | steps h => simp only [step]; split <;> exact ⟨[], by simp⟩
  | params h i =>
    simp only [step]
    split
    · exact ⟨[], by simp⟩
    · split
      · split <;> exact ⟨[], by simp⟩
      · split <;> exact ⟨[], by simp⟩

theorem run_operators_prefix (w : World R) (s : State R) (calls : List (Call R)) :
    ∃ extra, (run w s calls).operators = s.operators ++ extra := by
  induction calls generalizing s with
  | nil => exact ⟨[], by simp [run]⟩
  | cons c rest ih =>
    obtain ⟨e1, h1⟩ := step_operators_prefix w s c
    obtain ⟨e2, h2⟩ := ih (step w s c).1
    exact ⟨e1 ++ e2, by simp [run, h2, h1, List.append_assoc]⟩

/-- **Operators never change (frame property).**  Whatever is registered, instantiated, applied
or inspected later — any history of calls — a handle that exists now still denotes the very same
operator afterwards: same step list, same parameters, same behaviour. -/
theorem op_frame (w : World R) (s : State R) (calls : List (Call R)) (h : Nat) (o : Op R)
    (ho : s.operators[h]? = some o) : (run w s calls).operators[h]? = some o := by
  obtain ⟨extra, hx⟩ := run_operators_prefix w s calls
  rw [hx]
  have hlt : h < s.operators.length := by
    rcases List.getElem?_eq_some_iff.mp ho with ⟨h', _⟩; exact h'
  rw [List.getElem?_append_left hlt]
  exact ho

/-- consequently its behaviour is unchanged: `apply` through the handle gives the same result
before and after any history -/
theorem behaviour_frame (w : World R) (s : State R) (calls : List (Call R)) (h : Nat) (o : Op R)
    (ho : s.operators[h]? = some o) (dir : Dir) (data : List (Coor R)) :
    (step w (run w s calls) (.apply h dir data)).2 = (step w s (.apply h dir data)).2 := by
  simp only [step, op_frame w s calls h o ho, ho]

/-- **Shadowing is prospective**: registering an operator or a macro under a name already in
use (a built-in's, say) does not touch the operators instantiated before. -/
theorem shadowing_is_prospective (w : World R) (s : State R) (name x : Str) (h : Nat) (o : Op R)
    (ho : s.operators[h]? = some o) :
    (step w s (.registerOp name x)).1.operators[h]? = some o ∧
    (step w s (.registerResource name x)).1.operators[h]? = some o := by
  simp [step, ho]

/-- **Handles are unique**: a successful `op` returns the handle no earlier call returned, and
it denotes the operator just made. -/
theorem handles_unique (w : World R) (s : State R) (d : Str) (k : Nat)
    (h : (step w s (.op d)).2 = .handle k) :
    k = s.operators.length ∧ s.operators[k]? = none ∧ ((step w s (.op d)).1.operators[k]?).isSome = true := by
  simp only [step] at h ⊢
  split at h
  · exact absurd h (by simp)
  · split at h
    · exact absurd h (by simp)
    · injection h with h
      subst h
      simp

/-- **Unknown handles give errors** -/
theorem unknown_handle_error (w : World R) (s : State R) (h : Nat) (hh : s.operators.length ≤ h)
    (dir : Dir) (data : List (Coor R)) (i : Nat) :
    (step w s (.apply h dir data)).2 = .err .general ∧ (step w s (.steps h)).2 = .err .general ∧
    (step w s (.params h i)).2 = .err .general := by
  have : s.operators[h]? = none := List.getElem?_eq_none hh
  simp [step, this]

/-! ### the resolution order of `Op::op` -/

/-- **1. pipelines first**: a definition containing `|`, `<` or `>` is a pipeline, whatever
operators or macros are registered -/
theorem resolution_pipeline (env : Env R) (fuel : Nat) (p : RawParameters)
    (hd : p.nestingTooDeep = false) (hp : isPipeline p.definition = true) :
    instantiate env (fuel + 1) p =
      (mapFuel (fun s => instantiate env fuel (p.next s)) (splitIntoSteps p.definition)).map (pipelineFinish env p) :=
  instantiate_pipeline env fuel p hd hp

/-- **2. then a user-registered operator**, for names without a colon — even when a built-in of
the same name exists -/
theorem resolution_user (env : Env R) (fuel : Nat) (p : RawParameters) (c : Ctor R)
    (hd : p.nestingTooDeep = false) (hp : isPipeline p.definition = false)
    (hn : isResourceName (operatorName p.definition) = false)
    (hu : env.user (operatorName p.definition) = some c) :
    instantiate env (fuel + 1) p = some (leafCtor env p c) := by
  rw [instantiate]
  simp only [hd, hp, hn, hu, Bool.false_eq_true, if_false, Bool.not_false, if_true]

/-- **3. then a macro**, for names containing a colon -/
theorem resolution_macro (env : Env R) (fuel : Nat) (p : RawParameters) (body : Str)
    (hd : p.nestingTooDeep = false) (hp : isPipeline p.definition = false)
    (hn : isResourceName (operatorName p.definition) = true)
    (hr : env.resource (operatorName p.definition) = some body) :
    instantiate env (fuel + 1) p =
      (instantiate env fuel { p.next p.definition with definition := body }).map fun r =>
        match r with
        | .ok o =>
          match handleInversion o (argSet (splitIntoParameters p.definition) (S "inv")) with
          | .ok o => .ok (setOmits o (splitIntoParameters p.definition))
          | .error e => .error e
        | .error e => .error e := by
  rw [instantiate]
  simp only [hd, hp, hn, hr, Bool.false_eq_true, if_false, Bool.not_true]
  rfl

/-- **4. then a built-in; otherwise the name is unknown** -/
theorem resolution_builtin (env : Env R) (fuel : Nat) (p : RawParameters)
    (hd : p.nestingTooDeep = false) (hp : isPipeline p.definition = false)
    (hn : isResourceName (operatorName p.definition) = false)
    (hu : env.user (operatorName p.definition) = none)
    (hpl : (operatorName p.definition == pipelineTag) = false) :
    instantiate env (fuel + 1) p =
      (match env.builtin (operatorName p.definition) with
       | some c => some (leafCtor env p c)
       | none => some (.error .notFound)) := by
  rw [instantiate]
  simp only [hd, hp, hn, hu, hpl, Bool.false_eq_true, if_false, Bool.not_false, if_true]
  rfl

/-- a user operator whose name contains a colon is never consulted -/
theorem user_with_colon_ignored (env : Env R) (fuel : Nat) (p : RawParameters)
    (hd : p.nestingTooDeep = false) (hp : isPipeline p.definition = false)
    (hn : isResourceName (operatorName p.definition) = true)
    (hr : env.resource (operatorName p.definition) = none)
    (hpl : (operatorName p.definition == pipelineTag) = false)
    (hb : env.builtin (operatorName p.definition) = none) :
    instantiate env (fuel + 1) p = some (.error .notFound) := by
  rw [instantiate]
  simp only [hd, hp, hn, hr, hpl, hb, Bool.false_eq_true, if_false, Bool.not_true]

/-- run-time registrations take precedence over files (Plain), later registrations over
earlier ones -/
theorem registration_precedence (w : World R) (s : State R) (name body : Str) :
    (env w (step w s (.registerResource name body)).1).resource name = some body := by
  simp [env, step, lookupLast, List.find?]

/-! ### Plain: register files -/

section register
open Ctx

private def reg : Str := S "# Title\n\n```geodesy:one\naddone\n```\ntext\r\n```geodesy:two\r\naddone | addone\r\n```\n\n```geodesy:last\nnoop"

-- several fenced items, CR/LF line ends, an item at the end of the file without terminator
set_option maxRecDepth 4000 in
example : registerItem reg (S "one") = some (S "addone") := by decide
set_option maxRecDepth 4000 in
example : registerItem reg (S "two") = some (S "addone | addone") := by decide
set_option maxRecDepth 4000 in
example : registerItem reg (S "last") = some (S "noop") := by decide
set_option maxRecDepth 4000 in
example : registerItem reg (S "on") = none := by decide
set_option maxRecDepth 4000 in
example : registerItem reg (S "three") = none := by decide
end register

end C18
end Geodesy
