/-
C01 — inverse direction undoes forward direction for every invertible operator.

In the real-number reading, for ALL parameter values and ALL points: the operators whose two
directions are closed forms are exact mutual inverses (translations, permutations with sign and
unit changes, the similarity transformation, the spherical Mercator, the linear part of every
projection); a pipeline run backwards undoes the pipeline run forwards whenever each step's
inverse undoes the step (the rule by which `inv`, pipelines and macros inherit the property).
The iterative and series-based directions (isometric latitude by Newton's method, the
Engsager-Poder series, Bowring's formulas, ...) are decided by the correspondence and the
round-trip oracle on the implementation, with the accuracy classes of the statement.
-/
import Geodesy.Props.C03
import Geodesy.Props.C07
import Geodesy.Props.C11
import Geodesy.Props.C06
import Geodesy.Model.Registry
import Geodesy.Lemmas.Real
import Mathlib.Tactic.Linarith
import Mathlib.Tactic.FieldSimp
import Geodesy.Lemmas.Sexagesimal
import Mathlib.Analysis.SpecialFunctions.Complex.Arg
import Mathlib.Analysis.SpecialFunctions.Trigonometric.Arctan

namespace Geodesy
namespace C01
open Text Ops

/-! ### translations, unit changes -/

/-- addone: `inv ∘ fwd = id` and `fwd ∘ inv = id`, every tuple counted -/
theorem addone_roundtrip (data : List (Coor ℝ)) :
    Ops.addoneSem .inv (Ops.addoneSem .fwd data).1 = (data, data.length) ∧
    Ops.addoneSem .fwd (Ops.addoneSem .inv data).1 = (data, data.length) := by
  constructor <;>
  · simp only [Ops.addoneSem, List.map_map, List.length_map, Prod.mk.injEq, and_true]
    conv => rhs; rw [← List.map_id data]
    apply List.map_congr_left
    intro c _
    cases c
    simp [Scalar.ofNatLit, Lit.toReal]

/-- the noop aliases -/
theorem noop_roundtrip (data : List (Coor ℝ)) : Ops.noopSem (Ops.noopSem data).1 = (data, data.length) := rfl

/-- unit conversion: multiplying by `in/out` and dividing by it again (C11.unitconvert_roundtrip) -/
theorem unitconvert_roundtrip (x a b : ℝ) (ha : a ≠ 0) (hb : b ≠ 0) : x * (a * (1 / b)) / (a * (1 / b)) = x :=
  C11.unitconvert_roundtrip x a b ha hb

/-! ### the spherical Mercator -/

/-- `π/2 − 2·atan(exp(−ln tan(π/4 + φ/2))) = φ` for every latitude strictly between the poles -/
theorem webmerc_lat_roundtrip (lat : ℝ) (h1 : -(Real.pi / 2) < lat) (h2 : lat < Real.pi / 2) :
    Real.pi / 2 - 2 * Real.arctan (Real.exp (-Real.log (Real.tan (Real.pi / 4 + lat / 2)))) = lat := by
  have hu1 : -(Real.pi / 2) < Real.pi / 4 + lat / 2 := by linarith [Real.pi_pos]
  have hu2 : Real.pi / 4 + lat / 2 < Real.pi / 2 := by linarith
  have hu0 : 0 < Real.pi / 4 + lat / 2 := by linarith
  have ht : 0 < Real.tan (Real.pi / 4 + lat / 2) := Real.tan_pos_of_pos_of_lt_pi_div_two hu0 hu2
  rw [Real.exp_neg, Real.exp_log ht, Real.arctan_inv_of_pos ht, Real.arctan_tan hu1 hu2]
  ring

/-- **webmerc: inverse undoes forward** on any sphere of non-zero radius, for every longitude
and every latitude strictly between the poles -/
theorem webmerc_roundtrip (p : Parsed ℝ) (lon lat : ℝ) (ha : (p.ellps 0).a ≠ 0)
    (h1 : -(Real.pi / 2) < lat) (h2 : lat < Real.pi / 2) :
    Webmerc.inv p (Webmerc.fwd p lon lat).1 (Webmerc.fwd p lon lat).2 = (lon, lat) := by
  have two : (@OfScientific.ofScientific ℝ Scalar.instOfScientific 20 true 1) = 2 := by
    simp [OfScientific.ofScientific, Scalar.ofSci, Lit.toReal]; norm_num
  have four : (@OfScientific.ofScientific ℝ Scalar.instOfScientific 40 true 1) = 4 := by
    simp [OfScientific.ofScientific, Scalar.ofSci, Lit.toReal]; norm_num
  simp only [Webmerc.inv, Webmerc.fwd, Webmerc.fracPi4, Ellipsoid.fracPi2, scalar_ln, scalar_tan, scalar_atan,
    scalar_exp, scalar_pi, two, four, Prod.mk.injEq]
  constructor
  · field_simp
  · have : -((p.ellps 0).a * Real.log (Real.tan (Real.pi / 4 + lat / 2))) / (p.ellps 0).a
        = -Real.log (Real.tan (Real.pi / 4 + lat / 2)) := by field_simp
    rw [this]
    exact webmerc_lat_roundtrip lat h1 h2

/-! ### the linear part of merc: easting and longitude -/

/-- merc: the longitude comes back from the easting exactly -/
theorem merc_lon_roundtrip (p : Parsed ℝ) (lon lat : ℝ) (ha : (p.ellps 0).a ≠ 0) (hk : Parsed.k p 0 ≠ 0) :
    (Merc.inv p (Merc.fwd p lon lat).1 (Merc.fwd p lon lat).2).1 = lon := by
  simp only [Merc.inv, Merc.fwd]
  field_simp
  ring

/-! ### similarity transformations, axis adaptors (from C07 and C11) -/

/-- helmert with an exact rotation matrix: the inverse undoes the forward transformation -/
theorem helmert_roundtrip (p : Helmert.Params ℝ) (st : Helmert.LoopState ℝ) (c : Coor ℝ) (hs : st.SS ≠ 0)
    (ho : C07.Orthogonal st.ROT) :
    Helmert.transform p st .inv (Helmert.transform p st .fwd c) = c :=
  C07.inverse_exact p st c hs (fun _ => ho)

/-! ### pipelines, `inv`, macros -/

/-- a list of steps, each with a forward and an inverse function -/
abbrev Steps (β : Type) := List ((β → β) × (β → β))

/-- forward: the steps in order -/
def runSteps {β : Type} (steps : Steps β) (x : β) : β := steps.foldl (fun acc s => s.1 acc) x
/-- inverse: the inverses of the steps in reverse order -/
def unrunSteps {β : Type} (steps : Steps β) (x : β) : β := steps.foldr (fun s acc => s.2 acc) x

/-- **A pipeline run backwards undoes the pipeline run forwards whenever each step's inverse
undoes the step** — on the set of values the steps actually produce, which is how the property
is inherited by pipelines, by macros (which expand to pipelines) and, through
`C03.op_apply_inverted`, by operators instantiated with `inv` -/
theorem pipeline_roundtrip {β : Type} (steps : Steps β) (x : β)
    (h : ∀ s ∈ steps, ∀ y, s.2 (s.1 y) = y) : unrunSteps steps (runSteps steps x) = x := by
  induction steps generalizing x with
  | nil => rfl
  | cons s rest ih =>
    simp only [runSteps, unrunSteps, List.foldl_cons, List.foldr_cons]
    have := ih (s.1 x) (fun t ht y => h t (by simp [ht]) y)
    simp only [runSteps, unrunSteps] at this
    rw [this]
    exact h s (by simp) x

/-- ... and forwards undoes backwards when each step undoes its inverse -/
theorem pipeline_roundtrip_rev {β : Type} (steps : Steps β) (x : β)
    (h : ∀ s ∈ steps, ∀ y, s.1 (s.2 y) = y) : runSteps steps (unrunSteps steps x) = x := by
  induction steps generalizing x with
  | nil => rfl
  | cons s rest ih =>
    simp only [runSteps, unrunSteps, List.foldl_cons, List.foldr_cons]
    rw [h s (by simp)]
    have := ih x (fun t ht y => h t (by simp [ht]) y)
    simpa only [runSteps, unrunSteps] using this

/-- an operator instantiated with `inv` applies the other direction (C03) -/
theorem inv_modifier {α : Type} (sem : LeafSem α) (nan : α) (actionOf : ActionOf α) (o : Op α) (dir : Dir)
    (data : List (Coor α)) :
    apply sem nan actionOf (C03.invert o) dir data = apply sem nan actionOf o dir.flip data :=
  C03.op_apply_inverted sem nan actionOf o dir data

example : runSteps [((· + 1), (· - 1)), ((· * 2), (· / 2))] (3 : ℚ) = 8 ∧
    unrunSteps [((· + 1), (· - 1)), ((· * 2), (· / 2))] (8 : ℚ) = 3 := by
  constructor <;> norm_num [runSteps, unrunSteps]

/-! ### closed-form auxiliary latitudes, the permanent tide, the ISO-6709 operators -/

/-- `atan2(y, x) = atan(y / x)` for a positive `x` -/
theorem atan2_of_pos (x y : ℝ) (hx : 0 < x) : (Scalar.atan2 y x : ℝ) = Real.arctan (y / x) := by
  show Complex.arg ⟨x, y⟩ = _
  have hlt : |Complex.arg ⟨x, y⟩| < Real.pi / 2 := Complex.abs_arg_lt_pi_div_two_iff.mpr (Or.inl hx)
  have h := abs_lt.mp hlt
  rw [← Real.arctan_tan h.1 h.2, Complex.tan_arg]

/-- **latitude geocentric: inverse undoes forward** for every ellipsoid with `e² ≠ 1` and every latitude
strictly between the poles -/
theorem latitude_geocentric_roundtrip (el : Ellipsoid ℝ) (phi : ℝ) (hes : el.eccentricitySquared ≠ 1)
    (h1 : -(Real.pi / 2) < phi) (h2 : phi < Real.pi / 2) :
    el.latitudeGeocentricToGeographic (el.latitudeGeographicToGeocentric phi) = phi := by
  have one : (@OfScientific.ofScientific ℝ Scalar.instOfScientific 10 true 1) = 1 := by
    simp [OfScientific.ofScientific, Scalar.ofSci, Lit.toReal]
  have two : (@OfScientific.ofScientific ℝ Scalar.instOfScientific 20 true 1) = 2 := by
    simp [OfScientific.ofScientific, Scalar.ofSci, Lit.toReal]; norm_num
  have hne : (1 - el.f * (2 - el.f)) ≠ 0 := by
    intro h; apply hes
    simp only [Ellipsoid.eccentricitySquared, two]; linarith
  simp only [Ellipsoid.latitudeGeocentricToGeographic, Ellipsoid.latitudeGeographicToGeocentric,
    Ellipsoid.eccentricitySquared, one, two, scalar_atan, scalar_tan, Real.tan_arctan]
  rw [mul_div_assoc, mul_comm, div_mul_cancel₀ _ hne]  
  exact Real.arctan_tan h1 h2

/-- **latitude reduced (parametric): inverse undoes forward** for every flattening below one -/
theorem latitude_reduced_roundtrip (el : Ellipsoid ℝ) (phi : ℝ) (hf : el.f < 1)
    (h1 : -(Real.pi / 2) < phi) (h2 : phi < Real.pi / 2) :
    el.latitudeReducedToGeographic (el.latitudeGeographicToReduced phi) = phi := by
  have one : (@OfScientific.ofScientific ℝ Scalar.instOfScientific 10 true 1) = 1 := by
    simp [OfScientific.ofScientific, Scalar.ofSci, Lit.toReal]
  have hpos : 0 < 1 - el.f := by linarith
  simp only [Ellipsoid.latitudeReducedToGeographic, Ellipsoid.latitudeGeographicToReduced, one]
  have hpos' : 0 < 1 / (1 - el.f) := by positivity
  rw [atan2_of_pos _ _ hpos, atan2_of_pos _ _ hpos', scalar_tan, scalar_tan, Real.tan_arctan]
  have : Real.tan phi / (1 / (1 - el.f)) / (1 - el.f) = Real.tan phi := by field_simp
  rw [this]
  exact Real.arctan_tan h1 h2

/-- **permtide: inverse undoes forward, and forward undoes inverse**, for every system pair, every
ellipsoid and every tuple (the correction depends on the latitude only, which it leaves alone) -/
theorem permtide_roundtrip (p : Parsed ℝ) (data : List (Coor ℝ)) :
    (Permtide.sem p .inv (Permtide.sem p .fwd data).1).1 = data ∧
    (Permtide.sem p .fwd (Permtide.sem p .inv data).1).1 = data := by
  unfold Permtide.sem
  cases p.real? (S "coefficient") with
  | none => exact ⟨rfl, rfl⟩
  | some k =>
    constructor <;>
    · simp only [List.map_map]
      conv => rhs; rw [← List.map_id data]
      apply List.map_congr_left
      intro c _
      cases c
      simp [Permtide.delta]

/-- **dm, dms: forward undoes inverse** for every position (longitude, latitude in radians, of
magnitude below 4·10⁷ resp. 4·10⁵ degrees): encoding as DDDMM.mmm / DDDMMSS.sss and decoding
returns the position, height and time untouched -/
theorem dm_roundtrip (o : Coor ℝ) (h0 : |o.c0 * (180 / Real.pi)| < 42949672) (h1 : |o.c1 * (180 / Real.pi)| < 42949672) :
    Iso6709.dmFwd (Iso6709.dmInv o) = o := by
  cases o with
  | mk a b c d =>
    have hp := Real.pi_ne_zero
    simp only [Iso6709.dmFwd, Iso6709.dmInv, Iso6709.isoDm, Iso6709.geo, scalar_toDegrees, scalar_toRadians,
      Sexagesimal.iso_dm_roundtrip _ h0, Sexagesimal.iso_dm_roundtrip _ h1]
    congr 1 <;> field_simp

theorem dms_roundtrip (o : Coor ℝ) (h0 : |o.c0 * (180 / Real.pi)| < 429496) (h1 : |o.c1 * (180 / Real.pi)| < 429496) :
    Iso6709.dmsFwd (Iso6709.dmsInv o) = o := by
  cases o with
  | mk a b c d =>
    have hp := Real.pi_ne_zero
    simp only [Iso6709.dmsFwd, Iso6709.dmsInv, Iso6709.isoDms, Iso6709.geo, scalar_toDegrees, scalar_toRadians,
      Sexagesimal.iso_dms_roundtrip _ h0, Sexagesimal.iso_dms_roundtrip _ h1]
    congr 1 <;> field_simp

/-- **`cart`: forward then inverse is the identity for every point of height zero** (every ellipsoid with
`0 < f < 1`, every longitude in ]−π, π], every latitude strictly between the poles, beyond the cut-off distance
from the axis) — proved with the ellipsoid's geometry in `C06.cart_roundtrip_on_surface` -/
theorem cart_roundtrip_height_zero (p : Parsed ℝ) (ha : 0 < (p.ellps 0).a) (hf0 : 0 < (p.ellps 0).f) (hf1 : (p.ellps 0).f < 1)
    (lam phi t : ℝ) (hl1 : -Real.pi < lam) (hl2 : lam ≤ Real.pi)
    (hp1 : -(Real.pi / 2) < phi) (hp2 : phi < Real.pi / 2)
    (hfar : (p.ellps 0).a * C06.cutoffLit ≤
      (p.ellps 0).a * Real.cos phi / Real.sqrt (1 - Real.sin phi ^ 2 * (p.ellps 0).eccentricitySquared)) :
    Ops.Cart.inv p (Ops.Cart.fwd p ⟨lam, phi, 0, t⟩) = ⟨lam, phi, 0, t⟩ :=
  C06.cart_roundtrip_on_surface p ha hf0 hf1 lam phi t hl1 hl2 hp1 hp2 hfar

end C01
end Geodesy
