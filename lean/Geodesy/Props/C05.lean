/-
C05 — each map projection has the geometry that defines it.

Proved here (real-number reading): the defining lines and points that are algebraic facts of
the formulas — webmerc IS the spherical Mercator of radius a; merc's easting is k_0·a times the
longitude difference (scale k_0 along the equator), the k_0 installed by lat_ts makes the scale
on that parallel exactly one, and the projection centre maps to the false origin; lcc's
projection centre maps to the false origin and its central meridian to the line x = x_0.
**merc is conformal at every point, for every ellipsoid and parameter set** (`merc_conformal`,
through the derivative of the isometric latitude).  Conformality of the series-based
projections, equivalence and the scale on the other defining lines involve derivatives of the series and are decided by the tie to
/repo: finite differences on the implementation, with the model bit-identical on the same
points.
-/
import Geodesy.Props.C13
import Geodesy.Lemmas.Mercator
import Geodesy.Lemmas.Conic
import Geodesy.Lemmas.TmercLemmas
import Mathlib.Analysis.Real.Pi.Bounds

namespace Geodesy
namespace C05
open Text Ops C13 Mercator Conic

/-! ### webmerc -/

/-- **webmerc equals the spherical Mercator of radius a**: `x = a·λ`, `y = a·ln tan(π/4 + φ/2)`,
whatever the flattening of the ellipsoid named -/
theorem webmerc_is_spherical_mercator (p : Parsed ℝ) (lon lat : ℝ) :
    Webmerc.fwd p lon lat = (lon * (p.ellps 0).a, (p.ellps 0).a * Real.log (Real.tan (Real.pi / 4 + lat / 2))) := by
  have two : (@OfScientific.ofScientific ℝ Scalar.instOfScientific 20 true 1) = 2 := by
    simp [OfScientific.ofScientific, Scalar.ofSci, Lit.toReal]; norm_num
  have four : (@OfScientific.ofScientific ℝ Scalar.instOfScientific 40 true 1) = 4 := by
    simp [OfScientific.ofScientific, Scalar.ofSci, Lit.toReal]; norm_num
  simp [Webmerc.fwd, Webmerc.fracPi4, two, four]

/-! ### merc -/

/-- **scale k_0 along the equator (and along every parallel, in the plane)**: eastings differ by
`k_0 · a` times the longitude difference -/
theorem merc_easting_linear (p : Parsed ℝ) (lon1 lon2 lat : ℝ) :
    (Merc.fwd p lon2 lat).1 - (Merc.fwd p lon1 lat).1 = Parsed.k p 0 * (p.ellps 0).a * (lon2 - lon1) := by
  simp only [Merc.fwd]; ring

/-- the scale factor of the Mercator projection on the parallel `φ` is `k_0 · sqrt(1 − e² sin²φ) / cos φ`
(parallel radius `a cos φ / sqrt(1 − e² sin²φ)` against `k_0 · a` per radian of longitude);
**with the `k_0` that `lat_ts` installs it is exactly one on the parallel `lat_ts`** -/
theorem merc_unit_scale_at_lat_ts (es ts : ℝ) (hc : Real.cos ts ≠ 0) (hw : 0 < 1 - es * Real.sin ts * Real.sin ts) :
    (Real.cos ts / Real.sqrt (1 - es * Real.sin ts * Real.sin ts)) *
      (Real.sqrt (1 - es * Real.sin ts * Real.sin ts) / Real.cos ts) = 1 := by
  have hs : Real.sqrt (1 - es * Real.sin ts * Real.sin ts) ≠ 0 := (Real.sqrt_pos.mpr hw).ne'
  generalize Real.sqrt (1 - es * Real.sin ts * Real.sin ts) = w at hs
  field_simp

/-- **the projection centre `(lon_0, lat_0)` maps to the false origin `(x_0, y_0)`** (merc) -/
theorem merc_centre_to_false_origin (p : Parsed ℝ) :
    Merc.fwd p (Scalar.toRadians (Parsed.lon p 0)) (Scalar.toRadians (Parsed.lat p 0)) = (Parsed.x p 0, Parsed.y p 0) := by
  simp [Merc.fwd]

/-- **merc is conformal**, for every ellipsoid with `0 ≤ f < 1`, every parameter set and every point
strictly between the poles: the northing has derivative `a k_0 (1 − e²) / ((1 − e² sin²φ) cos φ)`
with respect to the latitude, the easting `k_0 a` with respect to the longitude; the northing
does not depend on the longitude nor the easting on the latitude (meridians and parallels stay
orthogonal, orientation is kept); and the scale along the meridian, `∂N/∂φ` over the meridian
radius `M = a (1 − e²) / W³`, equals the scale along the parallel, `∂E/∂λ` over the radius of the
parallel `(a / W) cos φ`, where `W = sqrt(1 − e² sin²φ)` -/
theorem merc_conformal (p : Parsed ℝ) (lon phi : ℝ) (hf0 : 0 ≤ (p.ellps 0).f) (hf1 : (p.ellps 0).f < 1)
    (ha : (p.ellps 0).a ≠ 0) (h1 : -(Real.pi / 2) < phi) (h2 : phi < Real.pi / 2) :
    let el := p.ellps 0
    let es := el.eccentricitySquared
    let W := Real.sqrt (1 - es * Real.sin phi ^ 2)
    let dy := el.a * Parsed.k p 0 * ((1 - es) / ((1 - es * Real.sin phi ^ 2) * Real.cos phi))
    HasDerivAt (fun x => (Merc.fwd p lon x).2) dy phi ∧
    HasDerivAt (fun l => (Merc.fwd p l phi).1) (Parsed.k p 0 * el.a) lon ∧
    (∀ l, (Merc.fwd p l phi).2 = (Merc.fwd p lon phi).2) ∧
    (∀ x, (Merc.fwd p lon x).1 = (Merc.fwd p lon phi).1) ∧
    dy / (el.a * (1 - es) / W ^ 3) = (Parsed.k p 0 * el.a) / (el.a / W * Real.cos phi) := by
  intro el es W dy
  have two : (@OfScientific.ofScientific ℝ Scalar.instOfScientific 20 true 1) = 2 := by
    simp [OfScientific.ofScientific, Scalar.ofSci, Lit.toReal]; norm_num
  have hes : es = el.f * (2 - el.f) := by simp [es, Ellipsoid.eccentricitySquared, two]
  have hes0 : 0 ≤ es := by rw [hes]; nlinarith
  have hes1 : es < 1 := by rw [hes]; nlinarith
  have he : el.eccentricity ^ 2 = es := by
    simp only [Ellipsoid.eccentricity, scalar_sqrt]; exact Real.sq_sqrt hes0
  have he0 : 0 ≤ el.eccentricity := by simp only [Ellipsoid.eccentricity, scalar_sqrt]; exact Real.sqrt_nonneg _
  have he1 : el.eccentricity < 1 := by
    have : el.eccentricity ^ 2 < 1 := by rw [he]; exact hes1
    nlinarith [sq_nonneg (el.eccentricity - 1)]
  have hc : 0 < Real.cos phi := Real.cos_pos_of_mem_Ioo ⟨h1, h2⟩
  have hw : 0 < 1 - es * Real.sin phi ^ 2 := by nlinarith [Real.sin_sq_le_one phi, sq_nonneg (Real.sin phi)]
  have hW : 0 < W := Real.sqrt_pos.mpr hw
  have hW2 : W ^ 2 = 1 - es * Real.sin phi ^ 2 := Real.sq_sqrt hw.le
  refine ⟨?_, ?_, fun l => by simp [Merc.fwd], fun x => by simp [Merc.fwd], ?_⟩
  · -- the northing: a k_0 (ψ(x) − ψ_0) + y_0
    have dpsi := isometric_hasDerivAt el.eccentricity phi he0 he1 h1 h2
    rw [he] at dpsi
    have := ((dpsi.sub_const (el.latitudeGeographicToIsometric (Scalar.toRadians (Parsed.lat p 0)))).const_mul
      (el.a * Parsed.k p 0)).add_const (Parsed.y p 0)
    refine this.congr_of_eventuallyEq ?_ |>.congr_deriv ?_
    · exact Filter.Eventually.of_forall fun x => by simp only [Merc.fwd, isometric_eq]; rfl
    · simp only [dy]
  · have : HasDerivAt (fun l : ℝ => (l - Scalar.toRadians (Parsed.lon p 0)) * Parsed.k p 0 * el.a + Parsed.x p 0)
        (1 * Parsed.k p 0 * el.a) lon :=
      ((((hasDerivAt_id lon).sub_const _).mul_const _).mul_const _).add_const _
    simpa [Merc.fwd] using this
  · have hW3 : W ^ 3 = W * (1 - es * Real.sin phi ^ 2) := by rw [← hW2]; ring
    have h1e : (1 - es) ≠ 0 := by linarith
    simp only [dy]
    rw [hW3]
    field_simp

/-! ### lcc -/

/-- **the central meridian maps to the line `x = x_0`** (lcc) -/
theorem lcc_central_meridian (k : Lcc.Consts ℝ) (phi : ℝ) (r : ℝ × ℝ) (h : Lcc.fwd k k.lon0 phi = some r) :
    r.1 = k.x0 := by
  unfold Lcc.fwd at h
  simp only [sub_self, zero_mul, scalar_sin, scalar_cos, Real.sin_zero, Real.cos_zero, mul_zero, zero_add, mul_one] at h
  split at h
  · cases h
  · cases h; rfl

/-- **the projection centre maps to the false origin** (lcc), the constant `rho0` being the radius
of the parallel of origin as the constructor computes it for a non-polar origin -/
theorem lcc_centre_to_false_origin (k : Lcc.Consts ℝ) (lat0 : ℝ) (r : ℝ × ℝ)
    (hpole : Scalar.lt (Scalar.abs (Scalar.abs lat0 - (Lcc.fracPi2 : ℝ))) (Lcc.eps10 : ℝ) = false)
    (hrho : k.rho0 = k.c * Scalar.pow (Ancillary.ts (Scalar.sin lat0) (Scalar.cos lat0) k.e) k.n)
    (h : Lcc.fwd k k.lon0 lat0 = some r) : r = (k.x0, k.y0) := by
  unfold Lcc.fwd at h
  simp only [hpole, Bool.false_eq_true, if_false, sub_self, zero_mul, scalar_sin, scalar_cos, Real.sin_zero,
    Real.cos_zero, mul_zero, zero_add, mul_one, Option.some.injEq] at h
  rw [← h, hrho]
  simp

/-- the tolerance with which lcc recognises a pole is positive -/
theorem lcc_eps10_pos : (0 : ℝ) < Lcc.eps10 := by
  simp [Lcc.eps10, OfScientific.ofScientific, Scalar.ofSci, Lit.toReal]

/-- away from the poles (by more than the tolerance) the forward lcc is
`x = a k_0 ρ sin θ + x_0`, `y = a k_0 (ρ_0 − ρ cos θ) + y_0` with `ρ = c·exp(−nψ(φ))`, `θ = n(λ − λ_0)` -/
theorem lcc_fwd_eq (k : Lcc.Consts ℝ) (lam phi : ℝ) (hphi : |phi| + Lcc.eps10 < Real.pi / 2) :
    Lcc.fwd k lam phi =
      some (k.a * k.k0 * (k.c * Real.exp (-(psi k.e phi) * k.n)) * Real.sin ((lam - k.lon0) * k.n) + k.x0,
            k.a * k.k0 * (k.rho0 - k.c * Real.exp (-(psi k.e phi) * k.n) * Real.cos ((lam - k.lon0) * k.n)) + k.y0) := by
  have two : (@OfScientific.ofScientific ℝ Scalar.instOfScientific 20 true 1) = 2 := by
    simp [OfScientific.ofScientific, Scalar.ofSci, Lit.toReal]; norm_num
  have hp := lcc_eps10_pos
  have habs := abs_lt.mp (show |phi| < Real.pi / 2 by linarith)
  have hpole : Scalar.lt (Scalar.abs (Scalar.abs phi - (Lcc.fracPi2 : ℝ))) (Lcc.eps10 : ℝ) = false := by
    simp only [Lcc.fracPi2, two, scalar_pi, scalar_abs, scalar_lt, decide_eq_false_iff_not, not_lt]
    rw [abs_of_neg (by linarith)]
    linarith
  unfold Lcc.fwd
  simp only [hpole, Bool.false_eq_true, if_false]
  rw [rho_eq k.c k.n k.e phi habs.1 habs.2]
  rfl

/-- **lcc is conformal**, for every eccentricity `0 ≤ e < 1`, every cone constant, every parameter set and every
point that is not within the pole tolerance of a pole: the four partial derivatives of the plane
coordinates exist, and the derivative along the meridian, divided by the meridian radius `M`, is
the derivative along the parallel, divided by the radius of the parallel `N cos φ`, turned by a
right angle (the Cauchy–Riemann equations in isometric coordinates: angles and orientation
are preserved, the scale is the same in every direction) -/
theorem lcc_conformal (k : Lcc.Consts ℝ) (lam phi : ℝ) (he0 : 0 ≤ k.e) (he1 : k.e < 1) (ha : k.a ≠ 0)
    (hphi : |phi| + Lcc.eps10 < Real.pi / 2) :
    let F : ℝ → ℝ → ℝ × ℝ := fun l x => (Lcc.fwd k l x).getD (0, 0)
    let W := Real.sqrt (1 - k.e ^ 2 * Real.sin phi ^ 2)
    let M := k.a * (1 - k.e ^ 2) / W ^ 3
    let P := k.a / W * Real.cos phi
    (Lcc.fwd k lam phi).isSome ∧
    ∃ dxl dyl dxp dyp : ℝ,
      HasDerivAt (fun l => (F l phi).1) dxl lam ∧ HasDerivAt (fun l => (F l phi).2) dyl lam ∧
      HasDerivAt (fun x => (F lam x).1) dxp phi ∧ HasDerivAt (fun x => (F lam x).2) dyp phi ∧
      dxp / M = -(dyl / P) ∧ dyp / M = dxl / P := by
  intro F W M P
  have habs := abs_lt.mp (show |phi| < Real.pi / 2 by linarith [lcc_eps10_pos])
  have hc : 0 < Real.cos phi := Real.cos_pos_of_mem_Ioo ⟨habs.1, habs.2⟩
  have hes1 : k.e ^ 2 < 1 := by nlinarith
  have hw : 0 < 1 - k.e ^ 2 * Real.sin phi ^ 2 := by
    nlinarith [Real.sin_sq_le_one phi, sq_nonneg (Real.sin phi), sq_nonneg k.e]
  have hW : 0 < W := Real.sqrt_pos.mpr hw
  have hW2 : W ^ 2 = 1 - k.e ^ 2 * Real.sin phi ^ 2 := Real.sq_sqrt hw.le
  have hW3 : W ^ 3 = W * (1 - k.e ^ 2 * Real.sin phi ^ 2) := by rw [← hW2]; ring
  have hF : ∀ l x, |x| + Lcc.eps10 < Real.pi / 2 → F l x =
      (k.a * k.k0 * (k.c * Real.exp (-(psi k.e x) * k.n)) * Real.sin ((l - k.lon0) * k.n) + k.x0,
       k.a * k.k0 * (k.rho0 - k.c * Real.exp (-(psi k.e x) * k.n) * Real.cos ((l - k.lon0) * k.n)) + k.y0) := by
    intro l x hx
    simp only [F, lcc_fwd_eq k l x hx, Option.getD_some]
  have hnear : ∀ᶠ x in nhds phi, |x| + Lcc.eps10 < Real.pi / 2 :=
    (isOpen_lt (continuous_abs.add continuous_const) continuous_const).mem_nhds hphi
  set rho := k.c * Real.exp (-(psi k.e phi) * k.n) with hrho
  set th := (lam - k.lon0) * k.n with hth
  set dpsi := (1 - k.e ^ 2) / ((1 - k.e ^ 2 * Real.sin phi ^ 2) * Real.cos phi) with hdpsi
  have drho : HasDerivAt (fun x => k.c * Real.exp (-(psi k.e x) * k.n)) (-(k.n * rho * dpsi)) phi :=
    rho_hasDerivAt k.c k.n k.e phi he0 he1 habs.1 habs.2
  have dth : HasDerivAt (fun l : ℝ => (l - k.lon0) * k.n) (1 * k.n) lam :=
    ((hasDerivAt_id lam).sub_const _).mul_const _
  refine ⟨by rw [lcc_fwd_eq k lam phi hphi]; rfl,
    k.a * k.k0 * rho * (Real.cos th * (1 * k.n)), k.a * k.k0 * (-(rho * (-Real.sin th * (1 * k.n)))),
    k.a * k.k0 * (-(k.n * rho * dpsi)) * Real.sin th, k.a * k.k0 * (-(-(k.n * rho * dpsi) * Real.cos th)), ?_, ?_, ?_, ?_, ?_, ?_⟩
  · have := (((Real.hasDerivAt_sin th).comp lam dth).const_mul (k.a * k.k0 * rho)).add_const k.x0
    refine this.congr_of_eventuallyEq (Filter.Eventually.of_forall fun l => ?_)
    simp only [hF l phi hphi]; rfl
  · have := (((((Real.hasDerivAt_cos th).comp lam dth).const_mul rho).const_sub k.rho0).const_mul (k.a * k.k0)).add_const k.y0
    refine this.congr_of_eventuallyEq (Filter.Eventually.of_forall fun l => ?_)
    simp only [hF l phi hphi]; rfl
  · have := (((drho.const_mul (k.a * k.k0)).mul_const (Real.sin th))).add_const k.x0
    refine this.congr_of_eventuallyEq ?_
    filter_upwards [hnear] with x hx
    simp only [hF lam x hx]; rfl
  · have := (((drho.mul_const (Real.cos th)).const_sub k.rho0).const_mul (k.a * k.k0)).add_const k.y0
    refine this.congr_of_eventuallyEq ?_
    filter_upwards [hnear] with x hx
    simp only [hF lam x hx]; rfl
  · have h1e : (1 - k.e ^ 2) ≠ 0 := by linarith
    simp only [M, P, hdpsi]
    rw [hW3]
    field_simp
  · have h1e : (1 - k.e ^ 2) ≠ 0 := by linarith
    simp only [M, P, hdpsi]
    rw [hW3]
    field_simp

/-- the hypothesis of `lcc_conformal` is met, e.g. on the equator -/
example : |(0 : ℝ)| + Lcc.eps10 < Real.pi / 2 := by
  have : (Lcc.eps10 : ℝ) < 1 := by
    simp [Lcc.eps10, OfScientific.ofScientific, Scalar.ofSci, Lit.toReal]; norm_num
  have := Real.pi_gt_three
  rw [abs_zero, zero_add]; linarith

/-! ### tmerc / utm -/

/-- **the central meridian maps to the line `x = x_0`** (tmerc, utm), for every ellipsoid, every
latitude and every parameter set: on the central meridian the imaginary part of the complex
Clenshaw sum vanishes, and no point of it is refused -/
theorem tmerc_central_meridian (q : Tmerc.Pre ℝ) (lat : ℝ) :
    ∃ northing, Tmerc.fwd q q.lon0 lat = some (q.x0, northing) := by
  have z : (@OfNat.ofNat ℝ 0 Scalar.instOfNat) = 0 := by
    show (Scalar.ofNatLit 0 : ℝ) = 0
    simp
  have hlim : ¬ ((0 : ℝ) > Tmerc.limit ∨ (0:ℝ) < -Tmerc.limit) := by
    have : (0 : ℝ) < Tmerc.limit := by
      simp [Tmerc.limit, OfScientific.ofScientific, Scalar.ofSci, Lit.toReal]
    intro h; rcases h with h | h <;> linarith
  unfold Tmerc.fwd
  simp only [sub_self, scalar_sin, scalar_cos, Real.sin_zero, Real.cos_zero, zero_mul, mul_zero, mul_one,
    scalar_asinh, Real.arsinh_zero, TmercLemmas.complexSinTrig_imag_zero, add_zero, scalar_abs, abs_zero]
  have hgt : Scalar.gt (0 : ℝ) (Tmerc.limit : ℝ) = false := by
    have : (0 : ℝ) < Tmerc.limit := by
      simp [Tmerc.limit, OfScientific.ofScientific, Scalar.ofSci, Lit.toReal]
    simp [Scalar.gt, not_lt.mpr this.le]
  simp only [hgt, Bool.false_eq_true, if_false, zero_add]
  exact ⟨_, rfl⟩

end C05
end Geodesy
