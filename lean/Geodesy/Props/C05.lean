/-
C05 — each map projection has the geometry that defines it.

Proved here (real-number reading): the defining lines and points that are algebraic facts of
the formulas — webmerc IS the spherical Mercator of radius a; merc's easting is k_0·a times the
longitude difference (scale k_0 along the equator), the k_0 installed by lat_ts makes the scale
on that parallel exactly one, and the projection centre maps to the false origin; lcc's
projection centre maps to the false origin and its central meridian to the line x = x_0.
**merc is conformal at every point, for every ellipsoid and parameter set** (`merc_conformal`,
through the derivative of the isometric latitude).  Conformality of the series-based
projections, equivalence and the scale on the other defining lines involve derivatives of the series and are decided by the tie to
/repo: finite differences on the implementation, with the model bit-identical on the same
points.
-/
import Geodesy.Props.C13
import Geodesy.Lemmas.Mercator
import Geodesy.Lemmas.Conic
import Geodesy.Lemmas.TmercLemmas
import Geodesy.Lemmas.Authalic
import Geodesy.Lemmas.LaeaSphere
import Mathlib.Analysis.SpecialFunctions.Trigonometric.InverseDeriv
import Mathlib.Analysis.Real.Pi.Bounds

namespace Geodesy
namespace C05
open Text Ops C13 Mercator Conic

/-! ### webmerc -/

/-- **webmerc equals the spherical Mercator of radius a**: `x = a·λ`, `y = a·ln tan(π/4 + φ/2)`,
whatever the flattening of the ellipsoid named -/
theorem webmerc_is_spherical_mercator (p : Parsed ℝ) (lon lat : ℝ) :
    Webmerc.fwd p lon lat = (lon * (p.ellps 0).a, (p.ellps 0).a * Real.log (Real.tan (Real.pi / 4 + lat / 2))) := by
  have two : (@OfScientific.ofScientific ℝ Scalar.instOfScientific 20 true 1) = 2 := by
    simp [OfScientific.ofScientific, Scalar.ofSci, Lit.toReal]; norm_num
  have four : (@OfScientific.ofScientific ℝ Scalar.instOfScientific 40 true 1) = 4 := by
    simp [OfScientific.ofScientific, Scalar.ofSci, Lit.toReal]; norm_num
  simp [Webmerc.fwd, Webmerc.fracPi4, two, four]

/-! ### merc -/

/-- **scale k_0 along the equator (and along every parallel, in the plane)**: eastings differ by
`k_0 · a` times the longitude difference -/
theorem merc_easting_linear (p : Parsed ℝ) (lon1 lon2 lat : ℝ) :
    (Merc.fwd p lon2 lat).1 - (Merc.fwd p lon1 lat).1 = Parsed.k p 0 * (p.ellps 0).a * (lon2 - lon1) := by
  simp only [Merc.fwd]; ring

/-- the scale factor of the Mercator projection on the parallel `φ` is `k_0 · sqrt(1 − e² sin²φ) / cos φ`
(parallel radius `a cos φ / sqrt(1 − e² sin²φ)` against `k_0 · a` per radian of longitude);
**with the `k_0` that `lat_ts` installs it is exactly one on the parallel `lat_ts`** -/
theorem merc_unit_scale_at_lat_ts (es ts : ℝ) (hc : Real.cos ts ≠ 0) (hw : 0 < 1 - es * Real.sin ts * Real.sin ts) :
    (Real.cos ts / Real.sqrt (1 - es * Real.sin ts * Real.sin ts)) *
      (Real.sqrt (1 - es * Real.sin ts * Real.sin ts) / Real.cos ts) = 1 := by
  have hs : Real.sqrt (1 - es * Real.sin ts * Real.sin ts) ≠ 0 := (Real.sqrt_pos.mpr hw).ne'
  generalize Real.sqrt (1 - es * Real.sin ts * Real.sin ts) = w at hs
  field_simp

/-- **the projection centre `(lon_0, lat_0)` maps to the false origin `(x_0, y_0)`** (merc) -/
theorem merc_centre_to_false_origin (p : Parsed ℝ) :
    Merc.fwd p (Scalar.toRadians (Parsed.lon p 0)) (Scalar.toRadians (Parsed.lat p 0)) = (Parsed.x p 0, Parsed.y p 0) := by
  simp [Merc.fwd]

/-- **merc is conformal**, for every ellipsoid with `0 ≤ f < 1`, every parameter set and every point
strictly between the poles: the northing has derivative `a k_0 (1 − e²) / ((1 − e² sin²φ) cos φ)`
with respect to the latitude, the easting `k_0 a` with respect to the longitude; the northing
does not depend on the longitude nor the easting on the latitude (meridians and parallels stay
orthogonal, orientation is kept); and the scale along the meridian, `∂N/∂φ` over the meridian
radius `M = a (1 − e²) / W³`, equals the scale along the parallel, `∂E/∂λ` over the radius of the
parallel `(a / W) cos φ`, where `W = sqrt(1 − e² sin²φ)` -/
theorem merc_conformal (p : Parsed ℝ) (lon phi : ℝ) (hf0 : 0 ≤ (p.ellps 0).f) (hf1 : (p.ellps 0).f < 1)
    (ha : (p.ellps 0).a ≠ 0) (h1 : -(Real.pi / 2) < phi) (h2 : phi < Real.pi / 2) :
    let el := p.ellps 0
    let es := el.eccentricitySquared
    let W := Real.sqrt (1 - es * Real.sin phi ^ 2)
    let dy := el.a * Parsed.k p 0 * ((1 - es) / ((1 - es * Real.sin phi ^ 2) * Real.cos phi))
    HasDerivAt (fun x => (Merc.fwd p lon x).2) dy phi ∧
    HasDerivAt (fun l => (Merc.fwd p l phi).1) (Parsed.k p 0 * el.a) lon ∧
    (∀ l, (Merc.fwd p l phi).2 = (Merc.fwd p lon phi).2) ∧
    (∀ x, (Merc.fwd p lon x).1 = (Merc.fwd p lon phi).1) ∧
    dy / (el.a * (1 - es) / W ^ 3) = (Parsed.k p 0 * el.a) / (el.a / W * Real.cos phi) := by
  intro el es W dy
  have two : (@OfScientific.ofScientific ℝ Scalar.instOfScientific 20 true 1) = 2 := by
    simp [OfScientific.ofScientific, Scalar.ofSci, Lit.toReal]; norm_num
  have hes : es = el.f * (2 - el.f) := by simp [es, Ellipsoid.eccentricitySquared, two]
  have hes0 : 0 ≤ es := by rw [hes]; nlinarith
  have hes1 : es < 1 := by rw [hes]; nlinarith
  have he : el.eccentricity ^ 2 = es := by
    simp only [Ellipsoid.eccentricity, scalar_sqrt]; exact Real.sq_sqrt hes0
  have he0 : 0 ≤ el.eccentricity := by simp only [Ellipsoid.eccentricity, scalar_sqrt]; exact Real.sqrt_nonneg _
  have he1 : el.eccentricity < 1 := by
    have : el.eccentricity ^ 2 < 1 := by rw [he]; exact hes1
    nlinarith [sq_nonneg (el.eccentricity - 1)]
  have hc : 0 < Real.cos phi := Real.cos_pos_of_mem_Ioo ⟨h1, h2⟩
  have hw : 0 < 1 - es * Real.sin phi ^ 2 := by nlinarith [Real.sin_sq_le_one phi, sq_nonneg (Real.sin phi)]
  have hW : 0 < W := Real.sqrt_pos.mpr hw
  have hW2 : W ^ 2 = 1 - es * Real.sin phi ^ 2 := Real.sq_sqrt hw.le
  refine ⟨?_, ?_, fun l => by simp [Merc.fwd], fun x => by simp [Merc.fwd], ?_⟩
  · -- the northing: a k_0 (ψ(x) − ψ_0) + y_0
    have dpsi := isometric_hasDerivAt el.eccentricity phi he0 he1 h1 h2
    rw [he] at dpsi
    have := ((dpsi.sub_const (el.latitudeGeographicToIsometric (Scalar.toRadians (Parsed.lat p 0)))).const_mul
      (el.a * Parsed.k p 0)).add_const (Parsed.y p 0)
    refine this.congr_of_eventuallyEq ?_ |>.congr_deriv ?_
    · exact Filter.Eventually.of_forall fun x => by simp only [Merc.fwd, isometric_eq]; rfl
    · simp only [dy]
  · have : HasDerivAt (fun l : ℝ => (l - Scalar.toRadians (Parsed.lon p 0)) * Parsed.k p 0 * el.a + Parsed.x p 0)
        (1 * Parsed.k p 0 * el.a) lon :=
      ((((hasDerivAt_id lon).sub_const _).mul_const _).mul_const _).add_const _
    simpa [Merc.fwd] using this
  · have hW3 : W ^ 3 = W * (1 - es * Real.sin phi ^ 2) := by rw [← hW2]; ring
    have h1e : (1 - es) ≠ 0 := by linarith
    simp only [dy]
    rw [hW3]
    field_simp

/-! ### lcc -/

/-- **the central meridian maps to the line `x = x_0`** (lcc) -/
theorem lcc_central_meridian (k : Lcc.Consts ℝ) (phi : ℝ) (r : ℝ × ℝ) (h : Lcc.fwd k k.lon0 phi = some r) :
    r.1 = k.x0 := by
  unfold Lcc.fwd at h
  simp only [sub_self, zero_mul, scalar_sin, scalar_cos, Real.sin_zero, Real.cos_zero, mul_zero, zero_add, mul_one] at h
  split at h
  · cases h
  · cases h; rfl

/-- **the projection centre maps to the false origin** (lcc), the constant `rho0` being the radius
of the parallel of origin as the constructor computes it for a non-polar origin -/
theorem lcc_centre_to_false_origin (k : Lcc.Consts ℝ) (lat0 : ℝ) (r : ℝ × ℝ)
    (hpole : Scalar.lt (Scalar.abs (Scalar.abs lat0 - (Lcc.fracPi2 : ℝ))) (Lcc.eps10 : ℝ) = false)
    (hrho : k.rho0 = k.c * Scalar.pow (Ancillary.ts (Scalar.sin lat0) (Scalar.cos lat0) k.e) k.n)
    (h : Lcc.fwd k k.lon0 lat0 = some r) : r = (k.x0, k.y0) := by
  unfold Lcc.fwd at h
  simp only [hpole, Bool.false_eq_true, if_false, sub_self, zero_mul, scalar_sin, scalar_cos, Real.sin_zero,
    Real.cos_zero, mul_zero, zero_add, mul_one, Option.some.injEq] at h
  rw [← h, hrho]
  simp

/-- the tolerance with which lcc recognises a pole is positive -/
theorem lcc_eps10_pos : (0 : ℝ) < Lcc.eps10 := by
  simp [Lcc.eps10, OfScientific.ofScientific, Scalar.ofSci, Lit.toReal]

/-- away from the poles (by more than the tolerance) the forward lcc is
`x = a k_0 ρ sin θ + x_0`, `y = a k_0 (ρ_0 − ρ cos θ) + y_0` with `ρ = c·exp(−nψ(φ))`, `θ = n(λ − λ_0)` -/
theorem lcc_fwd_eq (k : Lcc.Consts ℝ) (lam phi : ℝ) (hphi : |phi| + Lcc.eps10 < Real.pi / 2) :
    Lcc.fwd k lam phi =
      some (k.a * k.k0 * (k.c * Real.exp (-(psi k.e phi) * k.n)) * Real.sin ((lam - k.lon0) * k.n) + k.x0,
            k.a * k.k0 * (k.rho0 - k.c * Real.exp (-(psi k.e phi) * k.n) * Real.cos ((lam - k.lon0) * k.n)) + k.y0) := by
  have two : (@OfScientific.ofScientific ℝ Scalar.instOfScientific 20 true 1) = 2 := by
    simp [OfScientific.ofScientific, Scalar.ofSci, Lit.toReal]; norm_num
  have hp := lcc_eps10_pos
  have habs := abs_lt.mp (show |phi| < Real.pi / 2 by linarith)
  have hpole : Scalar.lt (Scalar.abs (Scalar.abs phi - (Lcc.fracPi2 : ℝ))) (Lcc.eps10 : ℝ) = false := by
    simp only [Lcc.fracPi2, two, scalar_pi, scalar_abs, scalar_lt, decide_eq_false_iff_not, not_lt]
    rw [abs_of_neg (by linarith)]
    linarith
  unfold Lcc.fwd
  simp only [hpole, Bool.false_eq_true, if_false]
  rw [rho_eq k.c k.n k.e phi habs.1 habs.2]
  rfl

/-- **lcc is conformal**, for every eccentricity `0 ≤ e < 1`, every cone constant, every parameter set and every
point that is not within the pole tolerance of a pole: the four partial derivatives of the plane
coordinates exist, and the derivative along the meridian, divided by the meridian radius `M`, is
the derivative along the parallel, divided by the radius of the parallel `N cos φ`, turned by a
right angle (the Cauchy–Riemann equations in isometric coordinates: angles and orientation
are preserved, the scale is the same in every direction) -/
theorem lcc_conformal (k : Lcc.Consts ℝ) (lam phi : ℝ) (he0 : 0 ≤ k.e) (he1 : k.e < 1) (ha : k.a ≠ 0)
    (hphi : |phi| + Lcc.eps10 < Real.pi / 2) :
    let F : ℝ → ℝ → ℝ × ℝ := fun l x => (Lcc.fwd k l x).getD (0, 0)
    let W := Real.sqrt (1 - k.e ^ 2 * Real.sin phi ^ 2)
    let M := k.a * (1 - k.e ^ 2) / W ^ 3
    let P := k.a / W * Real.cos phi
    (Lcc.fwd k lam phi).isSome ∧
    ∃ dxl dyl dxp dyp : ℝ,
      HasDerivAt (fun l => (F l phi).1) dxl lam ∧ HasDerivAt (fun l => (F l phi).2) dyl lam ∧
      HasDerivAt (fun x => (F lam x).1) dxp phi ∧ HasDerivAt (fun x => (F lam x).2) dyp phi ∧
      dxp / M = -(dyl / P) ∧ dyp / M = dxl / P := by
  intro F W M P
  have habs := abs_lt.mp (show |phi| < Real.pi / 2 by linarith [lcc_eps10_pos])
  have hc : 0 < Real.cos phi := Real.cos_pos_of_mem_Ioo ⟨habs.1, habs.2⟩
  have hes1 : k.e ^ 2 < 1 := by nlinarith
  have hw : 0 < 1 - k.e ^ 2 * Real.sin phi ^ 2 := by
    nlinarith [Real.sin_sq_le_one phi, sq_nonneg (Real.sin phi), sq_nonneg k.e]
  have hW : 0 < W := Real.sqrt_pos.mpr hw
  have hW2 : W ^ 2 = 1 - k.e ^ 2 * Real.sin phi ^ 2 := Real.sq_sqrt hw.le
  have hW3 : W ^ 3 = W * (1 - k.e ^ 2 * Real.sin phi ^ 2) := by rw [← hW2]; ring
  have hF : ∀ l x, |x| + Lcc.eps10 < Real.pi / 2 → F l x =
      (k.a * k.k0 * (k.c * Real.exp (-(psi k.e x) * k.n)) * Real.sin ((l - k.lon0) * k.n) + k.x0,
       k.a * k.k0 * (k.rho0 - k.c * Real.exp (-(psi k.e x) * k.n) * Real.cos ((l - k.lon0) * k.n)) + k.y0) := by
    intro l x hx
    simp only [F, lcc_fwd_eq k l x hx, Option.getD_some]
  have hnear : ∀ᶠ x in nhds phi, |x| + Lcc.eps10 < Real.pi / 2 :=
    (isOpen_lt (continuous_abs.add continuous_const) continuous_const).mem_nhds hphi
  set rho := k.c * Real.exp (-(psi k.e phi) * k.n) with hrho
  set th := (lam - k.lon0) * k.n with hth
  set dpsi := (1 - k.e ^ 2) / ((1 - k.e ^ 2 * Real.sin phi ^ 2) * Real.cos phi) with hdpsi
  have drho : HasDerivAt (fun x => k.c * Real.exp (-(psi k.e x) * k.n)) (-(k.n * rho * dpsi)) phi :=
    rho_hasDerivAt k.c k.n k.e phi he0 he1 habs.1 habs.2
  have dth : HasDerivAt (fun l : ℝ => (l - k.lon0) * k.n) (1 * k.n) lam :=
    ((hasDerivAt_id lam).sub_const _).mul_const _
  refine ⟨by rw [lcc_fwd_eq k lam phi hphi]; rfl,
    k.a * k.k0 * rho * (Real.cos th * (1 * k.n)), k.a * k.k0 * (-(rho * (-Real.sin th * (1 * k.n)))),
    k.a * k.k0 * (-(k.n * rho * dpsi)) * Real.sin th, k.a * k.k0 * (-(-(k.n * rho * dpsi) * Real.cos th)), ?_, ?_, ?_, ?_, ?_, ?_⟩
  · have := (((Real.hasDerivAt_sin th).comp lam dth).const_mul (k.a * k.k0 * rho)).add_const k.x0
    refine this.congr_of_eventuallyEq (Filter.Eventually.of_forall fun l => ?_)
    simp only [hF l phi hphi]; rfl
  · have := (((((Real.hasDerivAt_cos th).comp lam dth).const_mul rho).const_sub k.rho0).const_mul (k.a * k.k0)).add_const k.y0
    refine this.congr_of_eventuallyEq (Filter.Eventually.of_forall fun l => ?_)
    simp only [hF l phi hphi]; rfl
  · have := (((drho.const_mul (k.a * k.k0)).mul_const (Real.sin th))).add_const k.x0
    refine this.congr_of_eventuallyEq ?_
    filter_upwards [hnear] with x hx
    simp only [hF lam x hx]; rfl
  · have := (((drho.mul_const (Real.cos th)).const_sub k.rho0).const_mul (k.a * k.k0)).add_const k.y0
    refine this.congr_of_eventuallyEq ?_
    filter_upwards [hnear] with x hx
    simp only [hF lam x hx]; rfl
  · have h1e : (1 - k.e ^ 2) ≠ 0 := by linarith
    simp only [M, P, hdpsi]
    rw [hW3]
    field_simp
  · have h1e : (1 - k.e ^ 2) ≠ 0 := by linarith
    simp only [M, P, hdpsi]
    rw [hW3]
    field_simp

/-- the hypothesis of `lcc_conformal` is met, e.g. on the equator -/
example : |(0 : ℝ)| + Lcc.eps10 < Real.pi / 2 := by
  have : (Lcc.eps10 : ℝ) < 1 := by
    simp [Lcc.eps10, OfScientific.ofScientific, Scalar.ofSci, Lit.toReal]; norm_num
  have := Real.pi_gt_three
  rw [abs_zero, zero_add]; linarith

/-! ### tmerc / utm -/

/-- **the central meridian maps to the line `x = x_0`** (tmerc, utm), for every ellipsoid, every
latitude and every parameter set: on the central meridian the imaginary part of the complex
Clenshaw sum vanishes, and no point of it is refused -/
theorem tmerc_central_meridian (q : Tmerc.Pre ℝ) (lat : ℝ) :
    ∃ northing, Tmerc.fwd q q.lon0 lat = some (q.x0, northing) := by
  have z : (@OfNat.ofNat ℝ 0 Scalar.instOfNat) = 0 := by
    show (Scalar.ofNatLit 0 : ℝ) = 0
    simp
  have hlim : ¬ ((0 : ℝ) > Tmerc.limit ∨ (0:ℝ) < -Tmerc.limit) := by
    have : (0 : ℝ) < Tmerc.limit := by
      simp [Tmerc.limit, OfScientific.ofScientific, Scalar.ofSci, Lit.toReal]
    intro h; rcases h with h | h <;> linarith
  unfold Tmerc.fwd
  simp only [sub_self, scalar_sin, scalar_cos, Real.sin_zero, Real.cos_zero, zero_mul, mul_zero, mul_one,
    scalar_asinh, Real.arsinh_zero, TmercLemmas.complexSinTrig_imag_zero, add_zero, scalar_abs, abs_zero]
  have hgt : Scalar.gt (0 : ℝ) (Tmerc.limit : ℝ) = false := by
    have : (0 : ℝ) < Tmerc.limit := by
      simp [Tmerc.limit, OfScientific.ofScientific, Scalar.ofSci, Lit.toReal]
    simp [Scalar.gt, not_lt.mpr this.le]
  simp only [hgt, Bool.false_eq_true, if_false, zero_add]
  exact ⟨_, rfl⟩

/-! ### lcc: true scale on the standard parallels -/

/-- the scale of lcc along the parallel of latitude φ is `k_0 · ρ(φ) · n / m(φ)` (`lcc_conformal`:
`|∂(x, y)/∂λ| = a k_0 ρ n` against the radius of the parallel `a·m(φ)`, `m = cos φ / W`).  **With
the constant `c = m_1 · ts_1⁻ⁿ / n` the constructor computes, it is exactly `k_0` on the standard
parallel**, whatever the cone constant -/
theorem lcc_scale_on_standard_parallel (k0 n m1 t1 : ℝ) (ht : 0 < t1) (hn : n ≠ 0) (hm : m1 ≠ 0) :
    k0 * ((m1 * t1 ^ (-n) / n) * t1 ^ n) * n / m1 = k0 := by
  have h : t1 ^ (-n) * t1 ^ n = 1 := by
    rw [← Real.rpow_add ht]; simp
  have : m1 * t1 ^ (-n) / n * t1 ^ n = m1 / n := by
    rw [div_mul_eq_mul_div, mul_assoc, h, mul_one]
  rw [this]
  field_simp

/-- **two standard parallels**: with the cone constant `n = ln(m_1/m_2) / ln(ts_1/ts_2)` the
constructor computes, `m_1 · ts_1⁻ⁿ = m_2 · ts_2⁻ⁿ`: the constant `c`, hence the scale `k_0`, is the
same on both parallels -/
theorem lcc_second_parallel (m1 m2 t1 t2 : ℝ) (hm1 : 0 < m1) (hm2 : 0 < m2) (ht1 : 0 < t1) (ht2 : 0 < t2)
    (hlog : Real.log (t1 / t2) ≠ 0) :
    let n := Real.log (m1 / m2) / Real.log (t1 / t2)
    m1 * t1 ^ (-n) = m2 * t2 ^ (-n) := by
  intro n
  have hq : (t1 / t2) ^ n = m1 / m2 := by
    rw [Real.rpow_def_of_pos (div_pos ht1 ht2)]
    have : Real.log (t1 / t2) * n = Real.log (m1 / m2) := by
      simp only [n]; field_simp
    rw [this, Real.exp_log (div_pos hm1 hm2)]
  have hdiv : t1 ^ n / t2 ^ n = m1 / m2 := by rw [← Real.div_rpow ht1.le ht2.le]; exact hq
  have h1 : 0 < t1 ^ n := Real.rpow_pos_of_pos ht1 n
  have h2 : 0 < t2 ^ n := Real.rpow_pos_of_pos ht2 n
  rw [Real.rpow_neg ht1.le, Real.rpow_neg ht2.le]
  field_simp
  have := (div_eq_div_iff h2.ne' hm2.ne').mp hdiv
  linarith

/-! ### laea: areas are preserved (polar aspects) -/

/-- the forward polar aspect, spelled out: `x = x_0 + ρ sin(λ − λ_0)`, `y = y_0 ± ρ cos(λ − λ_0)` with
`ρ = a·sqrt(q_p − q(∓sin φ))` (away from the pole, where the radicand is positive) -/
theorem laea_polar_fwd_eq (p : Parsed ℝ) (s : Laea.Stored ℝ) (lon phi : ℝ)
    (hpolar : (p.flagSet (S "north_polar") || p.flagSet (S "south_polar")) = true)
    (hd : 0 < s.qp - Ancillary.qs (-(if p.flagSet (S "north_polar") then (-1 : ℝ) else 1) * Real.sin phi) (p.ellps 0).eccentricity) :
    Laea.fwd p s lon phi =
      ((p.real? (S "x_0")).getD 0 + (p.ellps 0).a * Real.sqrt (s.qp - Ancillary.qs (-(if p.flagSet (S "north_polar") then (-1 : ℝ) else 1) * Real.sin phi) (p.ellps 0).eccentricity)
          * Real.sin (lon - Scalar.toRadians ((p.real? (S "lon_0")).getD 0)),
       (p.real? (S "y_0")).getD 0 + (if p.flagSet (S "north_polar") then (-1 : ℝ) else 1) * ((p.ellps 0).a * Real.sqrt (s.qp - Ancillary.qs (-(if p.flagSet (S "north_polar") then (-1 : ℝ) else 1) * Real.sin phi) (p.ellps 0).eccentricity))
          * Real.cos (lon - Scalar.toRadians ((p.real? (S "lon_0")).getD 0))) := by
  have one : (@OfScientific.ofScientific ℝ Scalar.instOfScientific 10 true 1) = 1 := by
    simp [OfScientific.ofScientific, Scalar.ofSci, Lit.toReal]
  have zero : (@OfScientific.ofScientific ℝ Scalar.instOfScientific 0 true 1) = 0 := by
    simp [OfScientific.ofScientific, Scalar.ofSci, Lit.toReal]
  unfold Laea.fwd
  simp only [hpolar, if_true, one, zero, scalar_sin, scalar_cos, scalar_sqrt, scalar_lt]
  have hsg : (if p.flagSet (S "north_polar") = true then -(1 : ℝ) else 1) = (if p.flagSet (S "north_polar") then (-1 : ℝ) else 1) := by
    split <;> rfl
  rw [hsg]
  have hnl : ¬ (s.qp - Ancillary.qs (-(if p.flagSet (S "north_polar") then (-1 : ℝ) else 1) * Real.sin phi) (p.ellps 0).eccentricity < 0) := not_lt.mpr hd.le
  simp only [hnl, decide_false, Bool.false_eq_true, if_false]

/-- **laea preserves areas (polar aspects)**: for every ellipsoid proper (`1e-7 ≤ e < 1`), either
pole as centre, every false origin and every point inside the disc other than the pole of the
aspect, the four partial derivatives of the forward projection exist and the Jacobian
determinant is `M · N · cos φ = a²(1 − e²) cos φ / (1 − e² sin²φ)²` — the area element of the
ellipsoid, so areas (and orientation) are preserved -/
theorem laea_polar_equal_area (p : Parsed ℝ) (s : Laea.Stored ℝ) (lon phi : ℝ)
    (hpolar : (p.flagSet (S "north_polar") || p.flagSet (S "south_polar")) = true)
    (he7 : ¬ (p.ellps 0).eccentricity < 1e-7) (he1 : (p.ellps 0).eccentricity < 1)
    (hd : 0 < s.qp - Ancillary.qs (-(if p.flagSet (S "north_polar") then (-1 : ℝ) else 1) * Real.sin phi) (p.ellps 0).eccentricity) :
    let e := (p.ellps 0).eccentricity
    let a := (p.ellps 0).a
    ∃ dxl dyl dxp dyp : ℝ,
      HasDerivAt (fun l => (Laea.fwd p s l phi).1) dxl lon ∧ HasDerivAt (fun l => (Laea.fwd p s l phi).2) dyl lon ∧
      HasDerivAt (fun x => (Laea.fwd p s lon x).1) dxp phi ∧ HasDerivAt (fun x => (Laea.fwd p s lon x).2) dyp phi ∧
      dxl * dyp - dxp * dyl = a ^ 2 * (1 - e ^ 2) * Real.cos phi / (1 - e ^ 2 * Real.sin phi ^ 2) ^ 2 := by
  intro e a
  set sg : ℝ := if p.flagSet (S "north_polar") then (-1 : ℝ) else 1 with hsg
  have hsg2 : sg * sg = 1 := by rw [hsg]; split <;> norm_num
  have he0 : 0 < e := by
    have : (1e-7 : ℝ) ≤ e := not_lt.mp he7
    have : (0 : ℝ) < 1e-7 := by norm_num
    linarith
  set x0 := (p.real? (S "x_0")).getD (0 : ℝ)
  set y0 := (p.real? (S "y_0")).getD (0 : ℝ)
  set l0 : ℝ := Scalar.toRadians ((p.real? (S "lon_0")).getD (0 : ℝ))
  -- the radicand as a function of the latitude
  let Q : ℝ → ℝ := fun u => (1 - e * e) * (u / (1 - e * u * (e * u)) - 0.5 / e * Real.log ((1 - e * u) / (1 + e * u)))
  let D : ℝ → ℝ := fun x => s.qp - Q (-sg * Real.sin x)
  have hqs : ∀ u, Ancillary.qs u e = Q u := fun u => Authalic.qs_eq u e he7
  have hD : ∀ x, s.qp - Ancillary.qs (-sg * Real.sin x) e = D x := fun x => by simp only [D, hqs]
  have hdpos : 0 < D phi := by rw [← hD]; exact hd
  have hbound : |e * (-sg * Real.sin phi)| < 1 := by
    rw [abs_mul, abs_mul, abs_neg, abs_of_pos he0]
    have h1 : |sg| = 1 := by rw [hsg]; split <;> simp
    rw [h1, one_mul]
    calc e * |Real.sin phi| ≤ e * 1 := mul_le_mul_of_nonneg_left (Real.abs_sin_le_one phi) he0.le
      _ < 1 := by linarith
  have dQ := Authalic.q_hasDerivAt e (-sg * Real.sin phi) he0 hbound
  have du : HasDerivAt (fun x => -sg * Real.sin x) (-sg * Real.cos phi) phi := (Real.hasDerivAt_sin phi).const_mul (-sg)
  have dQu : HasDerivAt (Q ∘ fun x => -sg * Real.sin x)
      (2 * (1 - e * e) / (1 - e * (-sg * Real.sin phi) * (e * (-sg * Real.sin phi))) ^ 2 * (-sg * Real.cos phi)) phi :=
    HasDerivAt.comp phi (dQ : HasDerivAt Q _ _) du
  have dD : HasDerivAt D (-(2 * (1 - e * e) / (1 - e * (-sg * Real.sin phi) * (e * (-sg * Real.sin phi))) ^ 2 * (-sg * Real.cos phi))) phi :=
    dQu.const_sub s.qp
  have dR : HasDerivAt (fun x => a * Real.sqrt (D x)) (a * (-(2 * (1 - e * e) / (1 - e * (-sg * Real.sin phi) * (e * (-sg * Real.sin phi))) ^ 2 * (-sg * Real.cos phi)) / (2 * Real.sqrt (D phi)))) phi :=
    (dD.sqrt hdpos.ne').const_mul a
  have hnear : ∀ᶠ x in nhds phi, 0 < D x := dD.continuousAt.eventually (lt_mem_nhds hdpos)
  have hF : ∀ l x, 0 < D x → Laea.fwd p s l x = (x0 + a * Real.sqrt (D x) * Real.sin (l - l0), y0 + sg * (a * Real.sqrt (D x)) * Real.cos (l - l0)) := by
    intro l x hx
    rw [laea_polar_fwd_eq p s l x hpolar (by rw [hD]; exact hx)]
    rw [show s.qp - Ancillary.qs (-sg * Real.sin x) (p.ellps 0).eccentricity = D x from hD x]
  set rho := a * Real.sqrt (D phi) with hrho
  set drho := a * (-(2 * (1 - e * e) / (1 - e * (-sg * Real.sin phi) * (e * (-sg * Real.sin phi))) ^ 2 * (-sg * Real.cos phi)) / (2 * Real.sqrt (D phi))) with hdrho
  have dth : HasDerivAt (fun l : ℝ => l - l0) 1 lon := (hasDerivAt_id lon).sub_const l0
  refine ⟨rho * (Real.cos (lon - l0) * 1), sg * rho * (-Real.sin (lon - l0) * 1), drho * Real.sin (lon - l0), sg * drho * Real.cos (lon - l0), ?_, ?_, ?_, ?_, ?_⟩
  · have := (((Real.hasDerivAt_sin (lon - l0)).comp lon dth).const_mul rho).const_add x0
    refine this.congr_of_eventuallyEq (Filter.Eventually.of_forall fun l => ?_)
    simp only [hF l phi hdpos]; rfl
  · have := (((Real.hasDerivAt_cos (lon - l0)).comp lon dth).const_mul (sg * rho)).const_add y0
    refine this.congr_of_eventuallyEq (Filter.Eventually.of_forall fun l => ?_)
    simp only [hF l phi hdpos]; rfl
  · have := (dR.mul_const (Real.sin (lon - l0))).const_add x0
    refine this.congr_of_eventuallyEq ?_
    filter_upwards [hnear] with x hx
    simp only [hF lon x hx]
  · have := ((dR.const_mul sg).mul_const (Real.cos (lon - l0))).const_add y0
    refine this.congr_of_eventuallyEq ?_
    filter_upwards [hnear] with x hx
    simp only [hF lon x hx]
  · have hsq : Real.sqrt (D phi) ≠ 0 := (Real.sqrt_pos.mpr hdpos).ne'
    have hw : (1 - e ^ 2 * Real.sin phi ^ 2) ≠ 0 := by
      have : e ^ 2 * Real.sin phi ^ 2 < 1 := by
        have h1 : Real.sin phi ^ 2 ≤ 1 := Real.sin_sq_le_one phi
        have h2 : e ^ 2 < 1 := by nlinarith
        nlinarith [sq_nonneg (Real.sin phi), sq_nonneg e]
      linarith
    have hden : 1 - e * (-sg * Real.sin phi) * (e * (-sg * Real.sin phi)) = 1 - e ^ 2 * Real.sin phi ^ 2 := by
      have : e * (-sg * Real.sin phi) * (e * (-sg * Real.sin phi)) = (sg * sg) * (e ^ 2 * Real.sin phi ^ 2) := by ring
      rw [this, hsg2, one_mul]
    have hcs := Real.sin_sq_add_cos_sq (lon - l0)
    have h1 : rho * (Real.cos (lon - l0) * 1) * (sg * drho * Real.cos (lon - l0)) - drho * Real.sin (lon - l0) * (sg * rho * (-Real.sin (lon - l0) * 1))
        = sg * (rho * drho) := by
      have : rho * (Real.cos (lon - l0) * 1) * (sg * drho * Real.cos (lon - l0)) - drho * Real.sin (lon - l0) * (sg * rho * (-Real.sin (lon - l0) * 1))
          = sg * (rho * drho) * (Real.sin (lon - l0) ^ 2 + Real.cos (lon - l0) ^ 2) := by ring
      rw [this, hcs, mul_one]
    have h2 : rho * drho = a ^ 2 * (1 - e ^ 2) * (sg * Real.cos phi) / (1 - e ^ 2 * Real.sin phi ^ 2) ^ 2 := by
      rw [hrho, hdrho, hden]
      field_simp
    rw [h1, h2]
    have : sg * (a ^ 2 * (1 - e ^ 2) * (sg * Real.cos phi) / (1 - e ^ 2 * Real.sin phi ^ 2) ^ 2)
        = (sg * sg) * (a ^ 2 * (1 - e ^ 2) * Real.cos phi / (1 - e ^ 2 * Real.sin phi ^ 2) ^ 2) := by ring
    rw [this, hsg2, one_mul]

/-- the forward oblique / equatorial aspect, spelled out through the authalic latitude
`ξ = asin(q(sin φ)/q_p)` and the spherical projection of `Lemmas/LaeaSphere.lean` -/
theorem laea_oblique_fwd_eq (p : Parsed ℝ) (s : Laea.Stored ℝ) (lon phi : ℝ)
    (hnp : (p.flagSet (S "north_polar") || p.flagSet (S "south_polar")) = false) :
    let xi := Real.arcsin (Ancillary.qs (Real.sin phi) (p.ellps 0).eccentricity / s.qp)
    let D := lon - Scalar.toRadians ((p.real? (S "lon_0")).getD 0)
    Laea.fwd p s lon phi =
      ((p.real? (S "x_0")).getD 0 + s.rq * s.d * (LaeaSphere.kf (Real.sin s.xi0) (Real.cos s.xi0) D xi * LaeaSphere.uf D xi),
       (p.real? (S "y_0")).getD 0 + s.rq / s.d * (LaeaSphere.kf (Real.sin s.xi0) (Real.cos s.xi0) D xi * LaeaSphere.vf (Real.sin s.xi0) (Real.cos s.xi0) D xi)) := by
  intro xi D
  have one : (@OfScientific.ofScientific ℝ Scalar.instOfScientific 10 true 1) = 1 := by
    simp [OfScientific.ofScientific, Scalar.ofSci, Lit.toReal]
  have two : (@OfScientific.ofScientific ℝ Scalar.instOfScientific 20 true 1) = 2 := by
    simp [OfScientific.ofScientific, Scalar.ofSci, Lit.toReal]; norm_num
  have zero : (@OfScientific.ofScientific ℝ Scalar.instOfScientific 0 true 1) = 0 := by
    simp [OfScientific.ofScientific, Scalar.ofSci, Lit.toReal]
  unfold Laea.fwd
  simp only [hnp, Bool.false_eq_true, if_false, one, two, zero, scalar_sin, scalar_cos, scalar_sqrt, scalar_asin,
    LaeaSphere.kf, LaeaSphere.uf, LaeaSphere.vf, LaeaSphere.Cf]
  refine Prod.ext ?_ ?_ <;> simp only [xi, D] <;> ring

/-- **laea preserves areas (oblique and equatorial aspects)**: for every ellipsoid proper, every
centre that is not a pole, every false origin and every point that is neither a pole nor the
antipode of the centre, the Jacobian determinant of the forward projection is
`M · N · cos φ = a²(1 − e²) cos φ / (1 − e² sin²φ)²`.  Hypotheses on the stored constants are those
the constructor establishes: `R_q² = a² q_p / 2`, `q_p ≠ 0`, `D ≠ 0` -/
theorem laea_oblique_equal_area (p : Parsed ℝ) (s : Laea.Stored ℝ) (lon phi : ℝ)
    (hnp : (p.flagSet (S "north_polar") || p.flagSet (S "south_polar")) = false)
    (he7 : ¬ (p.ellps 0).eccentricity < 1e-7) (he1 : (p.ellps 0).eccentricity < 1)
    (hqp : s.qp ≠ 0) (hd : s.d ≠ 0) (hrq : s.rq ^ 2 = (p.ellps 0).a ^ 2 * s.qp / 2)
    (hw : |Ancillary.qs (Real.sin phi) (p.ellps 0).eccentricity / s.qp| < 1)
    (hC : 0 < LaeaSphere.Cf (Real.sin s.xi0) (Real.cos s.xi0) (lon - Scalar.toRadians ((p.real? (S "lon_0")).getD 0))
      (Real.arcsin (Ancillary.qs (Real.sin phi) (p.ellps 0).eccentricity / s.qp))) :
    let e := (p.ellps 0).eccentricity
    let a := (p.ellps 0).a
    ∃ dxl dyl dxp dyp : ℝ,
      HasDerivAt (fun l => (Laea.fwd p s l phi).1) dxl lon ∧ HasDerivAt (fun l => (Laea.fwd p s l phi).2) dyl lon ∧
      HasDerivAt (fun x => (Laea.fwd p s lon x).1) dxp phi ∧ HasDerivAt (fun x => (Laea.fwd p s lon x).2) dyp phi ∧
      dxl * dyp - dxp * dyl = a ^ 2 * (1 - e ^ 2) * Real.cos phi / (1 - e ^ 2 * Real.sin phi ^ 2) ^ 2 := by
  intro e a
  have he0 : 0 < e := by
    have : (1e-7 : ℝ) ≤ e := not_lt.mp he7
    have : (0 : ℝ) < 1e-7 := by norm_num
    linarith
  set s0 := Real.sin s.xi0
  set c0 := Real.cos s.xi0
  have h0 : s0 ^ 2 + c0 ^ 2 = 1 := Real.sin_sq_add_cos_sq s.xi0
  set x0 := (p.real? (S "x_0")).getD (0 : ℝ)
  set y0 := (p.real? (S "y_0")).getD (0 : ℝ)
  set l0 : ℝ := Scalar.toRadians ((p.real? (S "lon_0")).getD (0 : ℝ))
  let Q : ℝ → ℝ := fun u => (1 - e * e) * (u / (1 - e * u * (e * u)) - 0.5 / e * Real.log ((1 - e * u) / (1 + e * u)))
  have hqs : ∀ u, Ancillary.qs u e = Q u := fun u => Authalic.qs_eq u e he7
  let W : ℝ → ℝ := fun x => Q (Real.sin x) / s.qp
  let Xi : ℝ → ℝ := fun x => Real.arcsin (W x)
  have hXi : ∀ x, Real.arcsin (Ancillary.qs (Real.sin x) (p.ellps 0).eccentricity / s.qp) = Xi x := fun x => by
    simp only [Xi, W]; rw [← hqs]
  have hF : ∀ l x, Laea.fwd p s l x =
      (x0 + s.rq * s.d * (LaeaSphere.kf s0 c0 (l - l0) (Xi x) * LaeaSphere.uf (l - l0) (Xi x)),
       y0 + s.rq / s.d * (LaeaSphere.kf s0 c0 (l - l0) (Xi x) * LaeaSphere.vf s0 c0 (l - l0) (Xi x))) := by
    intro l x
    have := laea_oblique_fwd_eq p s l x hnp
    simp only [hXi] at this
    exact this
  -- the authalic latitude and its derivative
  have hbound : |e * Real.sin phi| < 1 := by
    rw [abs_mul, abs_of_pos he0]
    calc e * |Real.sin phi| ≤ e * 1 := mul_le_mul_of_nonneg_left (Real.abs_sin_le_one phi) he0.le
      _ < 1 := by linarith
  have dQ := Authalic.q_hasDerivAt e (Real.sin phi) he0 hbound
  have dQs : HasDerivAt (Q ∘ Real.sin) (2 * (1 - e * e) / (1 - e * Real.sin phi * (e * Real.sin phi)) ^ 2 * Real.cos phi) phi :=
    HasDerivAt.comp phi (dQ : HasDerivAt Q _ _) (Real.hasDerivAt_sin phi)
  have dW : HasDerivAt W (2 * (1 - e * e) / (1 - e * Real.sin phi * (e * Real.sin phi)) ^ 2 * Real.cos phi / s.qp) phi :=
    dQs.div_const s.qp
  have hWphi : W phi = Ancillary.qs (Real.sin phi) (p.ellps 0).eccentricity / s.qp := by simp only [W]; rw [← hqs]
  have hwlt := abs_lt.mp (by rw [← hWphi] at hw; exact hw : |W phi| < 1)
  have dXi : HasDerivAt Xi (1 / Real.sqrt (1 - W phi ^ 2) * (2 * (1 - e * e) / (1 - e * Real.sin phi * (e * Real.sin phi)) ^ 2 * Real.cos phi / s.qp)) phi :=
    (Real.hasDerivAt_arcsin (by linarith [hwlt.1]) (by linarith [hwlt.2])).comp phi dW
  have hCpos : 0 < LaeaSphere.Cf s0 c0 (lon - l0) (Xi phi) := by rw [← hXi]; exact hC
  obtain ⟨XL, XX, YL, YX, hXL, hXX, hYL, hYX, hdet⟩ := LaeaSphere.jacobian s0 c0 (lon - l0) (Xi phi) h0 hCpos
  have dth : HasDerivAt (fun l : ℝ => l - l0) 1 lon := (hasDerivAt_id lon).sub_const l0
  set xip := 1 / Real.sqrt (1 - W phi ^ 2) * (2 * (1 - e * e) / (1 - e * Real.sin phi * (e * Real.sin phi)) ^ 2 * Real.cos phi / s.qp) with hxip
  refine ⟨s.rq * s.d * (XL * 1), s.rq / s.d * (YL * 1), s.rq * s.d * (XX * xip), s.rq / s.d * (YX * xip), ?_, ?_, ?_, ?_, ?_⟩
  · have := ((HasDerivAt.comp lon hXL dth).const_mul (s.rq * s.d)).const_add x0
    refine this.congr_of_eventuallyEq (Filter.Eventually.of_forall fun l => ?_)
    simp only [hF l phi]; rfl
  · have := ((HasDerivAt.comp lon hYL dth).const_mul (s.rq / s.d)).const_add y0
    refine this.congr_of_eventuallyEq (Filter.Eventually.of_forall fun l => ?_)
    simp only [hF l phi]; rfl
  · have := ((HasDerivAt.comp phi hXX dXi).const_mul (s.rq * s.d)).const_add x0
    refine this.congr_of_eventuallyEq (Filter.Eventually.of_forall fun x => ?_)
    simp only [hF lon x]; rfl
  · have := ((HasDerivAt.comp phi hYX dXi).const_mul (s.rq / s.d)).const_add y0
    refine this.congr_of_eventuallyEq (Filter.Eventually.of_forall fun x => ?_)
    simp only [hF lon x]; rfl
  · have hcosXi : Real.cos (Xi phi) = Real.sqrt (1 - W phi ^ 2) := Real.cos_arcsin (W phi)
    have hsq : Real.sqrt (1 - W phi ^ 2) ≠ 0 := by
      apply (Real.sqrt_pos.mpr _).ne'
      nlinarith [hwlt.1, hwlt.2]
    have hden : 1 - e * Real.sin phi * (e * Real.sin phi) = 1 - e ^ 2 * Real.sin phi ^ 2 := by ring
    have hwne : (1 - e ^ 2 * Real.sin phi ^ 2) ≠ 0 := by
      have : e ^ 2 * Real.sin phi ^ 2 < 1 := by
        have h1 : Real.sin phi ^ 2 ≤ 1 := Real.sin_sq_le_one phi
        have h2 : e ^ 2 < 1 := by nlinarith
        nlinarith [sq_nonneg (Real.sin phi), sq_nonneg e]
      linarith
    have h1 : s.rq * s.d * (XL * 1) * (s.rq / s.d * (YX * xip)) - s.rq * s.d * (XX * xip) * (s.rq / s.d * (YL * 1))
        = s.rq ^ 2 * xip * (XL * YX - XX * YL) := by field_simp
    rw [h1, hdet, hcosXi, hrq, hxip, hden]
    field_simp
    ring

/-- **the projection centre `(lon_0, lat_0)` maps to the false origin `(x_0, y_0)`** (tmerc, utm):
with the offset `zb` the constructor stores (`C13.tmerc_pre_precompute`), for every ellipsoid,
scale and false origin and every latitude of origin whose conformal latitude `z` lies between the
poles -/
theorem tmerc_centre_to_false_origin (ellps : Ellipsoid ℝ) (lon0 x0 y0 qs lat0 z : ℝ)
    (hz : Ellipsoid.latitudeFwdSeries lat0 ellps.conformalCoefficients = z)
    (hz1 : -(Real.pi / 2) < z) (hz2 : z < Real.pi / 2) :
    Tmerc.fwd ⟨ellps, lon0, x0, ellps.conformalCoefficients, Tmerc.tmCoefficients ellps, qs,
      y0 - qs * (z + Series.sin (2 * z) (Tmerc.tmCoefficients ellps).fwd)⟩ lon0 lat0 = some (x0, y0) := by
  have one : (@OfScientific.ofScientific ℝ Scalar.instOfScientific 10 true 1) = 1 := by
    simp [OfScientific.ofScientific, Scalar.ofSci, Lit.toReal]
  have two : (@OfScientific.ofScientific ℝ Scalar.instOfScientific 20 true 1) = 2 := by
    simp [OfScientific.ofScientific, Scalar.ofSci, Lit.toReal]; norm_num
  have hgt : Scalar.gt (0 : ℝ) (Tmerc.limit : ℝ) = false := by
    have : (0 : ℝ) < Tmerc.limit := by
      simp [Tmerc.limit, OfScientific.ofScientific, Scalar.ofSci, Lit.toReal]
    simp [Scalar.gt, not_lt.mpr this.le]
  have hrec : Scalar.recip (Scalar.hypot (Real.sin z) (Real.cos z)) = (1 : ℝ) := by
    have h1 : Real.sin z * Real.sin z + Real.cos z * Real.cos z = 1 := by
      have := Real.sin_sq_add_cos_sq z; nlinarith
    simp [Scalar.recip, scalar_hypot, h1]
  unfold Tmerc.fwd
  simp only [hz, sub_self, scalar_sin, scalar_cos, Real.sin_zero, Real.cos_zero, mul_one, hrec, one, two, zero_mul,
    mul_zero, scalar_asinh, Real.arsinh_zero, TmercLemmas.atan2_sin_cos z hz1 hz2]
  simp only [TmercLemmas.complexSinTrig_imag_zero, add_zero,
    scalar_abs, abs_zero, hgt, Bool.false_eq_true, if_false, zero_add, Series.sin, scalar_sin, scalar_cos, two]
  congr 1
  refine Prod.ext (by simp) ?_
  show _ = y0
  have hs : Real.sin z * (Real.cos z * 2) = Real.sin (2 * z) := by rw [Real.sin_two_mul]; ring
  have hc : Real.cos z * (Real.cos z * 2) - 1 = Real.cos (2 * z) := by rw [Real.cos_two_mul]; ring
  have h1 : (2 : ℝ) - 1 = 1 := by norm_num
  rw [hs, hc, h1, TmercLemmas.complexSinTrig_real]
  ring


/-! ### somerc -/

/-- **somerc: the projection centre `(lon_0, lat_0)` maps to the false origin `(x_0, y_0)`**, for every
ellipsoid, scale and latitude of origin: with the constants the constructor stores (`K` built from the
conformal-sphere latitude `φ₀'` of the centre, whose sine and cosine are stored too) the sphere
latitude of the centre is `φ₀'`, the rotation takes it to the origin of the oblique sphere, and
the Mercator of that point is the false origin -/
theorem somerc_centre_to_false_origin (p : Parsed ℝ) (phi0 phi0P : ℝ)
    (hP1 : -(Real.pi / 2) < phi0P) (hP2 : phi0P < Real.pi / 2)
    (hK : Somerc.get p "K" = Real.log (Real.tan (Real.pi / 4 + 1 / 2 * phi0P))
        - Somerc.get p "c" * Real.log (Real.tan (Real.pi / 4 + 1 / 2 * phi0))
        + Somerc.get p "c" * ((p.ellps 0).eccentricity * (1 / 2)) *
            Real.log ((1 + (p.ellps 0).eccentricity * Real.sin phi0) / (1 - (p.ellps 0).eccentricity * Real.sin phi0)))
    (hs : Somerc.get p "sin_phi_0_p" = Real.sin phi0P) (hc : Somerc.get p "cos_phi_0_p" = Real.cos phi0P) :
    Somerc.fwd p (Scalar.toRadians (Somerc.get p "lon_0")) phi0 = (Somerc.get p "x_0", Somerc.get p "y_0") := by
  have one : (@OfScientific.ofScientific ℝ Scalar.instOfScientific 10 true 1) = 1 := by
    simp [OfScientific.ofScientific, Scalar.ofSci, Lit.toReal]
  have two : (@OfScientific.ofScientific ℝ Scalar.instOfScientific 20 true 1) = 2 := by
    simp [OfScientific.ofScientific, Scalar.ofSci, Lit.toReal]; norm_num
  have four : (@OfScientific.ofScientific ℝ Scalar.instOfScientific 40 true 1) = 4 := by
    simp [OfScientific.ofScientific, Scalar.ofSci, Lit.toReal]; norm_num
  have half : (@OfScientific.ofScientific ℝ Scalar.instOfScientific 5 true 1) = 1 / 2 := by
    simp [OfScientific.ofScientific, Scalar.ofSci, Lit.toReal]; norm_num
  -- the argument of the exponential is ln tan(π/4 + φ₀'/2)
  have hu1 : -(Real.pi / 2) < Real.pi / 4 + 1 / 2 * phi0P := by linarith [Real.pi_pos]
  have hu2 : Real.pi / 4 + 1 / 2 * phi0P < Real.pi / 2 := by linarith [Real.pi_pos]
  have hu0 : 0 < Real.pi / 4 + 1 / 2 * phi0P := by linarith [Real.pi_pos]
  have htan : 0 < Real.tan (Real.pi / 4 + 1 / 2 * phi0P) := Real.tan_pos_of_pos_of_lt_pi_div_two hu0 hu2
  unfold Somerc.fwd
  simp only [Somerc.fracPi4, Somerc.fracPi2, scalar_pi, scalar_sin, scalar_cos, scalar_tan, scalar_ln, scalar_exp, scalar_atan,
    scalar_asin, one, two, four, half, sub_self, mul_zero, Real.sin_zero, Real.cos_zero, hK, hs, hc]
  have hexp : Somerc.get p "c" * (Real.log (Real.tan (Real.pi / 4 + 1 / 2 * phi0)) -
        (p.ellps 0).eccentricity * (1 / 2) * Real.log ((1 + (p.ellps 0).eccentricity * Real.sin phi0) / (1 - (p.ellps 0).eccentricity * Real.sin phi0))) +
      (Real.log (Real.tan (Real.pi / 4 + 1 / 2 * phi0P)) - Somerc.get p "c" * Real.log (Real.tan (Real.pi / 4 + 1 / 2 * phi0)) +
        Somerc.get p "c" * ((p.ellps 0).eccentricity * (1 / 2)) *
          Real.log ((1 + (p.ellps 0).eccentricity * Real.sin phi0) / (1 - (p.ellps 0).eccentricity * Real.sin phi0))) =
      Real.log (Real.tan (Real.pi / 4 + 1 / 2 * phi0P)) := by ring
  rw [hexp, Real.exp_log htan, Real.arctan_tan hu1 hu2]
  have hphiP : 2 * (Real.pi / 4 + 1 / 2 * phi0P) - Real.pi / 2 = phi0P := by ring
  rw [hphiP]
  have hzero : Real.cos phi0P * Real.sin phi0P - Real.sin phi0P * Real.cos phi0P * 1 = 0 := by ring
  rw [hzero, Real.arcsin_zero]
  simp only [Real.cos_zero, mul_zero, zero_div, Real.arcsin_zero, add_zero, zero_add]
  have ht : Real.tan (Real.pi / 4) = 1 := Real.tan_pi_div_four
  simp [ht]

end C05
end Geodesy
