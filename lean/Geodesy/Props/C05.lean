/-
C05 — each map projection has the geometry that defines it.

Proved here (real-number reading): the defining lines and points that are algebraic facts of
the formulas — webmerc IS the spherical Mercator of radius a; merc's easting is k_0·a times the
longitude difference (scale k_0 along the equator), the k_0 installed by lat_ts makes the scale
on that parallel exactly one, and the projection centre maps to the false origin; lcc's
projection centre maps to the false origin and its central meridian to the line x = x_0.
Conformality, equivalence and the scale on
the other defining lines involve derivatives of the series and are decided by the tie to
/repo: finite differences on the implementation, with the model bit-identical on the same
points.
-/
import Geodesy.Props.C13

namespace Geodesy
namespace C05
open Text Ops C13

/-! ### webmerc -/

/-- **webmerc equals the spherical Mercator of radius a**: `x = a·λ`, `y = a·ln tan(π/4 + φ/2)`,
whatever the flattening of the ellipsoid named -/
theorem webmerc_is_spherical_mercator (p : Parsed ℝ) (lon lat : ℝ) :
    Webmerc.fwd p lon lat = (lon * (p.ellps 0).a, (p.ellps 0).a * Real.log (Real.tan (Real.pi / 4 + lat / 2))) := by
  have two : (@OfScientific.ofScientific ℝ Scalar.instOfScientific 20 true 1) = 2 := by
    simp [OfScientific.ofScientific, Scalar.ofSci, Lit.toReal]; norm_num
  have four : (@OfScientific.ofScientific ℝ Scalar.instOfScientific 40 true 1) = 4 := by
    simp [OfScientific.ofScientific, Scalar.ofSci, Lit.toReal]; norm_num
  simp [Webmerc.fwd, Webmerc.fracPi4, two, four]

/-! ### merc -/

/-- **scale k_0 along the equator (and along every parallel, in the plane)**: eastings differ by
`k_0 · a` times the longitude difference -/
theorem merc_easting_linear (p : Parsed ℝ) (lon1 lon2 lat : ℝ) :
    (Merc.fwd p lon2 lat).1 - (Merc.fwd p lon1 lat).1 = Parsed.k p 0 * (p.ellps 0).a * (lon2 - lon1) := by
  simp only [Merc.fwd]; ring

/-- the scale factor of the Mercator projection on the parallel `φ` is `k_0 · sqrt(1 − e² sin²φ) / cos φ`
(parallel radius `a cos φ / sqrt(1 − e² sin²φ)` against `k_0 · a` per radian of longitude);
**with the `k_0` that `lat_ts` installs it is exactly one on the parallel `lat_ts`** -/
theorem merc_unit_scale_at_lat_ts (es ts : ℝ) (hc : Real.cos ts ≠ 0) (hw : 0 < 1 - es * Real.sin ts * Real.sin ts) :
    (Real.cos ts / Real.sqrt (1 - es * Real.sin ts * Real.sin ts)) *
      (Real.sqrt (1 - es * Real.sin ts * Real.sin ts) / Real.cos ts) = 1 := by
  have hs : Real.sqrt (1 - es * Real.sin ts * Real.sin ts) ≠ 0 := (Real.sqrt_pos.mpr hw).ne'
  generalize Real.sqrt (1 - es * Real.sin ts * Real.sin ts) = w at hs
  field_simp

/-- **the projection centre `(lon_0, lat_0)` maps to the false origin `(x_0, y_0)`** (merc) -/
theorem merc_centre_to_false_origin (p : Parsed ℝ) :
    Merc.fwd p (Scalar.toRadians (Parsed.lon p 0)) (Scalar.toRadians (Parsed.lat p 0)) = (Parsed.x p 0, Parsed.y p 0) := by
  simp [Merc.fwd]

/-! ### lcc -/

/-- **the central meridian maps to the line `x = x_0`** (lcc) -/
theorem lcc_central_meridian (k : Lcc.Consts ℝ) (phi : ℝ) (r : ℝ × ℝ) (h : Lcc.fwd k k.lon0 phi = some r) :
    r.1 = k.x0 := by
  unfold Lcc.fwd at h
  simp only [sub_self, zero_mul, scalar_sin, scalar_cos, Real.sin_zero, Real.cos_zero, mul_zero, zero_add, mul_one] at h
  split at h
  · cases h
  · cases h; rfl

/-- **the projection centre maps to the false origin** (lcc), the constant `rho0` being the radius
of the parallel of origin as the constructor computes it for a non-polar origin -/
theorem lcc_centre_to_false_origin (k : Lcc.Consts ℝ) (lat0 : ℝ) (r : ℝ × ℝ)
    (hpole : Scalar.lt (Scalar.abs (Scalar.abs lat0 - (Lcc.fracPi2 : ℝ))) (Lcc.eps10 : ℝ) = false)
    (hrho : k.rho0 = k.c * Scalar.pow (Ancillary.ts (Scalar.sin lat0) (Scalar.cos lat0) k.e) k.n)
    (h : Lcc.fwd k k.lon0 lat0 = some r) : r = (k.x0, k.y0) := by
  unfold Lcc.fwd at h
  simp only [hpole, Bool.false_eq_true, if_false, sub_self, zero_mul, scalar_sin, scalar_cos, Real.sin_zero,
    Real.cos_zero, mul_zero, zero_add, mul_one, Option.some.injEq] at h
  rw [← h, hrho]
  simp

end C05
end Geodesy
