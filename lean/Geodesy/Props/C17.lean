/-
C17 — PROJ strings are translated without changing their meaning.

Model side: `Geodesy/Model/Proj.lean` (`parse_proj`, `tidy_proj`), mirrored from `token/mod.rs`.
Proved: pass-through of everything that is not PROJ syntax, the two refusals (init clauses
anywhere in a step, nested pipelines), the order of the translated steps (kept, or reversed under
a pipeline-level `inv`), and how one step is rewritten (globals right after the name, `inv`
toggled against the pipeline's, `omit_*` exchanged only under inversion).  The equivalence of
the translation with the hand-written Geodesy text for whole pipelines is decided by the
correspondence run and the translation oracle.
-/
import Geodesy.Model.Proj

namespace Geodesy
namespace C17
open Text Proj

/-- **Text that is not PROJ syntax passes through unchanged**: anything containing `|`, and
anything not containing `proj`. -/
theorem proj_passthrough (d : Str) (h : d.contains '|' = true ∨ containsStr (S "proj") d = false) :
    parseProj d = .ok d := by
  rcases h with h | h
  · simp only [parseProj, h, Bool.true_or, if_true]
  · simp only [parseProj, h, Bool.not_false, Bool.or_true, if_true]

/-- a character that is not white space survives trimming -/
theorem mem_dropWhile_of_false {β : Type} (q : β → Bool) (l : List β) (c : β) (hc : c ∈ l) (hq : q c = false) :
    c ∈ l.dropWhile q := by
  induction l with
  | nil => cases hc
  | cons a r ih =>
    by_cases ha : q a = true
    · rw [List.dropWhile_cons_of_pos ha]
      rcases List.mem_cons.mp hc with e | hm
      · rw [e, ha] at hq; cases hq
      · exact ih hm
    · have ha' : q a = false := by simpa using ha
      rw [List.dropWhile_cons_of_neg (by simp [ha'])]
      exact hc

theorem mem_trim_of_not_ws (s : Str) (c : Char) (hc : c ∈ s) (hw : isWs c = false) : c ∈ trim s := by
  unfold trim trimEnd trimStart
  rw [List.mem_reverse]
  apply mem_dropWhile_of_false _ _ _ _ hw
  rw [List.mem_reverse]
  exact mem_dropWhile_of_false _ _ _ hc hw

/-- the separator of a pipeline of two or more steps is in its text -/
theorem bar_mem_join (a b : Str) (rest : List Str) : '|' ∈ join (S " | ") (a :: b :: rest) := by
  show '|' ∈ a ++ S " | " ++ join (S " | ") (b :: rest)
  simp [S]

/-- **the translation is idempotent on what it delivers for pipelines**: the text of two or more steps joined by
` | ` (which is what `parse_proj` returns for a PROJ pipeline of two or more steps) passes through unchanged -/
theorem translated_pipeline_is_fixed (a b : Str) (rest : List Str) :
    parseProj (trim (join (S " | ") (a :: b :: rest))) = .ok (trim (join (S " | ") (a :: b :: rest))) := by
  apply proj_passthrough
  left
  have := mem_trim_of_not_ws _ '|' (bar_mem_join a b rest) (by decide)
  simpa [List.contains_iff_mem] using this

/-- **init clauses are refused**, wherever they stand in their step -/
theorem init_refused (acc : Acc) (i : Nat) (step : Str)
    (h : (splitWs step).any (startsWith (S "init=")) = true) :
    stepRound acc i step = .error .unsupported := by
  simp only [stepRound, h, if_true]

/-- **nested pipelines are refused**: a step other than the first whose `proj=` says `pipeline` -/
theorem nested_refused (acc : Acc) (i : Nat) (elements : List Str) (hi : i ≠ 0) (k : Nat)
    (hk : (List.range elements.length).find? (fun j => startsWith (S "proj=") (elements.getD j [])) = some k)
    (hp : ((elements.set k (elements.getD 0 [])).set 0 ((elements.getD k []).drop 5)).getD 0 [] = S "pipeline") :
    headStep acc i elements = .error .unsupported := by
  have hi' : (i != 0) = true := by simpa using hi
  simp only [headStep, hk, hp, beq_self_eq_true, if_true, hi']

/-- the head of a round never touches the steps translated so far -/
theorem headStep_steps (acc acc' : Acc) (i : Nat) (elements els : List Str)
    (h : headStep acc i elements = .ok (els, acc')) : acc'.steps = acc.steps := by
  unfold headStep at h
  split at h
  · injection h with h; injection h with _ h2; rw [← h2]
  · simp only at h
    split at h
    · split at h
      · exact absurd h (by simp)
      · injection h with h; injection h with _ h2; rw [← h2]
    · injection h with h; injection h with _ h2; rw [← h2]

/-- **Step order.**  A round either leaves the list of translated steps alone (an empty step, or
the `proj=pipeline` head) or adds exactly one step: at the end when the pipeline is not
inverted — so the order of the steps is kept —, at the front when it is — so the order is
reversed. -/
theorem round_adds_one (acc acc' : Acc) (i : Nat) (step : Str) (h : stepRound acc i step = .ok acc') :
    acc'.steps = acc.steps ∨
    (∃ t, acc'.inverted = false ∧ acc'.steps = acc.steps ++ [t]) ∨
    (∃ t, acc'.inverted = true ∧ acc'.steps = t :: acc.steps) := by
  unfold stepRound at h
  simp only at h
  split at h
  · exact absurd h (by simp)
  · split at h
    · exact absurd h (by simp)
    · rename_i els acc1 hr
      have hsteps := headStep_steps acc acc1 i _ els hr
      injection h with h
      rw [← h]
      unfold finishStep
      simp only
      split
      · left; exact hsteps
      · right
        by_cases hinv : acc1.inverted = true
        · right; exact ⟨stepText acc1 (tidyProj els), by simp [hinv], by simp [hinv, hsteps]⟩
        · have hinv' : acc1.inverted = false := by simpa using hinv
          left; exact ⟨stepText acc1 (tidyProj els), by simp [hinv'], by simp [hinv', hsteps]⟩


/-! ### the rules of `tidy_proj` and of the step translation, for every list of words -/

/-- the words of a step with the globals in place -/
def withGlobals (acc : Acc) (elements : List Str) : List Str :=
  if !acc.globals.isEmpty then listInsert elements 1 acc.globals else elements

/-- `inv`s removed, omissions renamed when the pipeline is inverted -/
def renamed (inverted : Bool) (l : List Str) : List Str :=
  (l.filter (· != S "inv")).map fun x =>
    if inverted && x == S "omit_fwd" then S "omit_inv"
    else if inverted && x == S "omit_inv" then S "omit_fwd" else x

/-- the words of a translated step, before they are joined -/
def stepElems (acc : Acc) (elements : List Str) : List Str :=
  let e := withGlobals acc elements
  if e.contains (S "inv") != acc.inverted then listInsert (renamed acc.inverted e) 1 (S "inv") else renamed acc.inverted e

theorem stepText_eq (acc : Acc) (elements : List Str) : stepText acc elements = trim (join (S " ") (stepElems acc elements)) := rfl

theorem mem_listInsert {β : Type} (l : List β) (i : Nat) (v x : β) : x ∈ listInsert l i v ↔ x = v ∨ x ∈ l := by
  unfold listInsert
  constructor
  · intro h
    rcases List.mem_append.mp h with h | h
    · right; exact List.mem_of_mem_take h
    · rcases List.mem_cons.mp h with h | h
      · left; exact h
      · right; exact List.mem_of_mem_drop h
  · intro h
    rcases h with h | h
    · exact List.mem_append_right _ (h ▸ List.mem_cons_self ..)
    · have := List.take_append_drop i l
      rw [← this] at h
      rcases List.mem_append.mp h with h | h
      · exact List.mem_append_left _ h
      · exact List.mem_append_right _ (List.mem_cons_of_mem _ h)

/-- the globals are one more word -/
theorem mem_withGlobals (acc : Acc) (elements : List Str) (x : Str) (hx : x ≠ acc.globals) :
    x ∈ withGlobals acc elements ↔ x ∈ elements := by
  unfold withGlobals
  split
  · simp only [mem_listInsert]; exact ⟨fun h => h.resolve_left hx, Or.inr⟩
  · rfl

theorem renamed_no_inv (inverted : Bool) (l : List Str) : S "inv" ∉ renamed inverted l := by
  intro h
  obtain ⟨x, hx, hx2⟩ := List.mem_map.mp h
  have hne : x ≠ S "inv" := by simpa using (List.mem_filter.mp hx).2
  split at hx2
  · exact absurd hx2 (by decide)
  · split at hx2
    · exact absurd hx2 (by decide)
    · exact hne hx2

/-- **Inversion.**  The translated step carries `inv` exactly when the PROJ step is inverted and the
pipeline is not, or the other way round: a pipeline-level `inv` inverts every step, and inverting an
inverted step gives the plain step. -/
theorem step_inverted_iff (acc : Acc) (elements : List Str) (hg : acc.globals ≠ S "inv") :
    S "inv" ∈ stepElems acc elements ↔ (elements.contains (S "inv") != acc.inverted) = true := by
  have hcontains : (withGlobals acc elements).contains (S "inv") = elements.contains (S "inv") := by
    rw [Bool.eq_iff_iff]
    simp only [List.contains_iff_mem]
    exact mem_withGlobals acc elements _ (fun h => hg h.symm)
  unfold stepElems
  simp only [hcontains]
  split
  · rename_i h
    simp only [mem_listInsert, true_or, true_iff]
    exact h
  · rename_i h
    exact ⟨fun hm => absurd hm (renamed_no_inv _ _), fun h2 => absurd h2 h⟩

/-- membership of an omission in the renamed words -/
theorem mem_renamed (inverted : Bool) (l : List Str) (w other : Str)
    (hw : (w = S "omit_fwd" ∧ other = S "omit_inv") ∨ (w = S "omit_inv" ∧ other = S "omit_fwd")) :
    w ∈ renamed inverted l ↔ (if inverted then other ∈ l else w ∈ l) := by
  unfold renamed
  cases inverted with
  | false =>
    simp only [Bool.false_and, Bool.false_eq_true, if_false, List.map_id']
    constructor
    · intro h; exact (List.mem_filter.mp h).1
    · intro h
      refine List.mem_filter.mpr ⟨h, ?_⟩
      rcases hw with ⟨rfl, _⟩ | ⟨rfl, _⟩ <;> decide
  | true =>
    simp only [Bool.true_and, if_true, List.mem_map, List.mem_filter]
    constructor
    · rintro ⟨x, ⟨hx, _⟩, hx2⟩
      split at hx2
      · rename_i h1
        have : x = S "omit_fwd" := by simpa using h1
        rcases hw with ⟨rfl, rfl⟩ | ⟨rfl, rfl⟩
        · exact absurd hx2 (by decide)
        · exact this ▸ hx
      · split at hx2
        · rename_i h1 h2
          have : x = S "omit_inv" := by simpa using h2
          rcases hw with ⟨rfl, rfl⟩ | ⟨rfl, rfl⟩
          · exact this ▸ hx
          · exact absurd hx2 (by decide)
        · rename_i h1 h2
          rcases hw with ⟨rfl, rfl⟩ | ⟨rfl, rfl⟩
          · exact absurd (by simpa using hx2 : (x == S "omit_fwd") = true) h1
          · exact absurd (by simpa using hx2 : (x == S "omit_inv") = true) h2
    · intro h
      refine ⟨other, ⟨h, ?_⟩, ?_⟩
      · rcases hw with ⟨_, rfl⟩ | ⟨_, rfl⟩ <;> decide
      · rcases hw with ⟨rfl, rfl⟩ | ⟨rfl, rfl⟩ <;> decide

/-- **Omissions change roles under a pipeline-level `inv`** and keep them otherwise -/
theorem step_omissions (acc : Acc) (elements : List Str) (hg1 : acc.globals ≠ S "omit_fwd") (hg2 : acc.globals ≠ S "omit_inv") :
    (S "omit_fwd" ∈ stepElems acc elements ↔ (if acc.inverted then S "omit_inv" ∈ elements else S "omit_fwd" ∈ elements)) ∧
    (S "omit_inv" ∈ stepElems acc elements ↔ (if acc.inverted then S "omit_fwd" ∈ elements else S "omit_inv" ∈ elements)) := by
  have through : ∀ (w other : Str), (w = S "omit_fwd" ∧ other = S "omit_inv") ∨ (w = S "omit_inv" ∧ other = S "omit_fwd") →
      (w ∈ stepElems acc elements ↔ (if acc.inverted then other ∈ elements else w ∈ elements)) := by
    intro w other hw
    have hwinv : w ≠ S "inv" := by rcases hw with ⟨rfl, _⟩ | ⟨rfl, _⟩ <;> decide
    have hwg : w ≠ acc.globals := by
      rcases hw with ⟨rfl, _⟩ | ⟨rfl, _⟩
      · exact hg1.symm
      · exact hg2.symm
    have hog : other ≠ acc.globals := by
      rcases hw with ⟨_, rfl⟩ | ⟨_, rfl⟩
      · exact hg2.symm
      · exact hg1.symm
    have hbase := mem_renamed acc.inverted (withGlobals acc elements) w other hw
    have hrhs : (if acc.inverted then other ∈ withGlobals acc elements else w ∈ withGlobals acc elements) ↔
        (if acc.inverted then other ∈ elements else w ∈ elements) := by
      cases acc.inverted
      · simpa using mem_withGlobals acc elements w hwg
      · simpa using mem_withGlobals acc elements other hog
    unfold stepElems
    simp only
    split
    · simp only [mem_listInsert]
      rw [hbase, hrhs]
      exact ⟨fun h => h.resolve_left hwinv, Or.inr⟩
    · rw [hbase, hrhs]
  exact ⟨through _ _ (Or.inl ⟨rfl, rfl⟩), through _ _ (Or.inr ⟨rfl, rfl⟩)⟩

/-- **`k` becomes `k_0`, for every list of words**: the first word beginning `k=` is rewritten in place,
every other word and the order stay; without such a word nothing changes (stated for lists where `a`
and `rf` are not both present without `ellps`: that rule comes first and is the next theorem) -/
theorem tidy_k (elements : List Str)
    (h : lastWithPrefix (S "ellps=") elements ≠ none ∨ lastWithPrefix (S "a=") elements = none ∨ lastWithPrefix (S "rf=") elements = none) :
    tidyProj elements =
      match (List.range elements.length).find? fun i => startsWith (S "k=") (elements.getD i []) with
      | some i => elements.set i (S "k_0=" ++ (elements.getD i []).drop 2)
      | none => elements := by
  rcases h with h | h | h
  · cases he : lastWithPrefix (S "ellps=") elements with
    | none => exact absurd he h
    | some _ => simp only [tidyProj, he]; rfl
  · cases he : lastWithPrefix (S "ellps=") elements <;> simp only [tidyProj, he, h] <;> rfl
  · cases he : lastWithPrefix (S "ellps=") elements <;> cases ha : lastWithPrefix (S "a=") elements <;>
      simp only [tidyProj, he, ha, h] <;> rfl

/-- **`a` and `rf` become `ellps=a,rf`, for every list of words without `ellps`**: the two words (the
last `a=…`, the last `rf=…`) are taken out, the composed ellipsoid is added at the end, everything else
keeps its place; then the `k` rule applies to the result -/
theorem tidy_a_rf (elements : List Str) (ai ri : Nat)
    (he : lastWithPrefix (S "ellps=") elements = none) (ha : lastWithPrefix (S "a=") elements = some ai)
    (hr : lastWithPrefix (S "rf=") elements = some ri) :
    let es := elements ++ [S "ellps=" ++ (elements.getD ai []).drop 2 ++ S "," ++ (elements.getD ri []).drop 3]
    let composed := if ai > ri then listRemove (listRemove es ai) ri else listRemove (listRemove es ri) ai
    tidyProj elements =
      match (List.range composed.length).find? fun i => startsWith (S "k=") (composed.getD i []) with
      | some i => composed.set i (S "k_0=" ++ (composed.getD i []).drop 2)
      | none => composed := by
  simp only [tidyProj, he, ha, hr]
  rfl

/-! ### `tidy_proj` on the shapes the property names -/

/-- **`k` becomes `k_0`** (the first one) -/
theorem k_to_k0 : tidyProj [S "tmerc", S "lon_0=9", S "k=0.9996", S "x_0=500000"] =
    [S "tmerc", S "lon_0=9", S "k_0=0.9996", S "x_0=500000"] := by decide

/-- **`a` and `rf` become the equivalent ellipsoid** when no `ellps` is given -/
theorem a_rf_to_ellps : tidyProj [S "cart", S "a=6378388", S "rf=297"] = [S "cart", S "ellps=6378388,297"] := by decide

theorem a_rf_kept_with_ellps : tidyProj [S "cart", S "ellps=intl", S "a=1", S "rf=2"] =
    [S "cart", S "ellps=intl", S "a=1", S "rf=2"] := by decide

/-- `k` listed before `a`/`rf` does not stop the ellipsoid from being composed -/
theorem k_before_a_rf : tidyProj [S "tmerc", S "k=0.9996", S "a=6377397.155", S "rf=299.1528128"] =
    [S "tmerc", S "k_0=0.9996", S "ellps=6377397.155,299.1528128"] := by decide

/-! ### whole translations, decided by evaluation of the model (documentation examples) -/

def okIs (r : Except Err Str) (t : String) : Bool := match r with | .ok x => x == S t | .error _ => false
def errIs (r : Except Err Str) (e : Err) : Bool := match r with | .ok _ => false | .error x => x == e

example : okIs (parseProj (S "proj=utm zone=32")) "utm zone=32" = true := by decide
example : okIs (parseProj (S "+proj=pipeline +step +proj=cart +ellps=intl +step +proj=helmert +x=1 +inv"))
    "cart ellps=intl | helmert inv x=1" = true := by decide
/-- a pipeline-level `inv` reverses the steps and inverts each of them; `omit_*` change roles -/
theorem pipeline_inv_example :
    okIs (parseProj (S "proj=pipeline inv step proj=addone omit_fwd step proj=noop inv")) "noop | addone inv omit_inv" = true := by
  decide
/-- without a pipeline-level `inv` the omissions keep their names and the order is kept -/
theorem pipeline_plain_example :
    okIs (parseProj (S "proj=pipeline step proj=addone omit_fwd step proj=noop inv")) "addone omit_fwd | noop inv" = true := by
  decide
/-- pipeline globals reach every step, right after the name, so that step-local values win -/
theorem globals_example :
    okIs (parseProj (S "proj=pipeline ellps=intl step proj=cart step proj=cart ellps=GRS80 inv"))
      "cart ellps=intl | cart inv ellps=intl ellps=GRS80" = true := by decide
example : errIs (parseProj (S "proj=utm zone=32 init=epsg:25832")) .unsupported = true := by decide
example : errIs (parseProj (S "proj=pipeline step proj=pipeline step proj=noop")) .unsupported = true := by decide

end C17
end Geodesy
