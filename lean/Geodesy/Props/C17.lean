/-
C17 — PROJ strings are translated without changing their meaning.

Model side: `Geodesy/Model/Proj.lean` (`parse_proj`, `tidy_proj`), mirrored from `token/mod.rs`.
Proved: pass-through of everything that is not PROJ syntax, the two refusals (init clauses
anywhere in a step, nested pipelines), the order of the translated steps (kept, or reversed under
a pipeline-level `inv`), and how one step is rewritten (globals right after the name, `inv`
toggled against the pipeline's, `omit_*` exchanged only under inversion).  The equivalence of
the translation with the hand-written Geodesy text for whole pipelines is decided by the
correspondence run and the translation oracle.
-/
import Geodesy.Model.Proj

namespace Geodesy
namespace C17
open Text Proj

/-- **Text that is not PROJ syntax passes through unchanged**: anything containing `|`, and
anything not containing `proj`. -/
theorem proj_passthrough (d : Str) (h : d.contains '|' = true ∨ containsStr (S "proj") d = false) :
    parseProj d = .ok d := by
  rcases h with h | h
  · simp only [parseProj, h, Bool.true_or, if_true]
  · simp only [parseProj, h, Bool.not_false, Bool.or_true, if_true]

/-- **init clauses are refused**, wherever they stand in their step -/
theorem init_refused (acc : Acc) (i : Nat) (step : Str)
    (h : (splitWs step).any (startsWith (S "init=")) = true) :
    stepRound acc i step = .error .unsupported := by
  simp only [stepRound, h, if_true]

/-- **nested pipelines are refused**: a step other than the first whose `proj=` says `pipeline` -/
theorem nested_refused (acc : Acc) (i : Nat) (elements : List Str) (hi : i ≠ 0) (k : Nat)
    (hk : (List.range elements.length).find? (fun j => startsWith (S "proj=") (elements.getD j [])) = some k)
    (hp : ((elements.set k (elements.getD 0 [])).set 0 ((elements.getD k []).drop 5)).getD 0 [] = S "pipeline") :
    headStep acc i elements = .error .unsupported := by
  have hi' : (i != 0) = true := by simpa using hi
  simp only [headStep, hk, hp, beq_self_eq_true, if_true, hi']

/-- the head of a round never touches the steps translated so far -/
theorem headStep_steps (acc acc' : Acc) (i : Nat) (elements els : List Str)
    (h : headStep acc i elements = .ok (els, acc')) : acc'.steps = acc.steps := by
  unfold headStep at h
  split at h
  · injection h with h; injection h with _ h2; rw [← h2]
  · simp only at h
    split at h
    · split at h
      · exact absurd h (by simp)
      · injection h with h; injection h with _ h2; rw [← h2]
    · injection h with h; injection h with _ h2; rw [← h2]

/-- **Step order.**  A round either leaves the list of translated steps alone (an empty step, or
the `proj=pipeline` head) or adds exactly one step: at the end when the pipeline is not
inverted — so the order of the steps is kept —, at the front when it is — so the order is
reversed. -/
theorem round_adds_one (acc acc' : Acc) (i : Nat) (step : Str) (h : stepRound acc i step = .ok acc') :
    acc'.steps = acc.steps ∨
    (∃ t, acc'.inverted = false ∧ acc'.steps = acc.steps ++ [t]) ∨
    (∃ t, acc'.inverted = true ∧ acc'.steps = t :: acc.steps) := by
  unfold stepRound at h
  simp only at h
  split at h
  · exact absurd h (by simp)
  · split at h
    · exact absurd h (by simp)
    · rename_i els acc1 hr
      have hsteps := headStep_steps acc acc1 i _ els hr
      injection h with h
      rw [← h]
      unfold finishStep
      simp only
      split
      · left; exact hsteps
      · right
        by_cases hinv : acc1.inverted = true
        · right; exact ⟨stepText acc1 (tidyProj els), by simp [hinv], by simp [hinv, hsteps]⟩
        · have hinv' : acc1.inverted = false := by simpa using hinv
          left; exact ⟨stepText acc1 (tidyProj els), by simp [hinv'], by simp [hinv', hsteps]⟩

/-! ### `tidy_proj` on the shapes the property names -/

/-- **`k` becomes `k_0`** (the first one) -/
theorem k_to_k0 : tidyProj [S "tmerc", S "lon_0=9", S "k=0.9996", S "x_0=500000"] =
    [S "tmerc", S "lon_0=9", S "k_0=0.9996", S "x_0=500000"] := by decide

/-- **`a` and `rf` become the equivalent ellipsoid** when no `ellps` is given -/
theorem a_rf_to_ellps : tidyProj [S "cart", S "a=6378388", S "rf=297"] = [S "cart", S "ellps=6378388,297"] := by decide

theorem a_rf_kept_with_ellps : tidyProj [S "cart", S "ellps=intl", S "a=1", S "rf=2"] =
    [S "cart", S "ellps=intl", S "a=1", S "rf=2"] := by decide

/-- `k` listed before `a`/`rf` does not stop the ellipsoid from being composed -/
theorem k_before_a_rf : tidyProj [S "tmerc", S "k=0.9996", S "a=6377397.155", S "rf=299.1528128"] =
    [S "tmerc", S "k_0=0.9996", S "ellps=6377397.155,299.1528128"] := by decide

/-! ### whole translations, decided by evaluation of the model (documentation examples) -/

def okIs (r : Except Err Str) (t : String) : Bool := match r with | .ok x => x == S t | .error _ => false
def errIs (r : Except Err Str) (e : Err) : Bool := match r with | .ok _ => false | .error x => x == e

example : okIs (parseProj (S "proj=utm zone=32")) "utm zone=32" = true := by decide
example : okIs (parseProj (S "+proj=pipeline +step +proj=cart +ellps=intl +step +proj=helmert +x=1 +inv"))
    "cart ellps=intl | helmert inv x=1" = true := by decide
/-- a pipeline-level `inv` reverses the steps and inverts each of them; `omit_*` change roles -/
theorem pipeline_inv_example :
    okIs (parseProj (S "proj=pipeline inv step proj=addone omit_fwd step proj=noop inv")) "noop | addone inv omit_inv" = true := by
  decide
/-- without a pipeline-level `inv` the omissions keep their names and the order is kept -/
theorem pipeline_plain_example :
    okIs (parseProj (S "proj=pipeline step proj=addone omit_fwd step proj=noop inv")) "addone omit_fwd | noop inv" = true := by
  decide
/-- pipeline globals reach every step, right after the name, so that step-local values win -/
theorem globals_example :
    okIs (parseProj (S "proj=pipeline ellps=intl step proj=cart step proj=cart ellps=GRS80 inv"))
      "cart ellps=intl | cart inv ellps=intl ellps=GRS80" = true := by decide
example : errIs (parseProj (S "proj=utm zone=32 init=epsg:25832")) .unsupported = true := by decide
example : errIs (parseProj (S "proj=pipeline step proj=pipeline step proj=noop")) .unsupported = true := by decide

end C17
end Geodesy
