/-
C06 — ellipsoid geometry: conversions, geodesics, latitudes and constants are coherent.

Proved here (real-number reading, for EVERY ellipsoid with 0 ≤ f < 1 and every argument): the
defining identities of the derived shape parameters, the ellipsoid equation for points of height
zero, oddness / fixed points / exact round trip of the geocentric latitude, and — over the
generated table — that every built-in name carries numbers.  Numerical coherence (geodesics,
series, conversions at height) is decided by the tie to /repo.
-/
import Geodesy.Model.Registry
import Geodesy.Lemmas.Real
import Mathlib.Tactic.Linarith
import Mathlib.Tactic.FieldSimp
import Geodesy.Lemmas.Conic
import Mathlib.Analysis.SpecialFunctions.Complex.Arg
import Mathlib.Analysis.Calculus.Deriv.MeanValue

namespace Geodesy
namespace C06
open Text Ops

/-! ### derived shape parameters -/

theorem one : (@OfScientific.ofScientific ℝ Scalar.instOfScientific 10 true 1) = 1 := by
  simp [OfScientific.ofScientific, Scalar.ofSci, Lit.toReal]
theorem two : (@OfScientific.ofScientific ℝ Scalar.instOfScientific 20 true 1) = 2 := by
  simp [OfScientific.ofScientific, Scalar.ofSci, Lit.toReal]; norm_num

/-- **`e² = f (2 − f) = 1 − (b/a)²`**, `b = a (1 − f)` -/
theorem eccentricity_squared_identity (el : Ellipsoid ℝ) (ha : el.a ≠ 0) :
    el.semiminorAxis = el.a * (1 - el.f) ∧
    el.eccentricitySquared = el.f * (2 - el.f) ∧
    el.eccentricitySquared = 1 - (el.semiminorAxis / el.a) ^ 2 := by
  refine ⟨by simp [Ellipsoid.semiminorAxis, one], by simp [Ellipsoid.eccentricitySquared, two], ?_⟩
  simp only [Ellipsoid.eccentricitySquared, Ellipsoid.semiminorAxis, one, two]
  field_simp
  ring

/-- **`e'² = e² / (1 − e²) = (a² − b²) / b²`** -/
theorem second_eccentricity_identity (el : Ellipsoid ℝ) (ha : el.a ≠ 0) (hf : el.f ≠ 1) :
    el.secondEccentricitySquared = (el.a ^ 2 - el.semiminorAxis ^ 2) / el.semiminorAxis ^ 2 := by
  have h1 : (1 : ℝ) - el.f ≠ 0 := sub_ne_zero.mpr (Ne.symm hf)
  simp only [Ellipsoid.secondEccentricitySquared, Ellipsoid.eccentricitySquared, Ellipsoid.semiminorAxis, one, two]
  have : 1 - el.f * (2 - el.f) = (1 - el.f) ^ 2 := by ring
  rw [this]
  field_simp
  ring

/-- **third flattening `n = f / (2 − f) = (a − b) / (a + b)`**, second flattening `(a − b) / b`,
aspect ratio `a / b`, polar radius of curvature `a² / b` -/
theorem flattenings_identity (el : Ellipsoid ℝ) (ha : el.a ≠ 0) (hf : el.f ≠ 1) (hf2 : el.f ≠ 2) :
    el.thirdFlattening = (el.a - el.semiminorAxis) / (el.a + el.semiminorAxis) ∧
    el.secondFlattening = (el.a - el.semiminorAxis) / el.semiminorAxis ∧
    el.aspectRatio = el.a / el.semiminorAxis ∧
    el.polarRadiusOfCurvature = el.a ^ 2 / el.semiminorAxis := by
  have h1 : (1 : ℝ) - el.f ≠ 0 := sub_ne_zero.mpr (Ne.symm hf)
  have h2 : (2 : ℝ) - el.f ≠ 0 := sub_ne_zero.mpr (Ne.symm hf2)
  refine ⟨?_, ?_, ?_, ?_⟩
  · simp only [Ellipsoid.thirdFlattening, Ellipsoid.semiminorAxis, one, two]
    have : el.a + el.a * (1 - el.f) = el.a * (2 - el.f) := by ring
    rw [this]; field_simp; ring
  · simp only [Ellipsoid.secondFlattening, Ellipsoid.semiminorAxis, one]
  · simp only [Ellipsoid.aspectRatio, Ellipsoid.semiminorAxis, Scalar.recip, one, scalar_ofNatLit]
    field_simp
    norm_num
  · simp only [Ellipsoid.polarRadiusOfCurvature, Ellipsoid.semiminorAxis, one]; ring

/-- the linear eccentricity squares to `a² − b²` for an oblate ellipsoid -/
theorem linear_eccentricity_identity (el : Ellipsoid ℝ) (ha : 0 < el.a) (hf0 : 0 < el.f) (hf1 : el.f < 1) :
    el.linearEccentricity ^ 2 = el.a ^ 2 - el.semiminorAxis ^ 2 := by
  have hb : el.semiminorAxis < el.a := by
    simp only [Ellipsoid.semiminorAxis, one]; nlinarith
  have hb0 : 0 < el.semiminorAxis := by
    simp only [Ellipsoid.semiminorAxis, one]; nlinarith
  have hpos : 0 ≤ el.a * el.a - el.semiminorAxis * el.semiminorAxis := by nlinarith
  simp only [Ellipsoid.linearEccentricity, scalar_lt, Scalar.gt, decide_eq_true_eq, hb, if_true, scalar_sqrt]
  rw [Real.sq_sqrt hpos]; ring

/-! ### points of height zero lie on the ellipsoid -/

/-- **`X²/a² + Y²/a² + Z²/b² = 1` for the cartesian image of every point of height zero** -/
theorem height_zero_on_ellipsoid (el : Ellipsoid ℝ) (ha : 0 < el.a) (hf0 : 0 < el.f) (hf1 : el.f < 1)
    (lam phi t : ℝ) :
    let c := el.cartesian ⟨lam, phi, 0, t⟩
    c.c0 ^ 2 / el.a ^ 2 + c.c1 ^ 2 / el.a ^ 2 + c.c2 ^ 2 / el.semiminorAxis ^ 2 = 1 := by
  intro c
  have hes : el.eccentricitySquared = el.f * (2 - el.f) := by simp [Ellipsoid.eccentricitySquared, two]
  have hes1 : el.eccentricitySquared < 1 := by rw [hes]; nlinarith
  have hes0 : 0 ≤ el.eccentricitySquared := by rw [hes]; nlinarith
  have hs2 : Real.sin phi ^ 2 ≤ 1 := Real.sin_sq_le_one phi
  have hw : 0 < 1 - Real.sin phi ^ 2 * el.eccentricitySquared := by nlinarith [sq_nonneg (Real.sin phi)]
  have hb : el.semiminorAxis ^ 2 = el.a ^ 2 * (1 - el.eccentricitySquared) := by
    simp only [Ellipsoid.semiminorAxis, one, hes]; ring
  have hfne : el.f ≠ 0 := ne_of_gt hf0
  have hN : el.primeVerticalRadiusOfCurvature phi = el.a / Real.sqrt (1 - Real.sin phi ^ 2 * el.eccentricitySquared) := by
    simp only [Ellipsoid.primeVerticalRadiusOfCurvature, scalar_beq, Scalar.sq, one, sq, scalar_sin, scalar_sqrt]
    have z : (@OfNat.ofNat ℝ 0 Scalar.instOfNat) = 0 := by
      show (Scalar.ofNatLit 0 : ℝ) = 0
      simp
    rw [z]
    simp [hfne]
  have hsq : Real.sqrt (1 - Real.sin phi ^ 2 * el.eccentricitySquared) ^ 2 = 1 - Real.sin phi ^ 2 * el.eccentricitySquared :=
    Real.sq_sqrt hw.le
  have hsqne : Real.sqrt (1 - Real.sin phi ^ 2 * el.eccentricitySquared) ≠ 0 := (Real.sqrt_pos.mpr hw).ne'
  have hcl : Real.cos lam ^ 2 + Real.sin lam ^ 2 = 1 := Real.cos_sq_add_sin_sq lam
  have hcp : Real.cos phi ^ 2 = 1 - Real.sin phi ^ 2 := by have := Real.cos_sq_add_sin_sq phi; linarith
  simp only [c, Ellipsoid.cartesian, hN, one, scalar_sin, scalar_cos, add_zero, hb]
  have hane : el.a ≠ 0 := ha.ne'
  have h1e : (1 - el.eccentricitySquared) ≠ 0 := by linarith
  set w := Real.sqrt (1 - Real.sin phi ^ 2 * el.eccentricitySquared) with hwdef
  have key : (el.a / w * Real.cos phi * Real.cos lam) ^ 2 / el.a ^ 2 + (el.a / w * Real.cos phi * Real.sin lam) ^ 2 / el.a ^ 2
      + (el.a / w * (1 - el.eccentricitySquared) * Real.sin phi) ^ 2 / (el.a ^ 2 * (1 - el.eccentricitySquared))
      = (Real.cos phi ^ 2 * (Real.cos lam ^ 2 + Real.sin lam ^ 2) + (1 - el.eccentricitySquared) * Real.sin phi ^ 2) / w ^ 2 := by
    field_simp
  rw [key, hcl, hsq, hcp]
  field_simp
  ring

/-! ### geocentric latitude -/

/-- the geocentric latitude is odd, fixes the equator, and the inverse conversion undoes it
exactly for every latitude strictly between the poles -/
theorem geocentric_latitude (el : Ellipsoid ℝ) (hf0 : 0 ≤ el.f) (hf1 : el.f < 1) (phi : ℝ)
    (h1 : -(Real.pi / 2) < phi) (h2 : phi < Real.pi / 2) :
    el.latitudeGeographicToGeocentric (-phi) = -el.latitudeGeographicToGeocentric phi ∧
    el.latitudeGeographicToGeocentric 0 = 0 ∧
    el.latitudeGeocentricToGeographic (el.latitudeGeographicToGeocentric phi) = phi := by
  have hk : 0 < 1 - el.f * (2 - el.f) := by nlinarith
  refine ⟨?_, ?_, ?_⟩
  · simp [Ellipsoid.latitudeGeographicToGeocentric, one, two, Real.tan_neg, Real.arctan_neg]
  · simp [Ellipsoid.latitudeGeographicToGeocentric]
  · simp only [Ellipsoid.latitudeGeocentricToGeographic, Ellipsoid.latitudeGeographicToGeocentric,
      Ellipsoid.eccentricitySquared, one, two, scalar_atan, scalar_tan, Real.tan_arctan]
    rw [show (1 - el.f * (2 - el.f)) * Real.tan phi / (1 - el.f * (2 - el.f)) = Real.tan phi by field_simp]
    exact Real.arctan_tan h1 h2

/-! ### the other auxiliary latitudes: odd, fixing the equator and the poles, increasing -/

/-- the Fourier sine series of the library is odd in its argument and vanishes at multiples of π -/
theorem series_sin_neg (x : ℝ) (c : List ℝ) : Series.sin (-x) c = -Series.sin x c := by
  simp [Series.sin, Real.cos_neg, Real.sin_neg]

theorem series_sin_zero (c : List ℝ) : Series.sin 0 c = 0 := by simp [Series.sin]

theorem series_sin_pi (c : List ℝ) : Series.sin Real.pi c = 0 := by simp [Series.sin]

/-- **the conformal and the authalic latitude (series `φ + Σ c_k sin 2kφ`, both directions) are
odd, fix the equator and fix the poles**, for every ellipsoid and coefficient set -/
theorem series_latitudes (c : Series.Fourier ℝ) (phi : ℝ) :
    Ellipsoid.latitudeFwdSeries (-phi) c = -Ellipsoid.latitudeFwdSeries phi c ∧
    Ellipsoid.latitudeInvSeries (-phi) c = -Ellipsoid.latitudeInvSeries phi c ∧
    Ellipsoid.latitudeFwdSeries 0 c = 0 ∧ Ellipsoid.latitudeInvSeries 0 c = 0 ∧
    Ellipsoid.latitudeFwdSeries (Real.pi / 2) c = Real.pi / 2 ∧ Ellipsoid.latitudeInvSeries (Real.pi / 2) c = Real.pi / 2 ∧
    Ellipsoid.latitudeFwdSeries (-(Real.pi / 2)) c = -(Real.pi / 2) := by
  have hpi : (2 : ℝ) * (Real.pi / 2) = Real.pi := by ring
  have hneg : (2 : ℝ) * -phi = -(2 * phi) := by ring
  have hnegpi : (2 : ℝ) * -(Real.pi / 2) = -Real.pi := by ring
  refine ⟨?_, ?_, ?_, ?_, ?_, ?_, ?_⟩ <;>
    simp only [Ellipsoid.latitudeFwdSeries, Ellipsoid.latitudeInvSeries, two, hneg, hpi, hnegpi, mul_zero,
      series_sin_neg, series_sin_zero, series_sin_pi, neg_zero, add_zero] <;> ring

/-- **the rectifying latitude is odd and fixes the equator** (that it does not fix the poles is the
known finding `rectifying-latitude-scaled`) -/
theorem rectifying_latitude_odd (c : Series.Fourier ℝ) (phi : ℝ) :
    Ellipsoid.latitudeGeographicToRectifying (-phi) c = -Ellipsoid.latitudeGeographicToRectifying phi c ∧
    Ellipsoid.latitudeGeographicToRectifying 0 c = 0 := by
  have hneg : (2 : ℝ) * -phi = -(2 * phi) := by ring
  constructor <;>
    simp only [Ellipsoid.latitudeGeographicToRectifying, two, hneg, mul_zero, series_sin_neg, series_sin_zero, add_zero] <;> ring

/-- **the reduced (parametric) latitude: `tan β = (1 − f) tan φ`**, odd, fixing the equator -/
theorem reduced_latitude (el : Ellipsoid ℝ) (hf1 : el.f < 1) (phi : ℝ) :
    el.latitudeGeographicToReduced phi = Real.arctan ((1 - el.f) * Real.tan phi) ∧
    el.latitudeGeographicToReduced (-phi) = -el.latitudeGeographicToReduced phi ∧
    el.latitudeGeographicToReduced 0 = 0 := by
  have hpos : 0 < 1 / (1 - el.f) := by
    have : 0 < 1 - el.f := by linarith
    positivity
  have key : ∀ x : ℝ, el.latitudeGeographicToReduced x = Real.arctan ((1 - el.f) * Real.tan x) := by
    intro x
    simp only [Ellipsoid.latitudeGeographicToReduced, one]
    show Complex.arg ⟨1 / (1 - el.f), Real.tan x⟩ = _
    have hlt : |Complex.arg ⟨1 / (1 - el.f), Real.tan x⟩| < Real.pi / 2 := Complex.abs_arg_lt_pi_div_two_iff.mpr (Or.inl hpos)
    have h := abs_lt.mp hlt
    rw [← Real.arctan_tan h.1 h.2, Complex.tan_arg]
    congr 1
    have : (1 - el.f) ≠ 0 := by linarith
    field_simp
  refine ⟨key phi, ?_, ?_⟩
  · rw [key, key, Real.tan_neg, mul_neg, Real.arctan_neg]
  · rw [key]; simp

/-- **the isometric latitude is odd, fixes the equator and is strictly increasing between the
poles**, for every eccentricity `0 ≤ e < 1` -/
theorem isometric_latitude (e : ℝ) (he0 : 0 ≤ e) (he1 : e < 1) :
    (∀ x, Conic.psi e (-x) = -Conic.psi e x) ∧ Conic.psi e 0 = 0 ∧
    StrictMonoOn (Conic.psi e) (Set.Ioo (-(Real.pi / 2)) (Real.pi / 2)) := by
  refine ⟨fun x => ?_, by simp [Conic.psi], ?_⟩
  · unfold Conic.psi
    rw [Real.tan_neg, Real.arsinh_neg, Real.sin_neg]
    have : (1 + e * -Real.sin x) / (1 - e * -Real.sin x) = ((1 + e * Real.sin x) / (1 - e * Real.sin x))⁻¹ := by
      rw [inv_div]; ring_nf
    rw [this, Real.log_inv]
    ring
  · apply strictMonoOn_of_deriv_pos (convex_Ioo _ _)
    · intro x hx
      have hd : HasDerivAt (Conic.psi e) _ x := Mercator.isometric_hasDerivAt e x he0 he1 hx.1 hx.2
      exact hd.continuousAt.continuousWithinAt
    · intro x hx
      rw [interior_Ioo] at hx
      have hd : HasDerivAt (Conic.psi e) _ x := Mercator.isometric_hasDerivAt e x he0 he1 hx.1 hx.2
      rw [hd.deriv]
      have hc : 0 < Real.cos x := Real.cos_pos_of_mem_Ioo hx
      have hw : 0 < 1 - e ^ 2 * Real.sin x ^ 2 := by
        have h1 : Real.sin x ^ 2 ≤ 1 := Real.sin_sq_le_one x
        have h2 : e ^ 2 < 1 := by nlinarith
        nlinarith [sq_nonneg (Real.sin x), sq_nonneg e]
      have : 0 < 1 - e ^ 2 := by nlinarith
      positivity

/-- `arctan (k · tan φ)` with `k > 0` is strictly increasing between the poles -/
theorem arctan_mul_tan_strictMonoOn (k : ℝ) (hk : 0 < k) :
    StrictMonoOn (fun x => Real.arctan (k * Real.tan x)) (Set.Ioo (-(Real.pi / 2)) (Real.pi / 2)) := by
  intro a ha b hb hab
  exact Real.arctan_strictMono (mul_lt_mul_of_pos_left (Real.strictMonoOn_tan ha hb hab) hk)

/-- **the geocentric latitude is strictly increasing between the poles**, and stays between them -/
theorem geocentric_latitude_increasing (el : Ellipsoid ℝ) (hf0 : 0 ≤ el.f) (hf1 : el.f < 1) :
    StrictMonoOn el.latitudeGeographicToGeocentric (Set.Ioo (-(Real.pi / 2)) (Real.pi / 2)) ∧
    ∀ phi, -(Real.pi / 2) < el.latitudeGeographicToGeocentric phi ∧ el.latitudeGeographicToGeocentric phi < Real.pi / 2 := by
  have hk : 0 < 1 - el.f * (2 - el.f) := by nlinarith
  have key : el.latitudeGeographicToGeocentric = fun x => Real.arctan ((1 - el.f * (2 - el.f)) * Real.tan x) := by
    funext x
    simp [Ellipsoid.latitudeGeographicToGeocentric, one, two]
  rw [key]
  exact ⟨arctan_mul_tan_strictMonoOn _ hk, fun phi => ⟨Real.neg_pi_div_two_lt_arctan _, Real.arctan_lt_pi_div_two _⟩⟩

/-- **the reduced latitude is strictly increasing between the poles**, and stays between them -/
theorem reduced_latitude_increasing (el : Ellipsoid ℝ) (hf1 : el.f < 1) :
    StrictMonoOn el.latitudeGeographicToReduced (Set.Ioo (-(Real.pi / 2)) (Real.pi / 2)) ∧
    ∀ phi, -(Real.pi / 2) < el.latitudeGeographicToReduced phi ∧ el.latitudeGeographicToReduced phi < Real.pi / 2 := by
  have hk : 0 < 1 - el.f := by linarith
  have key : el.latitudeGeographicToReduced = fun x => Real.arctan ((1 - el.f) * Real.tan x) := by
    funext x
    exact (reduced_latitude el hf1 x).1
  rw [key]
  exact ⟨arctan_mul_tan_strictMonoOn _ hk, fun phi => ⟨Real.neg_pi_div_two_lt_arctan _, Real.arctan_lt_pi_div_two _⟩⟩

/-- on a flattened ellipsoid the geocentric and the reduced latitude of a northern point lie south of its
geographic latitude, the geocentric one furthest: `ψ ≤ β ≤ φ` for `0 ≤ φ < π/2` -/
theorem latitudes_ordered (el : Ellipsoid ℝ) (hf0 : 0 ≤ el.f) (hf1 : el.f < 1) (phi : ℝ) (h0 : 0 ≤ phi) (h2 : phi < Real.pi / 2) :
    el.latitudeGeographicToGeocentric phi ≤ el.latitudeGeographicToReduced phi ∧ el.latitudeGeographicToReduced phi ≤ phi := by
  have ht : 0 ≤ Real.tan phi := Real.tan_nonneg_of_nonneg_of_le_pi_div_two h0 h2.le
  have e1 : el.latitudeGeographicToGeocentric phi = Real.arctan ((1 - el.f * (2 - el.f)) * Real.tan phi) := by
    simp [Ellipsoid.latitudeGeographicToGeocentric, one, two]
  rw [e1, (reduced_latitude el hf1 phi).1]
  constructor
  · apply Real.arctan_strictMono.monotone
    have : 1 - el.f * (2 - el.f) ≤ 1 - el.f := by nlinarith
    exact mul_le_mul_of_nonneg_right this ht
  · have hphi : Real.arctan (Real.tan phi) = phi := Real.arctan_tan (by linarith [Real.pi_pos]) h2
    calc Real.arctan ((1 - el.f) * Real.tan phi) ≤ Real.arctan (Real.tan phi) := by
          apply Real.arctan_strictMono.monotone
          have : (1 - el.f) * Real.tan phi ≤ 1 * Real.tan phi := mul_le_mul_of_nonneg_right (by linarith) ht
          simpa using this
      _ = phi := hphi

/-! ### Bowring's closed form is exact on the surface -/

theorem powi_two (x : ℝ) : Scalar.powi x 2 = x ^ 2 := by
  simp [Scalar.powi, Scalar.powiLoop]; ring
theorem powi_three (x : ℝ) : Scalar.powi x 3 = x ^ 3 := by
  simp [Scalar.powi, Scalar.powiLoop]; ring

/-- the distance from the axis below which `geographic` answers "pole" -/
noncomputable def tinyLit : ℝ := @OfScientific.ofScientific ℝ Scalar.instOfScientific 10 true 13
theorem tinyLit_eq : tinyLit = 1 / 10 ^ 12 := by
  simp [tinyLit, OfScientific.ofScientific, Scalar.ofSci, Lit.toReal]; norm_num

/-- the algebra of Bowring's formula on the surface: with `q = 1 - f`, `W² = cos²φ + q² sin²φ`,
`p = a cosφ / W`, `Z = a q² sinφ / W`, numerator and denominator are `K sinφ` and `K cosφ`, `K = a q² / W³` -/
theorem bowring_surface (a q s c W : ℝ) (ha : 0 < a) (hq : 0 < q) (hc : 0 < c) (hW : 0 < W)
    (hcs : s ^ 2 + c ^ 2 = 1) (hW2 : W ^ 2 = c ^ 2 + q ^ 2 * s ^ 2) :
    let es := 1 - q ^ 2
    let eps := es / (1 - es)
    let b := a * q
    let p := a * c / W
    let Z := a * q ^ 2 * s / W
    let T := Z * a / (p * b)
    let cc := 1 / Real.sqrt (1 + T * T)
    let ss := cc * T
    let K := a * q ^ 2 / W ^ 3
    Z + eps * b * ss ^ 3 = K * s ∧ p - es * a * cc ^ 3 = K * c ∧ 0 < K := by
  intro es eps b p Z T cc ss K
  have hWne : W ≠ 0 := hW.ne'
  have hcne : c ≠ 0 := hc.ne'
  have hqne : q ≠ 0 := hq.ne'
  have hane : a ≠ 0 := ha.ne'
  have hT : T = q * s / c := by
    simp only [T, Z, p, b]; field_simp
  have hsq : Real.sqrt (1 + T * T) = W / c := by
    rw [Real.sqrt_eq_iff_mul_self_eq (by nlinarith [mul_self_nonneg T]) (div_pos hW hc).le]
    rw [hT]; field_simp; nlinarith
  have hcc : cc = c / W := by simp only [cc, hsq]; field_simp
  have hss : ss = q * s / W := by simp only [ss, hcc, hT]; field_simp
  have hes1 : 1 - es = q ^ 2 := by simp [es]
  refine ⟨?_, ?_, by positivity⟩
  · simp only [eps, hes1, hss, Z, b, K, es]
    field_simp
    linear_combination s * hW2 + s * hcs
  · simp only [hcc, p, K, es]
    field_simp
    linear_combination hW2 + q ^ 2 * hcs

/-- `atan2 (K sin φ) (K cos φ) = φ` for `K > 0` and `φ` in `]-π, π]` -/
theorem arg_polar (K phi : ℝ) (hK : 0 < K) (h1 : -Real.pi < phi) (h2 : phi ≤ Real.pi) :
    Complex.arg ⟨K * Real.cos phi, K * Real.sin phi⟩ = phi := by
  have : (⟨K * Real.cos phi, K * Real.sin phi⟩ : ℂ) = (K : ℂ) * (Complex.cos phi + Complex.sin phi * Complex.I) := by
    apply Complex.ext <;> simp [Complex.cos_ofReal_re, Complex.sin_ofReal_re, Complex.cos_ofReal_im, Complex.sin_ofReal_im]
  rw [this]
  exact Complex.arg_mul_cos_add_sin_mul_I hK ⟨h1, h2⟩

theorem bowring_surface_vars (a q s c W p Z b es eps : ℝ) (ha : 0 < a) (hq : 0 < q) (hc : 0 < c) (hW : 0 < W)
    (hcs : s ^ 2 + c ^ 2 = 1) (hW2 : W ^ 2 = c ^ 2 + q ^ 2 * s ^ 2)
    (hp : p = a * c / W) (hZ : Z = a * q ^ 2 * s / W) (hb : b = a * q) (hes : es = 1 - q ^ 2) (heps : eps = es / (1 - es)) :
    Z + eps * b * (1 / Real.sqrt (1 + Z * a / (p * b) * (Z * a / (p * b))) * (Z * a / (p * b))) ^ 3 = a * q ^ 2 / W ^ 3 * s ∧
    p - es * a * (1 / Real.sqrt (1 + Z * a / (p * b) * (Z * a / (p * b)))) ^ 3 = a * q ^ 2 / W ^ 3 * c ∧
    0 < a * q ^ 2 / W ^ 3 := by
  subst hp hZ hb hes heps
  exact bowring_surface a q s c W ha hq hc hW hcs hW2

/-- **Bowring's closed form is exact on the surface of the ellipsoid**: for every point of height zero that is
not within 10^-12 m of the axis, `geographic (cartesian (λ, φ, 0, t)) = (λ, φ, 0, t)` -/
theorem bowring_exact_on_surface (el : Ellipsoid ℝ) (ha : 0 < el.a) (hf0 : 0 < el.f) (hf1 : el.f < 1)
    (lam phi t : ℝ) (hl1 : -Real.pi < lam) (hl2 : lam ≤ Real.pi)
    (hp1 : -(Real.pi / 2) < phi) (hp2 : phi < Real.pi / 2)
    (hfar : tinyLit ≤ el.a * Real.cos phi / Real.sqrt (1 - Real.sin phi ^ 2 * el.eccentricitySquared)) :
    el.geographic (el.cartesian ⟨lam, phi, 0, t⟩) = ⟨lam, phi, 0, t⟩ := by
  set q := 1 - el.f with hq
  set s := Real.sin phi with hs
  set c := Real.cos phi with hc
  have hq0 : 0 < q := by simp only [hq]; linarith
  have hc0 : 0 < c := Real.cos_pos_of_mem_Ioo ⟨hp1, hp2⟩
  have hcs : s ^ 2 + c ^ 2 = 1 := Real.sin_sq_add_cos_sq phi
  have hes : el.eccentricitySquared = 1 - q ^ 2 := by simp [Ellipsoid.eccentricitySquared, two, hq]; ring
  have hw : 0 < 1 - s ^ 2 * el.eccentricitySquared := by
    rw [hes]; nlinarith [sq_nonneg s, sq_nonneg c, sq_nonneg (q * s), mul_pos hq0 hq0]
  set W := Real.sqrt (1 - s ^ 2 * el.eccentricitySquared) with hWdef
  have hW0 : 0 < W := Real.sqrt_pos.mpr hw
  have hW2 : W ^ 2 = c ^ 2 + q ^ 2 * s ^ 2 := by
    rw [hWdef, Real.sq_sqrt hw.le, hes]; nlinarith
  have hfne : el.f ≠ 0 := ne_of_gt hf0
  have hN : el.primeVerticalRadiusOfCurvature phi = el.a / W := by
    simp only [Ellipsoid.primeVerticalRadiusOfCurvature, scalar_beq, Scalar.sq, one, scalar_sin, scalar_sqrt]
    have z : (@OfNat.ofNat ℝ 0 Scalar.instOfNat) = 0 := by
      show (Scalar.ofNatLit 0 : ℝ) = 0
      simp
    rw [z]
    simp [hfne, hWdef, hs, sq]
  have hb : el.semiminorAxis = el.a * q := by simp [Ellipsoid.semiminorAxis, one, hq]
  have heps : el.secondEccentricitySquared = el.eccentricitySquared / (1 - el.eccentricitySquared) := by
    simp [Ellipsoid.secondEccentricitySquared, one]
  -- the cartesian coordinates
  set p := el.a * c / W with hpdef
  set Zv := el.a * q ^ 2 * s / W with hZdef
  have hp0 : 0 < p := by positivity
  have hcart : el.cartesian ⟨lam, phi, 0, t⟩ = ⟨p * Real.cos lam, p * Real.sin lam, Zv, t⟩ := by
    simp only [Ellipsoid.cartesian, hN, one, scalar_sin, scalar_cos, add_zero, hes]
    congr 1
    · simp only [hpdef]; ring
    · simp only [hpdef]; ring
    · simp only [hZdef]; field_simp; ring
  rw [hcart]
  have hhyp : Scalar.hypot (p * Real.cos lam) (p * Real.sin lam) = p := by
    rw [scalar_hypot]
    have : p * Real.cos lam * (p * Real.cos lam) + p * Real.sin lam * (p * Real.sin lam) = p ^ 2 := by
      have := Real.cos_sq_add_sin_sq lam; nlinarith
    rw [this, Real.sqrt_sq hp0.le]
  have hlam : Scalar.atan2 (p * Real.sin lam) (p * Real.cos lam) = lam := by
    rw [scalar_atan2]; exact arg_polar p lam hp0 hl1 hl2
  obtain ⟨hnum, hden, hK⟩ := bowring_surface_vars el.a q s c W p Zv el.semiminorAxis el.eccentricitySquared
    el.secondEccentricitySquared ha hq0 hc0 hW0 hcs hW2 rfl rfl hb hes heps
  set K := el.a * q ^ 2 / W ^ 3 with hKdef
  have hbranch : Scalar.lt p (@OfScientific.ofScientific ℝ Scalar.instOfScientific 10 true 13) = false := by
    rw [scalar_lt]
    have : ¬ p < tinyLit := not_lt.mpr hfar
    simpa [tinyLit] using this
  simp only [Ellipsoid.geographic, hhyp, hlam, hbranch, Bool.false_eq_true, if_false, powi_three, powi_two, one,
    scalar_sqrt, hnum, hden]
  have hphi : Scalar.atan2 (K * s) (K * c) = phi := by
    rw [scalar_atan2]
    exact arg_polar K phi hK (by linarith [Real.pi_pos]) (by linarith [Real.pi_pos])
  have hlen : Scalar.hypot (K * s) (K * c) = K := by
    rw [scalar_hypot]
    have : K * s * (K * s) + K * c * (K * c) = K ^ 2 := by nlinarith
    rw [this, Real.sqrt_sq hK.le]
  have hKne : K ≠ 0 := hK.ne'
  have hs' : K * s / K = s := by field_simp
  have hc' : K * c / K = c := by field_simp
  rw [hphi, hlen, hs', hc', ← hWdef]
  have hW0' : W ≠ 0 := hW0.ne'
  have hane : el.a ≠ 0 := ha.ne'
  have hh : p * c + Zv * s - el.a * el.a / (el.a / W) = 0 := by
    simp only [hpdef, hZdef]
    have hW2' : W ^ 2 = c ^ 2 + (1 - el.f) ^ 2 * s ^ 2 := by rw [hW2, hq]
    field_simp
    linear_combination (-el.a) * hW2'
  rw [hh]

/-- **at the poles** the closed form answers the pole itself, height zero for a point of height zero; the longitude,
which a pole does not have, comes back as zero -/
theorem bowring_at_the_poles (el : Ellipsoid ℝ) (ha : 0 < el.a) (hf0 : 0 < el.f) (hf1 : el.f < 1) (lam t : ℝ) (north : Bool) :
    let phi : ℝ := if north then Real.pi / 2 else -(Real.pi / 2)
    el.geographic (el.cartesian ⟨lam, phi, 0, t⟩) = ⟨0, phi, 0, t⟩ := by
  intro phi
  set q := 1 - el.f with hq
  have hq0 : 0 < q := by simp only [hq]; linarith
  have hes : el.eccentricitySquared = 1 - q ^ 2 := by simp [Ellipsoid.eccentricitySquared, two, hq]; ring
  have hb : el.semiminorAxis = el.a * q := by simp [Ellipsoid.semiminorAxis, one, hq]
  have hcos : Real.cos phi = 0 := by
    simp only [phi]; cases north <;> simp [Real.cos_neg]
  have hsin2 : Real.sin phi ^ 2 = 1 := by
    simp only [phi]; cases north <;> simp [Real.sin_neg]
  have hfne : el.f ≠ 0 := ne_of_gt hf0
  have hN : el.primeVerticalRadiusOfCurvature phi = el.a / q := by
    simp only [Ellipsoid.primeVerticalRadiusOfCurvature, scalar_beq, Scalar.sq, one, scalar_sin, scalar_sqrt]
    have z : (@OfNat.ofNat ℝ 0 Scalar.instOfNat) = 0 := by
      show (Scalar.ofNatLit 0 : ℝ) = 0
      simp
    rw [z]
    have : 1 - Real.sin phi * Real.sin phi * el.eccentricitySquared = q ^ 2 := by
      rw [← sq, hsin2, hes]; ring
    simp [hfne, this, Real.sqrt_sq hq0.le]
  have hcart : el.cartesian ⟨lam, phi, 0, t⟩ = ⟨0, 0, el.a * q * Real.sin phi, t⟩ := by
    simp only [Ellipsoid.cartesian, hN, one, scalar_sin, scalar_cos, add_zero, hes, hcos]
    congr 1
    · ring
    · ring
    · field_simp; ring
  rw [hcart]
  have hp : Scalar.lt (Scalar.hypot (0 : ℝ) 0) (@OfScientific.ofScientific ℝ Scalar.instOfScientific 10 true 13) = true := by
    rw [scalar_lt, scalar_hypot]
    have : (0 : ℝ) < tinyLit := by rw [tinyLit_eq]; positivity
    simpa [tinyLit] using this
  simp only [Ellipsoid.geographic, hp, if_true, scalar_atan2, scalar_abs, hb]
  have harg : Complex.arg (⟨0, 0⟩ : ℂ) = 0 := by
    have : (⟨0, 0⟩ : ℂ) = 0 := rfl
    rw [this, Complex.arg_zero]
  rw [harg]
  have hpi : (Ellipsoid.fracPi2 : ℝ) = Real.pi / 2 := by simp [Ellipsoid.fracPi2, two]
  cases north
  · have hs : Real.sin phi = -1 := by simp [phi, Real.sin_neg]
    have hneg : ¬ (0 : ℝ) ≤ el.a * q * -1 := by nlinarith [mul_pos ha hq0]
    simp only [hs, Scalar.copysign, hpi]
    show (⟨0, (if 0 ≤ el.a * q * -1 then |Real.pi / 2| else -|Real.pi / 2|), |el.a * q * -1| - el.a * q, t⟩ : Coor ℝ) = _
    rw [if_neg hneg, abs_of_pos (by positivity : (0 : ℝ) < Real.pi / 2)]
    have : |el.a * q * -1| = el.a * q := by rw [mul_neg_one, abs_neg, abs_of_pos (mul_pos ha hq0)]
    rw [this]; simp [phi]
  · have hs : Real.sin phi = 1 := by simp [phi]
    have hpos : (0 : ℝ) ≤ el.a * q * 1 := by nlinarith [mul_pos ha hq0]
    simp only [hs, Scalar.copysign, hpi]
    show (⟨0, (if 0 ≤ el.a * q * 1 then |Real.pi / 2| else -|Real.pi / 2|), |el.a * q * 1| - el.a * q, t⟩ : Coor ℝ) = _
    rw [if_pos hpos, abs_of_pos (by positivity : (0 : ℝ) < Real.pi / 2)]
    have : |el.a * q * 1| = el.a * q := by rw [mul_one, abs_of_pos (mul_pos ha hq0)]
    rw [this]; simp [phi]

/-! ### the `cart` operator (Fukushima's one-step inverse) is exact on the surface too -/

/-- the algebra of Fukushima's / Claessens' one-step inverse on the surface: with `q = 1 - f`,
`W² = cos²φ + q² sin²φ`, `pp = a cosφ / W`, `Z = a q² sinφ / W` the Halley correction vanishes and
`S1 = K sinφ`, `ar · C1 = K cosφ` -/
theorem fukushima_surface (a q s c W pp Z ra ar es : ℝ) (ha : 0 < a) (hq : 0 < q) (hc : 0 < c) (hW : 0 < W)
    (hcs : s ^ 2 + c ^ 2 = 1) (hW2 : W ^ 2 = c ^ 2 + q ^ 2 * s ^ 2)
    (hpp : pp = a * c / W) (hZ : Z = a * q ^ 2 * s / W) (hra : ra = 1 / a) (har : q = ar) (hes : es = 1 - q ^ 2) (ce4 : ℝ) :
    let P := ra * pp
    let S0 := ra * Z
    let C0 := ar * P
    let A := Real.sqrt (S0 * S0 + C0 * C0)
    let F := P * A * A * A - es * C0 * C0 * C0
    let B := ce4 * S0 * S0 * C0 * C0 * P * (A - ar)
    let S1 := (ar * S0 * A * A * A + es * S0 * S0 * S0) * F - B * S0
    let C1 := F * F - B * C0
    let K := q ^ 11 * c / W ^ 6
    S1 = K * s ∧ ar * C1 = K * c ∧ 0 < K := by
  intro P S0 C0 A F B S1 C1 K
  subst hpp hZ hra har hes
  have hWne : W ≠ 0 := hW.ne'
  have hane : a ≠ 0 := ha.ne'
  have hP : P = c / W := by simp only [P]; field_simp
  have hS0 : S0 = q ^ 2 * s / W := by simp only [S0]; field_simp
  have hC0 : C0 = q * c / W := by simp only [C0, hP]; ring
  have hA : A = q := by
    simp only [A]
    rw [Real.sqrt_eq_iff_mul_self_eq (add_nonneg (mul_self_nonneg _) (mul_self_nonneg _)) hq.le, hS0, hC0]
    field_simp
    linear_combination (-1 : ℝ) * hW2
  have hB : B = 0 := by simp only [B, hA]; ring
  have hF : F = q ^ 5 * c / W ^ 3 := by
    simp only [F, hA, hP, hC0]
    field_simp
    linear_combination hW2 + q ^ 2 * hcs
  refine ⟨?_, ?_, by positivity⟩
  · simp only [S1, hB, hA, hS0, hF, K]
    field_simp
    linear_combination (s * q ^ 9 * c) * hW2 + (s * q ^ 9 * c) * hcs
  · simp only [C1, hB, hF, K]
    field_simp
    ring

/-- the height of a point of the surface, as the one-step methods compute it, is zero -/
theorem surface_height (a q s c W K pp Zv ar : ℝ) (hK : 0 < K) (ha : 0 < a) (hq : 0 < q) (hc : 0 < c) (hW : 0 < W)
    (hcs : s ^ 2 + c ^ 2 = 1) (hW2 : W ^ 2 = c ^ 2 + q ^ 2 * s ^ 2)
    (hpp : pp = a * c / W) (hZ : Zv = a * q ^ 2 * s / W) (har : q = ar) :
    (pp * |K * c| + |Zv| * |K * s| - a * Real.sqrt (K * c * (K * c) + ar * (K * s) * (ar * (K * s)))) /
      Real.sqrt (K * c * (K * c) + K * s * (K * s)) = 0 := by
  subst har hpp hZ
  have hden : Real.sqrt (K * c * (K * c) + K * s * (K * s)) = K := by
    have : K * c * (K * c) + K * s * (K * s) = K ^ 2 * (s ^ 2 + c ^ 2) := by ring
    rw [this, hcs, mul_one, Real.sqrt_sq hK.le]
  have hnum : Real.sqrt (K * c * (K * c) + q * (K * s) * (q * (K * s))) = K * W := by
    have : K * c * (K * c) + q * (K * s) * (q * (K * s)) = (K * W) ^ 2 := by
      have e : (K * W) ^ 2 = K ^ 2 * W ^ 2 := by ring
      rw [e, hW2]; ring
    rw [this, Real.sqrt_sq (by positivity)]
  have habs1 : |K * c| = K * c := abs_of_pos (by positivity)
  have habs2 : |a * q ^ 2 * s / W| * |K * s| = a * q ^ 2 * s ^ 2 * K / W := by
    rw [← abs_mul]
    have : a * q ^ 2 * s / W * (K * s) = a * q ^ 2 * s ^ 2 * K / W := by ring
    rw [this, abs_of_nonneg (by positivity)]
  rw [hden, hnum, habs1, habs2]
  have hKne : K ≠ 0 := hK.ne'
  have hWne : W ≠ 0 := hW.ne'
  field_simp
  linear_combination (-a) * hW2

/-- the distance from the axis (as a fraction of `a`) below which `cart inv` answers "pole" -/
noncomputable def cutoffLit : ℝ := @OfScientific.ofScientific ℝ Scalar.instOfScientific 1 true 16

/-- **the `cart` operator: inverse after forward is the identity at height zero** (Fukushima's one-step method
is exact on the surface of the ellipsoid): for every ellipsoid with `0 < f < 1`, every longitude in ]−π, π], every
latitude strictly between the poles, not closer to the axis than the cut-off -/
theorem cart_roundtrip_on_surface (p : Parsed ℝ) (ha : 0 < (p.ellps 0).a) (hf0 : 0 < (p.ellps 0).f) (hf1 : (p.ellps 0).f < 1)
    (lam phi t : ℝ) (hl1 : -Real.pi < lam) (hl2 : lam ≤ Real.pi)
    (hp1 : -(Real.pi / 2) < phi) (hp2 : phi < Real.pi / 2)
    (hfar : (p.ellps 0).a * cutoffLit ≤
      (p.ellps 0).a * Real.cos phi / Real.sqrt (1 - Real.sin phi ^ 2 * (p.ellps 0).eccentricitySquared)) :
    Cart.inv p (Cart.fwd p ⟨lam, phi, 0, t⟩) = ⟨lam, phi, 0, t⟩ := by
  set el := p.ellps 0 with hel
  set q := 1 - el.f with hq
  set s := Real.sin phi with hs
  set c := Real.cos phi with hc
  have hq0 : 0 < q := by simp only [hq]; linarith
  have hc0 : 0 < c := Real.cos_pos_of_mem_Ioo ⟨hp1, hp2⟩
  have hcs : s ^ 2 + c ^ 2 = 1 := Real.sin_sq_add_cos_sq phi
  have hes : el.eccentricitySquared = 1 - q ^ 2 := by simp [Ellipsoid.eccentricitySquared, two, hq]; ring
  have hw : 0 < 1 - s ^ 2 * el.eccentricitySquared := by
    rw [hes]; nlinarith [sq_nonneg s, sq_nonneg c, sq_nonneg (q * s), mul_pos hq0 hq0]
  set W := Real.sqrt (1 - s ^ 2 * el.eccentricitySquared) with hWdef
  have hW0 : 0 < W := Real.sqrt_pos.mpr hw
  have hW2 : W ^ 2 = c ^ 2 + q ^ 2 * s ^ 2 := by
    rw [hWdef, Real.sq_sqrt hw.le, hes]; nlinarith
  have hfne : el.f ≠ 0 := ne_of_gt hf0
  have hN : el.primeVerticalRadiusOfCurvature phi = el.a / W := by
    simp only [Ellipsoid.primeVerticalRadiusOfCurvature, scalar_beq, Scalar.sq, one, scalar_sin, scalar_sqrt]
    have z : (@OfNat.ofNat ℝ 0 Scalar.instOfNat) = 0 := by
      show (Scalar.ofNatLit 0 : ℝ) = 0
      simp
    rw [z]
    simp [hfne, hWdef, hs, sq]
  have hb : el.semiminorAxis = el.a * q := by simp [Ellipsoid.semiminorAxis, one, hq]
  set pp := el.a * c / W with hppdef
  set Zv := el.a * q ^ 2 * s / W with hZdef
  have hpp0 : 0 < pp := by positivity
  have hcart : Cart.fwd p ⟨lam, phi, 0, t⟩ = ⟨pp * Real.cos lam, pp * Real.sin lam, Zv, t⟩ := by
    simp only [Cart.fwd, ← hel, Ellipsoid.cartesian, hN, one, scalar_sin, scalar_cos, add_zero, hes]
    congr 1
    · simp only [hppdef]; ring
    · simp only [hppdef]; ring
    · simp only [hZdef]; field_simp; ring
  rw [hcart]
  have hhyp : Scalar.hypot (pp * Real.cos lam) (pp * Real.sin lam) = pp := by
    rw [scalar_hypot]
    have : pp * Real.cos lam * (pp * Real.cos lam) + pp * Real.sin lam * (pp * Real.sin lam) = pp ^ 2 := by
      have := Real.cos_sq_add_sin_sq lam; nlinarith
    rw [this, Real.sqrt_sq hpp0.le]
  have hlam : Scalar.atan2 (pp * Real.sin lam) (pp * Real.cos lam) = lam := by
    rw [scalar_atan2]; exact arg_polar pp lam hpp0 hl1 hl2
  have hane : el.a ≠ 0 := ha.ne'
  have har : q = el.semiminorAxis * (1 / el.a) := by rw [hb]; field_simp
  have hbranch : Scalar.lt pp (el.a * @OfScientific.ofScientific ℝ Scalar.instOfScientific 1 true 16) = false := by
    rw [scalar_lt]
    have : ¬ pp < el.a * cutoffLit := not_lt.mpr hfar
    simpa [cutoffLit] using this
  obtain ⟨hS1, hCC, hK⟩ := fukushima_surface el.a q s c W pp Zv (1 / el.a) (el.semiminorAxis * (1 / el.a)) el.eccentricitySquared
    ha hq0 hc0 hW0 hcs hW2 rfl rfl rfl har hes
    (@OfScientific.ofScientific ℝ Scalar.instOfScientific 15 true 1 * el.eccentricitySquared * el.eccentricitySquared)
  simp only [Cart.inv, ← hel, hhyp, hlam, hbranch, Bool.false_eq_true, if_false, one, scalar_hypot, scalar_abs]

  rw [hS1, hCC]
  set K := q ^ 11 * c / W ^ 6 with hKdef
  have hphi : Scalar.atan2 (K * s) (K * c) = phi := by
    rw [scalar_atan2]
    exact arg_polar K phi hK (by linarith [Real.pi_pos]) (by linarith [Real.pi_pos])
  rw [hphi, surface_height el.a q s c W K pp Zv (el.semiminorAxis * (1 / el.a)) hK ha hq0 hc0 hW0 hcs hW2 rfl rfl har]

/-! ### the built-in table -/

/-- **every name in the built-in ellipsoid table carries a semi-major axis and a reciprocal
flattening that are numbers** (so `Ellipsoid::named` cannot fail on any of them), and the names
are distinct -/
theorem table_instantiable :
    Gen.ellipsoidList.all (fun e => (Lit.parseF64 e.2.1.toList).isSome && (Lit.parseF64 e.2.2.2.toList).isSome) = true ∧
    (Gen.ellipsoidList.map (·.1)).Nodup := by
  constructor
  · decide +kernel
  · decide +kernel

end C06
end Geodesy
