/-
C12 — the stack sub-language behaves as the documented abstract stack machine.

Model side: `Geodesy/Model/Stack.lean` (the column machine of `stack.rs`, mirrored from the
code), `Geodesy/Model/Op.lean` (`runFwd` / `runInv`, the pipeline loops).
Spec side: `Geodesy/Spec/StackMachine.lean` (per-tuple abstract machine, TOS = head).

All theorems hold for every element type `α` (the machine only moves values; the only value it
creates is `nan`), every column height, every operand count and every program.
-/
import Geodesy.Lemmas.Stack
import Geodesy.Model.Op

namespace Geodesy
namespace C12
open Stack Spec StackLemmas
variable {α : Type}

/-- the state of operand `i`: its private stack (TOS first) and the tuple itself -/
def view (nan : α) (i : Nat) (cols : Cols α) (c : Coor α) : TState α := ⟨tstk nan i cols, c⟩

/-- **One instruction.**  Whatever the instruction, the column height and the operand count:
seen from operand `i`, `stack_fwd` does exactly what the abstract machine does to that tuple
and its stack (guard failure included: the stack is kept, the tuple becomes all-NaN), and the
representation invariant (one value per operand in every column) is preserved. -/
theorem stack_refines_abstract (nan : α) (a : Action) (cols : Cols α) (ops : Data α) (i : Nat) (c : Coor α)
    (hok : ColsOk ops.length cols) (hc : ops[i]? = some c) :
    view nan i (fwd nan cols ops a).1 ((trun nan (view nan i cols c) a).x) = trun nan (view nan i cols c) a ∧
    (fwd nan cols ops a).2.1[i]? = some (trun nan (view nan i cols c) a).x ∧
    ColsOk ops.length (fwd nan cols ops a).1 ∧ (fwd nan cols ops a).2.1.length = ops.length := by
  cases a with
  | push args =>
    have h := push_refines nan cols ops args i c hok hc
    simp only [fwd, trun, tstep, view]
    exact ⟨by rw [h.1], h.2.1, h.2.2.1, h.2.2.2⟩
  | pop args =>
    by_cases hd : cols.length < args.length
    · simp [fwd, pop, trun, tstep, view, hd, stomped, stomp, hok]
      exact ⟨c, hc⟩
    · have h := pop_refines nan cols ops args i c hok hc (by omega)
      simp only [fwd, trun, tstep, view, tstk_length, hd, if_false]
      exact ⟨by rw [h.1], h.2.1, h.2.2.1, h.2.2.2.1⟩
  | flip args =>
    by_cases hd : cols.length < args.length
    · simp [fwd, Stack.flip, trun, tstep, view, hd, stomped, stomp, hok]
      exact ⟨c, hc⟩
    · have h := flip_refines nan cols ops args i c hok hc (by omega)
      simp only [fwd, trun, tstep, view, tstk_length, hd, if_false]
      exact ⟨by rw [h.1], h.2.1, h.2.2.1, h.2.2.2.1⟩
  | roll m n =>
    by_cases hd : m.natAbs > cols.length
    · simp [fwd, roll, trun, tstep, view, hd, stomped, stomp, hok]
      exact ⟨c, hc⟩
    · have h := rollRepeat_refines nan i m.natAbs (rollCount m n) cols (by omega)
      simp only [fwd, roll, trun, tstep, view, tstk_length, hd, if_false]
      exact ⟨by rw [← h.1]; rfl, hc, rollRepeat_colsOk _ _ _ _ hok, trivial⟩
  | unroll m n =>
    by_cases hd : m.natAbs > cols.length
    · simp [fwd, roll, trun, tstep, view, hd, stomped, stomp, hok]
      exact ⟨c, hc⟩
    · have h := rollRepeat_refines nan i m.natAbs (rollCount m (m - n)) cols (by omega)
      simp only [fwd, roll, trun, tstep, view, tstk_length, hd, if_false]
      exact ⟨by rw [← h.1]; rfl, hc, rollRepeat_colsOk _ _ _ _ hok, trivial⟩
  | swap =>
    have h := swap_refines nan cols ops i c hok hc
    simp only [fwd, trun, view]
    rw [← h.1]
    exact ⟨rfl, h.2.1, h.2.2.1, h.2.2.2⟩
  | drop =>
    simp only [fwd, trun, tstep, view]
    exact ⟨trivial, hc, hok, trivial⟩

/-- running a list of instructions on the column machine -/
def runCols (nan : α) : List Action → Cols α × Data α → Cols α × Data α
  | [], s => s
  | a :: rest, s => let r := fwd nan s.1 s.2 a; runCols nan rest (r.1, r.2.1)

/-- running it on one tuple of the abstract machine -/
def runTuple (nan : α) : List Action → TState α → TState α
  | [], s => s
  | a :: rest, s => runTuple nan rest (trun nan s a)

/-- **Every program.**  For every program, from every well-formed stack, the column machine's
result for operand `i` is the abstract machine's result for that tuple and its private stack. -/
theorem program_refines_abstract (nan : α) (prog : List Action) (cols : Cols α) (ops : Data α) (i : Nat)
    (c : Coor α) (hok : ColsOk ops.length cols) (hc : ops[i]? = some c) :
    let r := runCols nan prog (cols, ops)
    let t := runTuple nan prog (view nan i cols c)
    tstk nan i r.1 = t.stk ∧ r.2[i]? = some t.x ∧ ColsOk ops.length r.1 ∧ r.2.length = ops.length := by
  induction prog generalizing cols ops c with
  | nil => exact ⟨rfl, hc, hok, rfl⟩
  | cons a rest ih =>
    have h := stack_refines_abstract nan a cols ops i c hok hc
    have hlen := h.2.2.2
    have hok' : ColsOk (fwd nan cols ops a).2.1.length (fwd nan cols ops a).1 := by rw [hlen]; exact h.2.2.1
    have := ih (fwd nan cols ops a).1 (fwd nan cols ops a).2.1 (trun nan (view nan i cols c) a).x hok' h.2.1
    simp only [runCols, runTuple]
    rw [hlen] at this
    have hv : view nan i (fwd nan cols ops a).1 (trun nan (view nan i cols c) a).x = trun nan (view nan i cols c) a := h.1
    rw [hv] at this
    exact this

/-- a pipeline starts from the empty stack, which is well-formed for any operand count -/
theorem empty_stack_ok (n : Nat) : ColsOk n ([] : Cols α) := by intro c hc; cases hc

/-- **Inverse direction.**  `stack_inv` is `stack_fwd` of the dual instruction: push ↔ pop with
the argument list reversed, roll ↔ unroll, swap and flip unchanged. -/
theorem inverse_dispatch (nan : α) (cols : Cols α) (ops : Data α) (a : Action) :
    Stack.inv nan cols ops a = Stack.fwd nan cols ops (dual a) := by
  cases a <;> rfl

theorem dual_involutive (a : Action) : dual (dual a) = a := by
  cases a <;> simp [dual]

/-- **Underflow.**  A pop, flip, roll or unroll needing more stack than there is sets every
element of every operand to NaN, reports zero, and leaves the stack alone. -/
theorem underflow_nan_zero (nan : α) (cols : Cols α) (ops : Data α) :
    (∀ args : List (Fin 4), cols.length < args.length →
      fwd nan cols ops (.pop args) = (cols, ops.map (fun _ => Coor.splat nan), 0) ∧
      fwd nan cols ops (.flip args) = (cols, ops.map (fun _ => Coor.splat nan), 0)) ∧
    (∀ m n : Int, m.natAbs > cols.length →
      fwd nan cols ops (.roll m n) = (cols, ops.map (fun _ => Coor.splat nan), 0) ∧
      fwd nan cols ops (.unroll m n) = (cols, ops.map (fun _ => Coor.splat nan), 0)) := by
  constructor
  · intro args h
    simp [fwd, pop, Stack.flip, h, stomp]
  · intro m n h
    simp [fwd, roll, h, stomp]

/-- the counts: success reports the number of operands (push, and pop/flip/roll/unroll when the
guard holds) -/
theorem success_count (nan : α) (cols : Cols α) (ops : Data α) :
    (∀ args, (fwd nan cols ops (.push args)).2.2 = ops.length) ∧
    (∀ args, args.length ≤ cols.length → (fwd nan cols ops (.pop args)).2.2 = ops.length ∧
        (fwd nan cols ops (.flip args)).2.2 = ops.length) ∧
    (∀ m n : Int, m.natAbs ≤ cols.length → (fwd nan cols ops (.roll m n)).2.2 = ops.length ∧
        (fwd nan cols ops (.unroll m n)).2.2 = ops.length) := by
  refine ⟨fun _ => rfl, ?_, ?_⟩
  · intro args h
    have : ¬ cols.length < args.length := by omega
    simp [fwd, pop, Stack.flip, this]
  · intro m n h
    have : ¬ m.natAbs > cols.length := by omega
    simp [fwd, roll, this]

/-- **The stack is local to one application**: applying a pipeline is a function of its steps
and the data alone, and its loop starts from the empty stack. -/
theorem stack_local (sem : LeafSem α) (nan : α) (actionOf : ActionOf α) (node : Node α) (steps : List (Op α))
    (dir : Dir) (data : List (Coor α)) (h : node.tag = pipelineTag) (hinv : node.inverted = false) :
    apply sem nan actionOf (.mk node steps) dir data =
      (match dir with
       | .fwd =>
         let s := runFwd sem nan actionOf steps ⟨[], data, none⟩
         (s.data, match s.n with | none => data.length | some k => k)
       | .inv =>
         let s := runInv sem nan actionOf steps ⟨[], data, none⟩
         (s.data, match s.n with | none => data.length | some k => k)) := by
  cases dir <;> simp [apply, h, hinv] <;> rfl

/-! ### the documentation's own tables (Rumination 002), stack written bottom → top there -/

section doc
-- `tstk`-orientation: TOS first, so the documentation's "1,2,3,4" is `[4,3,2,1]`
private def st (l : List Nat) : TState Nat := ⟨l.reverse, ⟨0, 0, 0, 0⟩⟩
private def after (l : List Nat) (a : Action) : Option (List Nat) := (tstep (st l) a).map (·.stk.reverse)

example : after [1, 2, 3, 4] (.roll 3 (-2)) = some [1, 4, 2, 3] := by decide
example : after [1, 2, 3, 4] (.roll 3 1) = some [1, 4, 2, 3] := by decide
example : after [1, 2, 3, 4] (.roll 3 2) = some [1, 3, 4, 2] := by decide
example : after [1, 3, 4, 2] (.roll 3 1) = some [1, 2, 3, 4] := by decide
example : after [1, 2, 3, 4] (.unroll 3 2) = some [1, 4, 2, 3] := by decide
example : after [1, 2, 3, 4] (.unroll 3 (-2)) = some [1, 3, 4, 2] := by decide
example : after [1, 3, 4, 2] (.unroll 3 2) = some [1, 2, 3, 4] := by decide
-- flip=1,2 on stack 1,2,3,4 and operand 5,6,7,8
example : (tstep (⟨[4, 3, 2, 1], ⟨5, 6, 7, 8⟩⟩ : TState Nat) (.flip [0, 1])).map (fun s => (s.stk.reverse, s.x)) =
    some ([1, 2, 6, 5], ⟨4, 3, 7, 8⟩) := by decide
-- `stack push=1,2 | stack pop=1,2` swaps the first two elements
example : (runTuple 0 [.push [0, 1], .pop [0, 1]] (⟨[], ⟨11, 12, 13, 14⟩⟩ : TState Nat)).x = ⟨12, 11, 13, 14⟩ := by
  decide
-- the same on the column machine, two operands
example : (runCols 0 [.push [0, 1], .pop [0, 1]] ([], [⟨11, 12, 13, 14⟩, ⟨21, 22, 23, 24⟩])).2 =
    [(⟨12, 11, 13, 14⟩ : Coor Nat), ⟨22, 21, 23, 24⟩] := by decide
-- non-vacuity of `program_refines_abstract`: a non-empty well-formed stack and operand
example : ColsOk 2 ([[1, 2], [3, 4]] : Cols Nat) ∧ ([⟨1, 2, 3, 4⟩, ⟨5, 6, 7, 8⟩] : Data Nat)[1]? = some ⟨5, 6, 7, 8⟩ := by
  constructor
  · intro c hc; simp at hc; rcases hc with rfl | rfl <;> rfl
  · rfl
end doc

end C12
end Geodesy
