/-
C20 — kp prints what the library computes.

Model side: `Geodesy/Model/Cli/Kp.lean` (`main` as a function from the options and the input
files to the output lines and the exit status; the library call and the number formatter are
parameters).  The batch size comes from the source (`Gen.kpBatch`).

The theorems are about the reading / batching / printing logic.  `Batchable tr` says that what
`transform` prints for a batch is the concatenation of what it prints for its parts — which is
the case when the operator acts tuple by tuple (C02) and the number of decimals and the output
dimension are *requested* (`-d`, `-D`); without them kp looks at the first tuple of each batch
and at the columns seen so far, and the statement of the property does not cover those runs.
-/
import Geodesy.Model.Cli.Kp
import Geodesy.Gen.Tables

namespace Geodesy
namespace C20
open Text Kp
variable {R : Type} [Scalar R]

/-- what `transform` prints does not depend on how the tuples are grouped, nor on the running
column count -/
structure Batchable (tr : Transform R) : Prop where
  nil : ∀ d, tr d [] = some []
  total : ∀ d xs, ∃ l, tr d xs = some l
  dims : ∀ d d' xs, tr d xs = tr d' xs
  append : ∀ d xs ys lx ly, tr d xs = some lx → tr d ys = some ly → tr d (xs ++ ys) = some (lx ++ ly)

/-- the tuples of a list of lines, in order -/
def tuplesOf (opts : Opts R) (lines : List Str) : List (Coor R) :=
  lines.filterMap fun l => (parseLine opts l).map (·.1)

/-- loop invariant: nothing failed, and printed ++ pending is the print-out of everything read -/
def Inv (tr : Transform R) (all : List (Coor R)) (st : St R) : Prop :=
  st.failed = false ∧ ∃ lp, tr 0 st.operands = some lp ∧ tr 0 all = some (st.out ++ lp)

theorem feedLine_inv (opts : Opts R) (batch : Nat) (tr : Transform R) (hb : Batchable tr)
    (all : List (Coor R)) (st : St R) (line : Str) (h : Inv tr all st) :
    Inv tr (all ++ (tuplesOf opts [line])) (feedLine opts batch tr st line) := by
  obtain ⟨hf, lp, hlp, hall⟩ := h
  unfold feedLine
  simp only [hf, Bool.false_eq_true, if_false]
  cases hp : parseLine opts line with
  | none => exact ⟨hf, lp, hlp, by simpa [tuplesOf, hp] using hall⟩
  | some cn =>
    obtain ⟨c, n⟩ := cn
    have htup : tuplesOf opts [line] = [c] := by simp [tuplesOf, hp]
    obtain ⟨lc, hlc⟩ := hb.total 0 [c]
    have hpend : tr 0 (st.operands ++ [c]) = some (lp ++ lc) := hb.append 0 _ _ _ _ hlp hlc
    have hall' : tr 0 (all ++ [c]) = some (st.out ++ lp ++ lc) := by
      have := hb.append 0 all [c] _ _ hall hlc
      simpa [List.append_assoc] using this
    simp only
    split
    · -- a full batch is printed
      rw [hb.dims _ 0, hpend]
      refine ⟨rfl, [], hb.nil 0, ?_⟩
      rw [htup]
      simpa [List.append_assoc] using hall'
    · refine ⟨by simpa using hf, lp ++ lc, hpend, ?_⟩
      rw [htup]
      simpa [List.append_assoc] using hall'

theorem feedLines_inv (opts : Opts R) (batch : Nat) (tr : Transform R) (hb : Batchable tr)
    (lines : List Str) (all : List (Coor R)) (st : St R) (h : Inv tr all st) :
    Inv tr (all ++ tuplesOf opts lines) (lines.foldl (feedLine opts batch tr) st) := by
  induction lines generalizing all st with
  | nil => simpa [tuplesOf] using h
  | cons l rest ih =>
    have h1 := feedLine_inv opts batch tr hb all st l h
    have := ih _ _ h1
    have e : tuplesOf opts (l :: rest) = tuplesOf opts [l] ++ tuplesOf opts rest := by
      simp only [tuplesOf]
      rw [← List.filterMap_append]
      rfl
    rw [e, ← List.append_assoc]
    exact this

/-- all tuples of all (readable) files, in input order -/
def allTuples (opts : Opts R) (files : List (List Str)) : List (Coor R) :=
  files.flatMap (tuplesOf opts)

theorem feedFiles_inv (opts : Opts R) (batch : Nat) (tr : Transform R) (hb : Batchable tr)
    (files : List (List Str)) (all : List (Coor R)) (st : St R) (h : Inv tr all st) :
    Inv tr (all ++ allTuples opts files) ((files.map some).foldl (feedFile opts batch tr) st) := by
  induction files generalizing all st with
  | nil => simpa [allTuples] using h
  | cons f rest ih =>
    have h1 : Inv tr (all ++ tuplesOf opts f) (feedFile opts batch tr st (some f)) := by
      unfold feedFile
      simp only [h.1, Bool.false_eq_true, if_false]
      exact feedLines_inv opts batch tr hb f all st h
    have := ih _ _ h1
    simpa [allTuples, List.flatMap_cons, List.append_assoc] using this

/-- **Results do not depend on how the input is spread over files or internal batches**, and
kp writes exactly one output line per coordinate line, in input order: for every batch size
and every split of the input over readable files, the output is the print-out of all tuples
taken as one set, and the run ends normally — in particular for empty input. -/
theorem kp_batch_independent (opts : Opts R) (batch : Nat) (tr : Transform R) (hb : Batchable tr)
    (files : List (List Str)) :
    ∃ out, tr 0 (allTuples opts files) = some out ∧ run opts batch tr (files.map some) = (out, true) := by
  have hinit : Inv tr [] ({} : St R) := ⟨rfl, [], hb.nil 0, by simpa using hb.nil 0⟩
  have h := feedFiles_inv opts batch tr hb files [] {} hinit
  obtain ⟨hf, lp, hlp, hall⟩ := h
  refine ⟨_, by simpa using hall, ?_⟩
  simp only [run, hf, Bool.false_eq_true, if_false]
  rw [hb.dims _ 0, hlp]

/-- the same set of lines split differently over files gives the same output -/
theorem kp_file_split_independent (opts : Opts R) (b1 b2 : Nat) (tr : Transform R) (hb : Batchable tr)
    (f1 f2 : List (List Str)) (h : f1.flatten = f2.flatten) :
    run opts b1 tr (f1.map some) = run opts b2 tr (f2.map some) := by
  obtain ⟨o1, h1, r1⟩ := kp_batch_independent opts b1 tr hb f1
  obtain ⟨o2, h2, r2⟩ := kp_batch_independent opts b2 tr hb f2
  have hall : allTuples opts f1 = allTuples opts f2 := by
    have e : ∀ f : List (List Str), allTuples opts f = tuplesOf opts f.flatten := by
      intro f
      induction f with
      | nil => rfl
      | cons a t ih => simp [allTuples, tuplesOf, List.flatMap_cons, List.filterMap_append] at ih ⊢; rw [← ih]
    rw [e, e, h]
  rw [r1, r2]
  rw [hall] at h1
  rw [h1] at h2
  injection h2 with h2
  rw [h2]

/-- **Empty input ends normally** and prints nothing -/
theorem kp_empty_input_ok (opts : Opts R) (batch : Nat) (tr : Transform R) (hb : Batchable tr) :
    run opts batch tr [] = ([], true) ∧ run opts batch tr [some []] = ([], true) := by
  constructor
  · simp [run, hb.dims _ 0, hb.nil 0]
  · simp [run, feedFile, hb.dims _ 0, hb.nil 0]

/-- **An unreadable file ends the run with a failure status** -/
theorem kp_unreadable_file_fails (opts : Opts R) (batch : Nat) (tr : Transform R) (before after : List (Option (List Str))) :
    (run opts batch tr (before ++ none :: after)).2 = false := by
  have hstick : ∀ (fs : List (Option (List Str))) (st : St R), st.failed = true →
      (fs.foldl (feedFile opts batch tr) st).failed = true := by
    intro fs
    induction fs with
    | nil => intro st h; exact h
    | cons f t ih => intro st h; exact ih _ (by simp [feedFile, h])
  have : ((before ++ none :: after).foldl (feedFile opts batch tr) {}).failed = true := by
    rw [List.foldl_append, List.foldl_cons]
    apply hstick
    unfold feedFile
    split <;> simp_all
  unfold run
  simp only [this, if_true]

/-- **Blank lines and comments are skipped**; a comment ends a line -/
theorem kp_skips_blank_and_comment (opts : Opts R) (line : Str)
    (h : (splitWs (trim line)).takeWhile (fun a => !(startsWith (S "#") a)) = []) :
    parseLine opts line = none := by
  simp [parseLine, h]

example : (splitWs (trim (S "   \t "))).takeWhile (fun a => !(startsWith (S "#") a)) = [] := by decide
example : (splitWs (trim (S " # 1 2 3"))).takeWhile (fun a => !(startsWith (S "#") a)) = [] := by decide
example : (splitWs (trim (S "#comment"))).takeWhile (fun a => !(startsWith (S "#") a)) = [] := by decide
example : (splitWs (trim (S "1 2 # 3"))).takeWhile (fun a => !(startsWith (S "#") a)) = [S "1", S "2"] := by decide

/-- a tuple-by-tuple library call with requested decimals and dimension makes `transform`
batchable: this is where C02 enters -/
theorem transform_batchable (opts : Opts R) (f : Coor R → Coor R) (fmt : Nat → R → String)
    (dec dim : Nat) (hd : opts.decimals = some dec) (hD : opts.dimension = some dim) (hr : opts.roundtrip = false) :
    Batchable (transform opts (fun _ data => (data.map f, data.length)) fmt) := by
  have key : ∀ d xs, transform opts (fun _ data => (data.map f, data.length)) fmt d xs =
      some (xs.map fun x =>
        let c := f x
        let cols : List R :=
          if dim == 1 then [c.c0] else if dim == 2 then [c.c0, c.c1]
          else if dim == 3 then [c.c0, c.c1, c.c2] else [c.c0, c.c1, c.c2, c.c3]
        String.join (cols.map fun v => fmt dec v ++ " ")) := by
    intro d xs
    cases xs with
    | nil => simp [transform]
    | cons x rest => simp [transform, hd, hD, hr, List.map_map]
  refine ⟨fun d => by rw [key]; rfl, fun d xs => ⟨_, key d xs⟩, fun d d' xs => by rw [key, key], ?_⟩
  intro d xs ys lx ly hx hy
  rw [key] at hx hy ⊢
  injection hx with hx
  injection hy with hy
  rw [← hx, ← hy, List.map_append]


/-- the same with `--roundtrip`: when the library works tuple by tuple in both directions (and counts every
tuple), the residual printed for a line is that of the line's own tuple, however the input is spread over
batches — the residuals are taken over all tuples of the batch, not over the first `n` of them -/
theorem transform_batchable_roundtrip (opts : Opts R) (h : Dir → Coor R → Coor R) (fmt : Nat → R → String)
    (dec dim : Nat) (hd : opts.decimals = some dec) (hD : opts.dimension = some dim) (hr : opts.roundtrip = true) :
    Batchable (transform opts (fun dir data => (data.map (h dir), data.length)) fmt) := by
  have key : ∀ d xs, transform opts (fun dir data => (data.map (h dir), data.length)) fmt d xs =
      some (xs.map fun x =>
        let dir : Dir := if opts.inverse then .inv else .fwd
        let y := h dir.flip (h dir x)
        let c : Coor R := ⟨y.c0 - x.c0, y.c1 - x.c1, y.c2 - x.c2, y.c3 - x.c3⟩
        let cols : List R :=
          if dim == 1 then [c.c0] else if dim == 2 then [c.c0, c.c1]
          else if dim == 3 then [c.c0, c.c1, c.c2] else [c.c0, c.c1, c.c2, c.c3]
        String.join (cols.map fun v => fmt dec v ++ " ")) := by
    intro d xs
    cases xs with
    | nil => simp [transform]
    | cons x rest =>
      have hz : ∀ (l : List (Coor R)) (g : Coor R → Coor R),
          List.zipWith (fun (a b : Coor R) => (⟨a.c0 - b.c0, a.c1 - b.c1, a.c2 - b.c2, a.c3 - b.c3⟩ : Coor R)) (l.map g) l =
            l.map fun b => (⟨(g b).c0 - b.c0, (g b).c1 - b.c1, (g b).c2 - b.c2, (g b).c3 - b.c3⟩ : Coor R) := by
        intro l g
        induction l with
        | nil => rfl
        | cons a l ih => simp only [List.map_cons, List.zipWith_cons_cons, ih]
      simp only [transform, hd, hD, hr, List.isEmpty_cons, Bool.false_eq_true, if_false, if_true, List.length_map,
        bne_self_eq_false, List.map_map, Option.getD_some]
      rw [hz (x :: rest) (h (if opts.inverse = true then Dir.inv else Dir.fwd).flip ∘ h (if opts.inverse = true then Dir.inv else Dir.fwd))]
      simp [List.map_map, Function.comp_def]
  refine ⟨fun d => by rw [key]; rfl, fun d xs => ⟨_, key d xs⟩, fun d d' xs => by rw [key, key], ?_⟩
  intro d xs ys lx ly hx hy
  rw [key] at hx hy ⊢
  injection hx with hx
  injection hy with hy
  rw [← hx, ← hy, List.map_append]

/-- one printed line: the first `dim` numbers of a tuple, each with `dec` decimals and a blank behind it -/
def printLine (fmt : Nat → R → String) (dec dim : Nat) (c : Coor R) : String :=
  let cols : List R :=
    if dim == 1 then [c.c0] else if dim == 2 then [c.c0, c.c1]
    else if dim == 3 then [c.c0, c.c1, c.c2] else [c.c0, c.c1, c.c2, c.c3]
  String.join (cols.map fun v => fmt dec v ++ " ")

/-- what `transform` prints for a batch when the library works tuple by tuple: the line of each tuple's image, in
the direction asked for (**`--inv` applies the inverse**), **rounded to the requested decimals and cut to the
requested dimension** -/
theorem transform_lines (opts : Opts R) (h : Dir → Coor R → Coor R) (fmt : Nat → R → String)
    (dec dim : Nat) (hd : opts.decimals = some dec) (hD : opts.dimension = some dim) (hr : opts.roundtrip = false)
    (d : Nat) (xs : List (Coor R)) :
    transform opts (fun dir data => (data.map (h dir), data.length)) fmt d xs =
      some (xs.map fun x => printLine fmt dec dim (h (if opts.inverse then .inv else .fwd) x)) := by
  cases xs with
  | nil => simp [transform]
  | cons x rest => simp [transform, hd, hD, hr, List.map_map, printLine, Function.comp_def]

theorem transform_lines_batchable (opts : Opts R) (h : Dir → Coor R → Coor R) (fmt : Nat → R → String)
    (dec dim : Nat) (hd : opts.decimals = some dec) (hD : opts.dimension = some dim) (hr : opts.roundtrip = false) :
    Batchable (transform opts (fun dir data => (data.map (h dir), data.length)) fmt) := by
  have key := transform_lines opts h fmt dec dim hd hD hr
  refine ⟨fun d => by rw [key]; rfl, fun d xs => ⟨_, key d xs⟩, fun d d' xs => by rw [key, key], ?_⟩
  intro d xs ys lx ly hx hy
  rw [key] at hx hy ⊢
  injection hx with hx
  injection hy with hy
  rw [← hx, ← hy, List.map_append]

/-- **kp writes exactly one output line per coordinate line of input, in input order, whose numbers are the
library's result for that line's tuple**: for every batch size and every spread of the lines over files, the
output is the list of the printed images of the tuples of the coordinate lines, in the order of the input -/
theorem kp_one_line_per_coordinate_line (opts : Opts R) (batch : Nat) (h : Dir → Coor R → Coor R) (fmt : Nat → R → String)
    (dec dim : Nat) (hd : opts.decimals = some dec) (hD : opts.dimension = some dim) (hr : opts.roundtrip = false)
    (files : List (List Str)) :
    run opts batch (transform opts (fun dir data => (data.map (h dir), data.length)) fmt) (files.map some) =
      ((allTuples opts files).map fun x => printLine fmt dec dim (h (if opts.inverse then .inv else .fwd) x), true) := by
  obtain ⟨out, h1, h2⟩ := kp_batch_independent opts batch _ (transform_lines_batchable opts h fmt dec dim hd hD hr) files
  rw [transform_lines opts h fmt dec dim hd hD hr] at h1
  injection h1 with h1
  rw [h2, h1]

/-- ... as many lines as there are coordinate lines (lines that are neither blank nor comments) -/
theorem kp_line_count (opts : Opts R) (batch : Nat) (h : Dir → Coor R → Coor R) (fmt : Nat → R → String)
    (dec dim : Nat) (hd : opts.decimals = some dec) (hD : opts.dimension = some dim) (hr : opts.roundtrip = false)
    (files : List (List Str)) :
    (run opts batch (transform opts (fun dir data => (data.map (h dir), data.length)) fmt) (files.map some)).1.length =
      (files.flatten.filter fun l => (parseLine opts l).isSome).length := by
  rw [kp_one_line_per_coordinate_line opts batch h fmt dec dim hd hD hr]
  simp only [List.length_map]
  have e : ∀ f : List (List Str), (allTuples opts f).length = (f.flatten.filter fun l => (parseLine opts l).isSome).length := by
    intro f
    induction f with
    | nil => rfl
    | cons a t ih =>
      have ha : (tuplesOf opts a).length = (a.filter fun l => (parseLine opts l).isSome).length := by
        induction a with
        | nil => rfl
        | cons l r ihr =>
          cases hp : parseLine opts l <;> simp_all [tuplesOf, List.filterMap_cons, List.filter_cons]
      simp only [allTuples, List.flatMap_cons, List.length_append, List.flatten_cons, List.filter_append] at ih ⊢
      rw [ha, ih]
  exact e files

/-- the residual kp prints for a tuple with `--roundtrip`: there and back, minus the tuple -/
def residual (opts : Opts R) (h : Dir → Coor R → Coor R) (x : Coor R) : Coor R :=
  let dir : Dir := if opts.inverse then .inv else .fwd
  let y := h dir.flip (h dir x)
  ⟨y.c0 - x.c0, y.c1 - x.c1, y.c2 - x.c2, y.c3 - x.c3⟩

/-- what `transform` prints for a batch with `--roundtrip` when the library works tuple by tuple (and counts every
tuple): the line of each tuple's own residual -/
theorem transform_roundtrip_lines (opts : Opts R) (h : Dir → Coor R → Coor R) (fmt : Nat → R → String)
    (dec dim : Nat) (hd : opts.decimals = some dec) (hD : opts.dimension = some dim) (hr : opts.roundtrip = true)
    (d : Nat) (xs : List (Coor R)) :
    transform opts (fun dir data => (data.map (h dir), data.length)) fmt d xs =
      some (xs.map fun x => printLine fmt dec dim (residual opts h x)) := by
  cases xs with
  | nil => simp [transform]
  | cons x rest =>
    have hz : ∀ (l : List (Coor R)) (g : Coor R → Coor R),
        List.zipWith (fun (a b : Coor R) => (⟨a.c0 - b.c0, a.c1 - b.c1, a.c2 - b.c2, a.c3 - b.c3⟩ : Coor R)) (l.map g) l =
          l.map fun b => (⟨(g b).c0 - b.c0, (g b).c1 - b.c1, (g b).c2 - b.c2, (g b).c3 - b.c3⟩ : Coor R) := by
      intro l g
      induction l with
      | nil => rfl
      | cons a l ih => simp only [List.map_cons, List.zipWith_cons_cons, ih]
    simp only [transform, hd, hD, hr, List.isEmpty_cons, Bool.false_eq_true, if_false, if_true, List.length_map,
      bne_self_eq_false, List.map_map, Option.getD_some]
    rw [hz (x :: rest) (h (if opts.inverse = true then Dir.inv else Dir.fwd).flip ∘ h (if opts.inverse = true then Dir.inv else Dir.fwd))]
    simp [List.map_map, Function.comp_def, printLine, residual]

/-- **`--roundtrip` prints forward-inverse residuals, one line per coordinate line, in input order**, whatever the
batch size and the spread of the lines over files -/
theorem kp_roundtrip_one_line_per_coordinate_line (opts : Opts R) (batch : Nat) (h : Dir → Coor R → Coor R) (fmt : Nat → R → String)
    (dec dim : Nat) (hd : opts.decimals = some dec) (hD : opts.dimension = some dim) (hr : opts.roundtrip = true)
    (files : List (List Str)) :
    run opts batch (transform opts (fun dir data => (data.map (h dir), data.length)) fmt) (files.map some) =
      ((allTuples opts files).map fun x => printLine fmt dec dim (residual opts h x), true) := by
  obtain ⟨out, h1, h2⟩ := kp_batch_independent opts batch _ (transform_batchable_roundtrip opts h fmt dec dim hd hD hr) files
  rw [transform_roundtrip_lines opts h fmt dec dim hd hD hr] at h1
  injection h1 with h1
  rw [h2, h1]

/-- the value a word of a coordinate line stands for -/
def wordValue (e : Str) : R :=
  match Sexa.parse e with
  | some x => Sexa.eval x
  | none => Scalar.nan

/-- the words of a line: split at white space, cut at the first word that starts a comment -/
def wordsOf (line : Str) : List Str := (splitWs (trim line)).takeWhile fun a => !(startsWith (S "#") a)

/-- **missing height and time default to 0 and NaN, or to the `-z` / `-t` values**: a line of two numbers -/
theorem parseLine_two (opts : Opts R) (line a b : Str) (h : wordsOf line = [a, b]) :
    parseLine opts line =
      some (⟨wordValue a, wordValue b, opts.height.getD (wordValue (S "0")), opts.time.getD Scalar.nan⟩, 2) := by
  have hn : Sexa.parse (S "NaN") = none := by decide
  unfold wordsOf at h
  simp only [parseLine, h]
  cases opts.height <;> cases opts.time <;> simp [wordValue, hn] <;>
    first | exact ⟨rfl, rfl, rfl⟩ | exact ⟨rfl, rfl⟩ | rfl

/-- a line of three numbers: the height is the third one unless `-z` replaces it, the time defaults -/
theorem parseLine_three (opts : Opts R) (line a b c : Str) (h : wordsOf line = [a, b, c]) :
    parseLine opts line =
      some (⟨wordValue a, wordValue b, opts.height.getD (wordValue c), opts.time.getD Scalar.nan⟩, 3) := by
  have hn : Sexa.parse (S "NaN") = none := by decide
  unfold wordsOf at h
  simp only [parseLine, h]
  cases opts.height <;> cases opts.time <;> simp [wordValue, hn] <;>
    first | exact ⟨rfl, rfl, rfl⟩ | exact ⟨rfl, rfl⟩ | rfl

/-- a line of four numbers (or more: the rest is ignored) -/
theorem parseLine_four (opts : Opts R) (line a b c d : Str) (rest : List Str) (h : wordsOf line = a :: b :: c :: d :: rest) :
    parseLine opts line =
      some (⟨wordValue a, wordValue b, opts.height.getD (wordValue c), opts.time.getD (wordValue d)⟩, 4 + rest.length) := by
  unfold wordsOf at h
  simp only [parseLine, h]
  cases opts.height <;> cases opts.time <;> simp [wordValue] <;>
    first | exact ⟨⟨rfl, rfl, rfl, rfl⟩, by omega⟩ | exact ⟨⟨rfl, rfl, rfl⟩, by omega⟩ | exact ⟨⟨rfl, rfl⟩, by omega⟩ | omega

example : wordsOf (S "  55 12 # Copenhagen") = [S "55", S "12"] := by decide
example : wordsOf (S "55 12 100 2020.5 extra") = [S "55", S "12", S "100", S "2020.5", S "extra"] := by decide

/-- the batch size of the source -/
example : Gen.kpBatch = 25000 := by decide

end C20
end Geodesy
