/-
C14 — independent implementations of the same quantity agree.

What can be PROVED is agreement by construction or by algebra: operators that call the
ellipsoid's own routines deliver exactly what those routines deliver (cart forward, latitude,
curvature, geodesic), the curvature operator's derived radii are the textbook combinations of
the two principal radii (Euler's theorem, Gaussian and mean radius), and axisswap and adapt
perform the same permutation-with-signs for the mappings they share.  Agreement between
genuinely different algorithms (tmerc vs btmerc, cart inverse vs the ellipsoid's closed form,
series vs closed forms and quadrature, Minimal vs Plain) is numerical and is decided by the
tie to /repo: paired calls on the implementation, with the model predicting both members.
-/
import Geodesy.Model.Registry
import Geodesy.Lemmas.Real
import Mathlib.Tactic.Linarith
import Mathlib.Tactic.FieldSimp

namespace Geodesy
namespace C14
open Text Ops

variable {R : Type} [Scalar R]

/-! ### operators that are the ellipsoid's own routines -/

/-- **cart forward IS the ellipsoid's geographic-to-cartesian conversion** -/
theorem cart_fwd_is_ellipsoid (p : Parsed R) (c : Coor R) : Cart.fwd p c = (p.ellps 0).cartesian c := rfl

/-- the latitude operator delivers the ellipsoid's own auxiliary latitudes, second element only -/
theorem latitude_geocentric (p : Parsed R) (data : List (Coor R)) (h : p.flagSet (S "geocentric") = true) :
    Latitude.fwd p data = (data.map fun c => { c with c1 := (p.ellps 0).latitudeGeographicToGeocentric c.c1 }, data.length) ∧
    Latitude.inv p data = (data.map fun c => { c with c1 := (p.ellps 0).latitudeGeocentricToGeographic c.c1 }, data.length) := by
  constructor <;> simp [Latitude.fwd, Latitude.inv, Latitude.mapLat, h]

theorem latitude_reduced (p : Parsed R) (data : List (Coor R)) (h0 : p.flagSet (S "geocentric") = false)
    (h : p.flagSet (S "reduced") = true) :
    Latitude.fwd p data = (data.map fun c => { c with c1 := (p.ellps 0).latitudeGeographicToReduced c.c1 }, data.length) ∧
    Latitude.inv p data = (data.map fun c => { c with c1 := (p.ellps 0).latitudeReducedToGeographic c.c1 }, data.length) := by
  constructor <;> simp [Latitude.fwd, Latitude.inv, Latitude.mapLat, h, h0]

/-- the curvature operator: prime vertical and meridian radii are the ellipsoid's -/
theorem curvature_prime (p : Parsed R) (data : List (Coor R)) (h : p.flagSet (S "prime") = true) :
    Curvature.fwd p data =
      Curvature.mapXY (fun lat lon => ((p.ellps 0).primeVerticalRadiusOfCurvature (Scalar.toRadians lat), lon)) data := by
  simp [Curvature.fwd, h]

theorem curvature_meridian (p : Parsed R) (data : List (Coor R)) (h0 : p.flagSet (S "prime") = false)
    (h : p.flagSet (S "meridian") = true) :
    Curvature.fwd p data =
      Curvature.mapXY (fun lat lon => ((p.ellps 0).meridianRadiusOfCurvature (Scalar.toRadians lat), lon)) data := by
  simp [Curvature.fwd, h, h0]

/-- the geodesic operator solves the direct problem with the ellipsoid's routine: destination
latitude and longitude are its first two results, in degrees, swapped into latitude-first order -/
theorem geodesic_fwd_uses_ellipsoid (p : Parsed R) (args r : Coor R) (h : Geodesic.fwd p args = some r) :
    let d := (p.ellps 0).geodesicFwd (Scalar.toRadians args.c1) (Scalar.toRadians args.c0) (Scalar.toRadians args.c2) args.c3
    r = ⟨Scalar.toDegrees d.c1, Scalar.toDegrees d.c0, args.c0, args.c1⟩ := by
  unfold Geodesic.fwd at h
  simp only [] at h
  split at h
  · cases h
  · cases h; rfl

/-! ### the derived radii of curvature (over the reals) -/

/-- Euler's theorem as the operator computes it, `R(α) = 1 / (cos²α / M + sin²α / N)`: **in the
cardinal directions it is the meridian and the prime vertical radius** -/
theorem euler_cardinal (m n : ℝ) (hm : m ≠ 0) (hn : n ≠ 0) :
    (1 / (Real.cos 0 * Real.cos 0 / m + Real.sin 0 * Real.sin 0 / n) = m) ∧
    (1 / (Real.cos (Real.pi / 2) * Real.cos (Real.pi / 2) / m + Real.sin (Real.pi / 2) * Real.sin (Real.pi / 2) / n) = n) := by
  constructor
  · simp
  · simp

/-- ... between them it lies between the two radii -/
theorem euler_between (m n a : ℝ) (hm : 0 < m) (hmn : m ≤ n) :
    m ≤ 1 / (Real.cos a * Real.cos a / m + Real.sin a * Real.sin a / n) ∧
    1 / (Real.cos a * Real.cos a / m + Real.sin a * Real.sin a / n) ≤ n := by
  have hn : 0 < n := lt_of_lt_of_le hm hmn
  have hcs : Real.cos a * Real.cos a + Real.sin a * Real.sin a = 1 := by
    have := Real.cos_sq_add_sin_sq a; nlinarith [this]
  have hc : 0 ≤ Real.cos a * Real.cos a := mul_self_nonneg _
  have hs : 0 ≤ Real.sin a * Real.sin a := mul_self_nonneg _
  have hden : 0 < Real.cos a * Real.cos a / m + Real.sin a * Real.sin a / n := by
    have h1 : 0 ≤ Real.cos a * Real.cos a / m := div_nonneg hc hm.le
    have h2 : 0 ≤ Real.sin a * Real.sin a / n := div_nonneg hs hn.le
    rcases lt_or_eq_of_le hc with h | h
    · have : 0 < Real.cos a * Real.cos a / m := div_pos h hm
      linarith
    · have : Real.sin a * Real.sin a = 1 := by linarith
      rw [this]; have : 0 < 1 / n := by positivity
      linarith
  constructor
  · rw [le_div_iff₀ hden]
    have e : m * (Real.cos a * Real.cos a / m + Real.sin a * Real.sin a / n)
        = Real.cos a * Real.cos a + Real.sin a * Real.sin a * (m / n) := by field_simp
    rw [e]
    have : m / n ≤ 1 := (div_le_one hn).mpr hmn
    nlinarith
  · rw [div_le_iff₀ hden]
    have e : n * (Real.cos a * Real.cos a / m + Real.sin a * Real.sin a / n)
        = Real.cos a * Real.cos a * (n / m) + Real.sin a * Real.sin a := by field_simp
    rw [e]
    have : 1 ≤ n / m := (one_le_div hm).mpr hmn
    nlinarith

/-- the mean radius `2 / (1/N + 1/M)` is the harmonic mean, the Gaussian radius `sqrt(N·M)` the
geometric mean; on a sphere (`M = N`) all of them are the radius -/
theorem radii_on_sphere (r : ℝ) (hr : 0 < r) (a : ℝ) :
    2 * (1 / (1 / r + 1 / r)) = r ∧ Real.sqrt (r * r) = r ∧
    1 / (Real.cos a * Real.cos a / r + Real.sin a * Real.sin a / r) = r := by
  refine ⟨by field_simp; ring, Real.sqrt_mul_self hr.le, ?_⟩
  have hcs : Real.cos a * Real.cos a + Real.sin a * Real.sin a = 1 := by
    have := Real.cos_sq_add_sin_sq a; nlinarith [this]
  have : Real.cos a * Real.cos a / r + Real.sin a * Real.sin a / r = 1 / r := by
    rw [← add_div, hcs]
  rw [this]; field_simp


/-! ### the series on a sphere: every coefficient vanishes, what is left is the identity -/

section sphere

theorem lit_two : (@OfScientific.ofScientific ℝ Scalar.instOfScientific 20 true 1) = 2 := by
  simp [OfScientific.ofScientific, Scalar.ofSci, Lit.toReal]; norm_num

theorem lit_one : (@OfScientific.ofScientific ℝ Scalar.instOfScientific 10 true 1) = 1 := by
  simp [OfScientific.ofScientific, Scalar.ofSci, Lit.toReal]

theorem nat_zero : (@OfNat.ofNat ℝ 0 Scalar.instOfNat) = 0 := by
  show (Scalar.ofNatLit 0 : ℝ) = 0; simp

/-- the third flattening of a sphere is zero -/
theorem third_flattening_sphere (el : Ellipsoid ℝ) (h : el.f = 0) : el.thirdFlattening = 0 := by
  simp [Ellipsoid.thirdFlattening, h]

/-- `fourier_coefficients` at argument zero: every coefficient is zero (each is `n` times a polynomial in `n`) -/
theorem fourier_coefficients_zero (fwd inv : List (List (Lit × Lit))) :
    (∀ c ∈ (Series.fourierCoefficients (0 : ℝ) fwd inv).fwd, c = 0) ∧
    (∀ c ∈ (Series.fourierCoefficients (0 : ℝ) fwd inv).inv, c = 0) := by
  constructor <;> intro c hc <;> simp only [Series.fourierCoefficients, List.mem_map] at hc <;>
    obtain ⟨row, _, rfl⟩ := hc <;> exact zero_mul _

/-- Clenshaw's recurrence over zero coefficients stays at zero -/
theorem clenshaw_zeros (x : ℝ) (cs : List ℝ) (h : ∀ c ∈ cs, c = 0) : Series.clenshaw x cs = (0, 0) := by
  unfold Series.clenshaw
  have hr : ∀ c ∈ cs.reverse, c = 0 := fun c hc => h c (List.mem_reverse.mp hc)
  generalize cs.reverse = l at hr
  have key : ∀ (l : List ℝ), (∀ c ∈ l, c = 0) →
      l.foldl (fun (s : ℝ × ℝ) c => (Scalar.mulAdd x s.1 (c - s.2), s.1)) ((0 : ℝ), (0 : ℝ)) = (0, 0) := by
    intro l
    induction l with
    | nil => intro _; rfl
    | cons c l ih =>
      intro hl
      have hc : c = 0 := hl c (by simp)
      subst hc
      simp only [List.foldl_cons, scalar_mulAdd, mul_zero, sub_zero, add_zero]
      exact ih (fun c hc => hl c (List.mem_cons_of_mem _ hc))
  simpa [nat_zero] using key l hr

/-- so the sine series vanishes -/
theorem series_sin_zeros (arg : ℝ) (cs : List ℝ) (h : ∀ c ∈ cs, c = 0) : Series.sin arg cs = 0 := by
  simp [Series.sin, clenshaw_zeros _ cs h]

/-- **on a sphere the conformal and the authalic latitude are the geographic latitude, in both
directions**, whatever the tables of `ellipsoid/constants.rs` hold: every coefficient is the third
flattening times a polynomial in it -/
theorem sphere_latitudes_identity (el : Ellipsoid ℝ) (h : el.f = 0) (phi : ℝ) :
    Ellipsoid.latitudeFwdSeries phi el.conformalCoefficients = phi ∧
    Ellipsoid.latitudeInvSeries phi el.conformalCoefficients = phi ∧
    Ellipsoid.latitudeFwdSeries phi el.authalicCoefficients = phi ∧
    Ellipsoid.latitudeInvSeries phi el.authalicCoefficients = phi := by
  have hn := third_flattening_sphere el h
  refine ⟨?_, ?_, ?_, ?_⟩ <;>
    simp only [Ellipsoid.latitudeFwdSeries, Ellipsoid.latitudeInvSeries, Ellipsoid.conformalCoefficients,
      Ellipsoid.authalicCoefficients, Ellipsoid.latitudeFourierCoefficients, hn] <;>
    first
    | rw [series_sin_zeros _ _ (fourier_coefficients_zero _ _).1, add_zero]
    | rw [series_sin_zeros _ _ (fourier_coefficients_zero _ _).2, add_zero]

/-- Horner's scheme at zero is the constant term -/
theorem horner_zero (c : ℝ) (cs : List ℝ) : Series.horner 0 (c :: cs) = c := by
  unfold Series.horner
  have key : ∀ (l : List ℝ) (v : ℝ), (l ++ [c]).foldl (fun value c => Scalar.mulAdd value 0 c) v = c := by
    intro l
    induction l with
    | nil => intro v; simp
    | cons d l ih => intro v; simp only [List.cons_append, List.foldl_cons]; exact ih _
  rw [List.reverse_cons]
  cases hrev : cs.reverse with
  | nil => simp
  | cons d l => simp only [List.cons_append]; exact key l d

/-- **on a sphere the rectifying latitude is the geographic latitude** (the scale factor the code
applies, the normalised meridian arc unit, is 1 there), in both directions -/
theorem sphere_rectifying_identity (el : Ellipsoid ℝ) (h : el.f = 0) (phi : ℝ) :
    el.normalizedMeridianArcUnit = 1 ∧
    Ellipsoid.latitudeGeographicToRectifying phi el.rectifyingCoefficients = phi ∧
    Ellipsoid.latitudeRectifyingToGeographic phi el.rectifyingCoefficients = phi := by
  have hn := third_flattening_sphere el h
  have hu : el.normalizedMeridianArcUnit = 1 := by
    simp only [Ellipsoid.normalizedMeridianArcUnit, hn, mul_zero, Ellipsoid.meridianArcCoefficients,
      Gen.meridianArcCoefficients, List.map_cons, horner_zero]
    simp [ratio, Lit.toReal, lit_one]
  refine ⟨hu, ?_, ?_⟩
  · simp only [Ellipsoid.latitudeGeographicToRectifying, Ellipsoid.rectifyingCoefficients,
      Ellipsoid.latitudeFourierCoefficients, hn, hu]
    rw [series_sin_zeros _ _ (fourier_coefficients_zero _ _).1]; ring
  · simp only [Ellipsoid.latitudeRectifyingToGeographic, Ellipsoid.rectifyingCoefficients,
      Ellipsoid.latitudeFourierCoefficients, hn, hu]
    rw [series_sin_zeros _ _ (fourier_coefficients_zero _ _).2]; simp

/-- a sphere: the premise is satisfiable -/
example : (⟨6371000, 0⟩ : Ellipsoid ℝ).f = 0 := rfl

end sphere

/-! ### axisswap and adapt: the mappings they share -/

/-- **axisswap with a full `order` is adapt's gather with the same positions and signs**:
`out[i] = in[pos i] · sgn i` for both -/
theorem axisswap_is_adapt_gather (c : Coor R) (v0 v1 v2 v3 : R) :
    Ops.axisswapFwdLoop R c [v0, v1, v2, v3] 0 c =
      Adapt.fwdTuple
        { post := fun i => match i with
            | 0 => Ops.axisPos R v0 | 1 => Ops.axisPos R v1 | 2 => Ops.axisPos R v2 | 3 => Ops.axisPos R v3
          mult := fun i => match i with
            | 0 => Ops.axisSgn R v0 | 1 => Ops.axisSgn R v1 | 2 => Ops.axisSgn R v2 | 3 => Ops.axisSgn R v3
          noop := false } c := by
  simp [Ops.axisswapFwdLoop, Adapt.fwdTuple, Coor.ofFn, Coor.set]

end C14
end Geodesy
