/-
C16, second module — comments are insignificant, also for a definition that is not a pipeline.

`normalize` (`Geodesy/Model/Text.lean`, mirrored from `Tokenize::normalize`) is what a definition of
one step passes through (a pipeline passes through `split_into_steps`, which removes comments line
by line before it normalises).  Proved here, for every text: a comment at the end of a one-line
definition — whatever it holds: words, `key=value` pairs, modifiers — does not change the normal
form.
-/
import Geodesy.Model.Text

namespace Geodesy
namespace C16
open Text

theorem dropWhile_append_stop {β : Type} (p : β → Bool) (a : List β) (b : β) (r : List β) (hb : p b = false) :
    (a ++ b :: r).dropWhile p = a.dropWhile p ++ b :: r := by
  induction a with
  | nil => simp [List.dropWhile, hb]
  | cons x a ih =>
    by_cases hx : p x = true
    · simp only [List.cons_append, List.dropWhile_cons, hx, if_true]; exact ih
    · simp only [List.cons_append, List.dropWhile_cons, hx]; rfl

theorem dropWhile_idem {β : Type} (p : β → Bool) (l : List β) : (l.dropWhile p).dropWhile p = l.dropWhile p := by
  induction l with
  | nil => rfl
  | cons x l ih =>
    by_cases hx : p x = true
    · simp only [List.dropWhile_cons, hx, if_true]; exact ih
    · simp only [List.dropWhile_cons, hx]
      simp [List.dropWhile_cons, hx]

/-- a pattern whose first character does not occur is not replaced anywhere -/
theorem replaceAux_absent (pc : Char) (pat to : Str) (x : Str) (h : pc ∉ x) :
    replaceAux (pc :: pat) to 0 x = x := by
  induction x with
  | nil => rfl
  | cons c cs ih =>
    have hc : pc ≠ c := fun hh => h (hh ▸ List.mem_cons_self ..)
    have hpre : (pc :: pat).isPrefixOf (c :: cs) = false := by
      simp [List.isPrefixOf, hc]
    simp only [replaceAux, hpre, Bool.false_eq_true, if_false]
    rw [ih (fun hm => h (List.mem_cons_of_mem _ hm))]

theorem replace_absent (pc : Char) (pat to : Str) (x : Str) (h : pc ∉ x) : replace (pc :: pat) to x = x :=
  replaceAux_absent pc pat to x h

theorem splitOnAux_absent (sep : Char) (s cur : Str) (h : sep ∉ s) : splitOnAux sep s cur = [cur.reverse ++ s] := by
  induction s generalizing cur with
  | nil => simp [splitOnAux]
  | cons c cs ih =>
    have hc : (c == sep) = false := by
      simpa using fun hh : c = sep => h (hh ▸ List.mem_cons_self ..)
    simp only [splitOnAux, hc, Bool.false_eq_true, if_false]
    rw [ih _ (fun hm => h (List.mem_cons_of_mem _ hm))]
    simp

theorem splitOnAux_first (sep : Char) (a b cur : Str) (h : sep ∉ a) :
    (splitOnAux sep (a ++ sep :: b) cur).headD [] = cur.reverse ++ a := by
  induction a generalizing cur with
  | nil => simp [splitOnAux]
  | cons c cs ih =>
    have hc : (c == sep) = false := by
      simpa using fun hh : c = sep => h (hh ▸ List.mem_cons_self ..)
    simp only [List.cons_append, splitOnAux, hc, Bool.false_eq_true, if_false]
    rw [ih _ (fun hm => h (List.mem_cons_of_mem _ hm))]
    simp

/-- a text without line feed is one line (none if it is empty) -/
theorem lines_single (t : Str) (h : '\n' ∉ t) (hne : t ≠ []) : lines t = [t] := by
  unfold lines
  have : splitOn '\n' t = [t] := by simpa [splitOn] using splitOnAux_absent '\n' t [] h
  simp only [this, List.dropLast_singleton, List.map_nil, List.getLast?_singleton]
  cases t with
  | nil => exact absurd rfl hne
  | cons c cs => rfl

theorem lines_nil : lines ([] : Str) = [] := by
  simp [lines, splitOn, splitOnAux]

/-- the part of `normalize` that removes comments and brings the line ends in order -/
def clean (s : Str) : Str :=
  let s := trim s
  let s := replace (S "\r\n") (S "\n") s
  let s := replace (S "\r") (S "\n") s
  let s := replace (S "\n:") (S "\n") s
  join (S "\n") ((lines s).map fun line => (splitOn '#' line).headD [])

/-- … and the rest of it -/
def canon (s : Str) : Str :=
  let s := trim s
  let s := trimMatches ':' s
  let s := join (S " ") (splitWs s)
  let s := replaceAll glue s
  let s := replace (S ">") (S "|omit_inv ") s
  let s := replace (S "<") (S "|omit_fwd ") s
  let s := replaceAll subscripts s
  let s := replace (S "$ ") (S "$") s
  join (S " ") (splitWs s)

theorem normalize_eq (s : Str) : normalize s = canon (clean s) := rfl

theorem hash_not_ws : isWs '#' = false := by decide

/-- a one-line text without comment is its own cleaned form, trimmed -/
theorem clean_plain (s : Str) (h : ∀ ch ∈ s, ch ≠ '\n' ∧ ch ≠ '\r' ∧ ch ≠ '#') : clean s = trim s := by
  have hsub : ∀ ch ∈ trim s, ch ∈ s := by
    intro ch hch
    unfold trim trimEnd trimStart at hch
    have h1 := List.mem_reverse.mp hch
    have h2 := (List.dropWhile_sublist _).subset h1
    have h3 := List.mem_reverse.mp h2
    exact (List.dropWhile_sublist _).subset h3
  have hn : '\n' ∉ trim s := fun hm => (h _ (hsub _ hm)).1 rfl
  have hr : '\r' ∉ trim s := fun hm => (h _ (hsub _ hm)).2.1 rfl
  have hh : '#' ∉ trim s := fun hm => (h _ (hsub _ hm)).2.2 rfl
  unfold clean
  simp only [S]
  show join _ ((lines (replace ['\n', ':'] ['\n'] (replace ['\r'] ['\n'] (replace ['\r', '\n'] ['\n'] (trim s))))).map _) = trim s
  rw [replace_absent '\r' ['\n'] _ _ hr, replace_absent '\r' [] _ _ hr, replace_absent '\n' [':'] _ _ hn]
  by_cases hne : trim s = []
  · rw [hne, lines_nil]; rfl
  · rw [lines_single _ hn hne]
    simp only [List.map_cons, List.map_nil, join, splitOn]
    rw [splitOnAux_absent '#' _ [] hh]
    simp

/-- **the comment at the end of a one-line definition is insignificant**: whatever the comment
holds, the normal form is that of the text in front of it -/
theorem normalize_comment (s c : Str) (hs : ∀ ch ∈ s, ch ≠ '\n' ∧ ch ≠ '\r' ∧ ch ≠ '#')
    (hc : ∀ ch ∈ c, ch ≠ '\n' ∧ ch ≠ '\r') : normalize (s ++ '#' :: c) = normalize s := by
  rw [normalize_eq, normalize_eq, clean_plain s hs]
  -- the text with its comment, trimmed: the front of `s` without its leading blanks, the comment without its trailing ones
  have htrim : trim (s ++ '#' :: c) = trimStart s ++ '#' :: trimEnd c := by
    unfold trim
    have h1 : trimStart (s ++ '#' :: c) = trimStart s ++ '#' :: c := dropWhile_append_stop isWs s '#' c hash_not_ws
    rw [h1]
    unfold trimEnd
    rw [List.reverse_append, List.reverse_cons, List.append_assoc, List.singleton_append,
      dropWhile_append_stop isWs c.reverse '#' (trimStart s).reverse hash_not_ws]
    simp
  have hsubS : ∀ ch ∈ trimStart s, ch ∈ s := fun ch hch => (List.dropWhile_sublist _).subset hch
  have hsubC : ∀ ch ∈ trimEnd c, ch ∈ c := by
    intro ch hch
    unfold trimEnd at hch
    exact List.mem_reverse.mp ((List.dropWhile_sublist _).subset (List.mem_reverse.mp hch))
  have hn : '\n' ∉ trimStart s ++ '#' :: trimEnd c := by
    intro hm
    rcases List.mem_append.mp hm with hm | hm
    · exact (hs _ (hsubS _ hm)).1 rfl
    · rcases List.mem_cons.mp hm with hm | hm
      · exact absurd hm (by decide)
      · exact (hc _ (hsubC _ hm)).1 rfl
  have hr : '\r' ∉ trimStart s ++ '#' :: trimEnd c := by
    intro hm
    rcases List.mem_append.mp hm with hm | hm
    · exact (hs _ (hsubS _ hm)).2.1 rfl
    · rcases List.mem_cons.mp hm with hm | hm
      · exact absurd hm (by decide)
      · exact (hc _ (hsubC _ hm)).2 rfl
  have hh : '#' ∉ trimStart s := fun hm => (hs _ (hsubS _ hm)).2.2 rfl
  have hclean : clean (s ++ '#' :: c) = trimStart s := by
    unfold clean
    simp only [S]
    show join _ ((lines (replace ['\n', ':'] ['\n'] (replace ['\r'] ['\n'] (replace ['\r', '\n'] ['\n'] (trim (s ++ '#' :: c)))))).map _) = _
    rw [htrim, replace_absent '\r' ['\n'] _ _ hr, replace_absent '\r' [] _ _ hr, replace_absent '\n' [':'] _ _ hn]
    rw [lines_single _ hn (by simp)]
    simp only [List.map_cons, List.map_nil, join, splitOn]
    rw [splitOnAux_first '#' _ _ [] hh]
    simp
  rw [hclean]
  -- both sides now go through `canon`, which trims first: `trim (trimStart s) = trim (trim s)`
  have key : trim (trimStart s) = trim (trim s) := by
    unfold trim
    rw [show trimStart (trimStart s) = trimStart s from dropWhile_idem isWs s]
    -- `trimStart` of a text that does not begin with a blank is the text
    have hstart : ∀ y : Str, (∀ a r, y = a :: r → isWs a = false) → trimStart (trimEnd y) = trimEnd y := by
      intro y hy
      cases y with
      | nil => rfl
      | cons a r =>
        have ha := hy a r rfl
        unfold trimEnd
        rw [List.reverse_cons, dropWhile_append_stop isWs r.reverse a [] ha, List.reverse_append]
        simp [trimStart, List.dropWhile_cons, ha]
    have hy : ∀ a r, trimStart s = a :: r → isWs a = false := by
      intro a r har
      unfold trimStart at har
      have hne : List.dropWhile isWs s ≠ [] := by rw [har]; simp
      have := List.head_dropWhile_not isWs (l := s) hne
      simpa [har] using this
    rw [hstart _ hy]
    unfold trimEnd
    rw [List.reverse_reverse, dropWhile_idem]
  unfold canon
  simp only [key]

/-- the definition that showed the defect: the comment's `y=5` is not a parameter -/
example : normalize (S "helmert x=3 # y=5") = S "helmert x=3" := by decide
example : normalize (S "# lead\nhelmert  x = 3\r:y=5") = S "helmert x=3 y=5" := by decide

end C16
end Geodesy
