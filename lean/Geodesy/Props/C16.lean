/-
C16 — definition layout is insignificant; parameters are typed as declared.

Model side: `Geodesy/Model/Text.lean` (`normalize`, `split_into_steps`, `split_into_parameters`),
`Geodesy/Model/Params.lean` (`ParsedParameters::new`, `parse_sexagesimal`), mirrored from
`token/mod.rs`, `op/parsed_parameters.rs`, `math/angular.rs`.

Proved here: the parameter map of a step as a function of its elements (name first, then
`key=value` pairs and flags, last key wins), the modifier rotation (a modifier may stand in
front of the name), and the typed extraction rules, one per parameter kind.

Not proved (stated in DESIGN.md 8a): layout invariance of the whole 25-stage replacement chain
of `normalize` for arbitrary text around the sigils `= : , | < > $`; that part is decided by the
correspondence run and the layout oracle.
-/
import Geodesy.Model.Params
import Geodesy.Lemmas.Real

namespace Geodesy
namespace C16
open Text

/-! ### the parameter map: insert / look-up laws (`BTreeMap::insert`, last key wins) -/

theorem get_insert_same (m : PMap) (k v : Str) : (m.insert k v).get? k = some v := by
  simp [PMap.insert, PMap.get?, List.find?]

theorem get_insert_other (m : PMap) (k v k' : Str) (hne : k ≠ k') :
    (m.insert k v).get? k' = m.get? k' := by
  have h1 : (k == k') = false := by simpa using hne
  simp only [PMap.insert, PMap.get?, List.find?, h1]
  congr 1
  rw [List.find?_filter]
  apply List.find?_congr
  intro e _
  by_cases he : (e.1 == k') = true
  · have : e.1 = k' := by simpa using he
    have hk : e.1 ≠ k := by rw [this]; exact fun h => hne h.symm
    simp [he, hk]
  · have he' : (e.1 == k') = false := by simpa using he
    simp [he']

/-! ### one step: elements ↦ parameter map -/

/-- a white-space free, non-empty element (what `split_whitespace` yields) -/
def NoWs (s : Str) : Prop := s ≠ [] ∧ ∀ c ∈ s, isWs c = false

theorem dropWhile_noWs (s : Str) (h : NoWs s) : s.dropWhile isWs = s := by
  obtain ⟨hne, hall⟩ := h
  cases s with
  | nil => exact absurd rfl hne
  | cons c cs => simp [List.dropWhile, hall c (List.mem_cons_self ..)]

theorem trim_noWs (s : Str) (h : NoWs s) : trim s = s := by
  have hr : NoWs s.reverse := ⟨by simpa using h.1, fun c hc => h.2 c (List.mem_reverse.mp hc)⟩
  simp only [trim, trimStart, trimEnd, dropWhile_noWs s h, dropWhile_noWs s.reverse hr, List.reverse_reverse]

/-- `split('=')` of text without `=` is the text itself -/
theorem splitOnAux_none (sep : Char) (s cur : Str) (h : ∀ c ∈ s, (c == sep) = false) :
    splitOnAux sep s cur = [cur.reverse ++ s] := by
  induction s generalizing cur with
  | nil => simp [splitOnAux]
  | cons c cs ih =>
    have hc := h c (List.mem_cons_self ..)
    simp only [splitOnAux, hc, Bool.false_eq_true, if_false]
    rw [ih _ (fun d hd => h d (List.mem_cons_of_mem _ hd))]
    simp

/-- `split('=')` of `key=value` with no further `=` is `[key, value]` -/
theorem splitOn_pair (k v : Str) (hk : ∀ c ∈ k, (c == '=') = false) (hv : ∀ c ∈ v, (c == '=') = false) :
    splitOn '=' (k ++ '=' :: v) = [k, v] := by
  unfold splitOn
  suffices ∀ cur, splitOnAux '=' (k ++ '=' :: v) cur = [cur.reverse ++ k, v] by simpa using this []
  induction k with
  | nil =>
    intro cur
    simp only [List.nil_append, splitOnAux, beq_self_eq_true, if_true, List.append_nil]
    rw [splitOnAux_none '=' v [] hv]; rfl
  | cons c cs ih =>
    intro cur
    have hc := hk c (List.mem_cons_self ..)
    simp only [List.cons_append, splitOnAux, hc, Bool.false_eq_true, if_false]
    rw [ih (fun d hd => hk d (List.mem_cons_of_mem _ hd))]
    simp

/-- an item of a step: `key=value` or a flag -/
inductive Item where
  | pair (k v : Str)
  | flag (f : Str)

def Item.render : Item → Str
  | .pair k v => k ++ '=' :: v
  | .flag f => f

def Item.binding : Item → Str × Str
  | .pair k v => (k, v)
  | .flag f => (f, S "true")

/-- well-formedness of an item as an element of a normalised step: no white space, no further
`=`, non-empty key -/
def Item.Ok : Item → Prop
  | .pair k v => k ≠ [] ∧ (∀ c ∈ k, isWs c = false ∧ (c == '=') = false) ∧ (∀ c ∈ v, isWs c = false ∧ (c == '=') = false)
  | .flag f => f ≠ [] ∧ ∀ c ∈ f, isWs c = false ∧ (c == '=') = false

theorem Item.render_noWs (i : Item) (h : i.Ok) : NoWs i.render := by
  cases i with
  | pair k v =>
    obtain ⟨hk, hkc, hvc⟩ := h
    refine ⟨by simp [Item.render], ?_⟩
    intro c hc
    simp only [Item.render, List.mem_append, List.mem_cons] at hc
    rcases hc with hc | rfl | hc
    · exact (hkc c hc).1
    · decide
    · exact (hvc c hc).1
  | flag f => exact ⟨h.1, fun c hc => (h.2 c hc).1⟩

/-- the loop body of `split_into_parameters` on a well-formed item, once the name is in -/
theorem collect_step (params : PMap) (hne : params ≠ []) (i : Item) (h : i.Ok) :
    (let parts := splitOn '=' (trim i.render) ++ [S "true"]
     if params.isEmpty && parts.length == 2 then PMap.insert params nameKey (parts.headD [])
     else PMap.insert params (parts.headD []) (parts.getD 1 [])) =
    PMap.insert params i.binding.1 i.binding.2 := by
  have hemp : params.isEmpty = false := by cases params with | nil => exact absurd rfl hne | cons _ _ => rfl
  rw [trim_noWs _ (i.render_noWs h)]
  cases i with
  | pair k v =>
    obtain ⟨_, hkc, hvc⟩ := h
    rw [Item.render, splitOn_pair k v (fun c hc => (hkc c hc).2) (fun c hc => (hvc c hc).2)]
    simp [hemp, Item.binding]
  | flag f =>
    obtain ⟨_, hfc⟩ := h
    simp only [Item.render, splitOn, splitOnAux_none '=' f [] (fun c hc => (hfc c hc).2)]
    simp [hemp, Item.binding]

/-- **The parameter map of a step**: for a step whose elements are a name followed by
`key=value` pairs and flags, `split_into_parameters` yields `{_name ↦ name}` with the bindings
inserted in order — flags bound to `"true"`, the last of repeated keys winning
(`get_insert_same` / `get_insert_other`). -/
theorem collectParams_spec (name : Str) (hname : (Item.flag name).Ok) (items : List Item) (hitems : ∀ i ∈ items, i.Ok) :
    collectParams (name :: items.map Item.render) =
      items.foldl (fun m i => PMap.insert m i.binding.1 i.binding.2) (PMap.insert [] nameKey name) := by
  unfold collectParams
  simp only [List.foldl_cons]
  have hfirst : (let parts := splitOn '=' (trim name) ++ [S "true"]
      if ([] : PMap).isEmpty && parts.length == 2 then PMap.insert [] nameKey (parts.headD [])
      else PMap.insert [] (parts.headD []) (parts.getD 1 [])) = PMap.insert [] nameKey name := by
    have htrim : trim name = name := trim_noWs name ((Item.flag name).render_noWs hname)
    rw [htrim]
    simp only [splitOn, splitOnAux_none '=' name [] (fun c hc => (hname.2 c hc).2)]
    simp
  rw [hfirst]
  generalize hacc : PMap.insert [] nameKey name = acc
  have hne : acc ≠ [] := by rw [← hacc]; simp [PMap.insert]
  clear hacc hfirst
  induction items generalizing acc with
  | nil => rfl
  | cons i rest ih =>
    simp only [List.map_cons, List.foldl_cons]
    rw [collect_step acc hne i (hitems i (List.mem_cons_self ..))]
    exact ih (fun j hj => hitems j (List.mem_cons_of_mem _ hj)) _ (by simp [PMap.insert])

/-! ### modifiers may stand in front of the name -/

/-- **Modifier rotation**: leading modifiers are moved behind the other elements, so that
`inv name k=v` has the elements of `name k=v inv`. -/
theorem rotate_prefix (pre : List Str) (name : Str) (rest : List Str)
    (hpre : ∀ m ∈ pre, modifiers.contains m = true) (hname : modifiers.contains name = false)
    (fuel : Nat) (hf : pre.length < fuel) :
    rotateModifiers fuel (pre ++ name :: rest) = name :: rest ++ pre := by
  induction pre generalizing fuel rest with
  | nil =>
    cases fuel with
    | zero => omega
    | succ f =>
      simp only [List.nil_append, rotateModifiers, hname, Bool.false_eq_true, if_false, List.append_nil]
  | cons m ms ih =>
    cases fuel with
    | zero => omega
    | succ f =>
      have hm := hpre m (List.mem_cons_self ..)
      simp only [List.cons_append, rotateModifiers, hm, if_true]
      have := ih (rest ++ [m]) (fun x hx => hpre x (List.mem_cons_of_mem _ hx)) f (by simpa using hf)
      simpa [List.append_assoc] using this

/-- the rotation loop always ends and keeps all elements (also for a step made of modifiers only,
where the unrepaired code looped for ever) -/
theorem rotate_length (fuel : Nat) (l : List Str) : (rotateModifiers fuel l).length = l.length := by
  induction fuel generalizing l with
  | zero => rfl
  | succ f ih =>
    cases l with
    | nil => rfl
    | cons e t =>
      simp only [rotateModifiers]
      split
      · rw [ih]; simp
      · rfl

/-! ### typed extraction, one rule per parameter kind (`ParsedParameters::new`) -/

section typed
variable {R : Type} [Scalar R]
variable (ek : Str → Bool) (g l : PMap) (acc : Parsed R) (key : Str)

/-- **flags** are true when present (bare, or spelled `=true` in any case); other values are
rejected; absent means false -/
theorem flag_rule :
    (∀ v, chase g l key = .ok (some v) → Parsed.isTrue v = true →
        Parsed.step ek g l acc (.flag key) = .ok (acc.setFlag key)) ∧
    (∀ v, chase g l key = .ok (some v) → Parsed.isTrue v = false →
        Parsed.step ek g l acc (.flag key) = .error .badParam) ∧
    (chase g l key = .ok none → Parsed.step ek g l acc (.flag key) = .ok acc) := by
  refine ⟨?_, ?_, ?_⟩
  · intro v h ht; simp [Parsed.step, h, ht, bind, Except.bind, pure, Except.pure]
  · intro v h ht; simp [Parsed.step, h, ht, bind, Except.bind, throw, throwThe, MonadExceptOf.throw]
  · intro h; simp [Parsed.step, h, bind, Except.bind, pure, Except.pure]

/-- **naturals** parse by `usize::from_str` or the parameter is rejected; a required one is
demanded, an optional one takes its default -/
theorem natural_rule (default : Option Nat) :
    (∀ v n, chase g l key = .ok (some v) → Lit.parseUsize v = some n →
        Parsed.step ek g l acc (.natural key default) = .ok { acc with natural := Parsed.assocInsert acc.natural key n }) ∧
    (∀ v, chase g l key = .ok (some v) → Lit.parseUsize v = none →
        Parsed.step ek g l acc (.natural key default) = .error .badParam) ∧
    (chase g l key = .ok none → default = none →
        Parsed.step ek g l acc (.natural key default) = .error .missingParam) ∧
    (∀ d, chase g l key = .ok none → default = some d →
        Parsed.step ek g l acc (.natural key default) = .ok { acc with natural := Parsed.assocInsert acc.natural key d }) := by
  refine ⟨?_, ?_, ?_, ?_⟩
  · intro v n h hp; simp [Parsed.step, h, hp, bind, Except.bind, pure, Except.pure]
  · intro v h hp; simp [Parsed.step, h, hp, bind, Except.bind, throw, throwThe, MonadExceptOf.throw]
  · intro h hd; simp [Parsed.step, h, hd, bind, Except.bind, throw, throwThe, MonadExceptOf.throw]
  · intro d h hd; simp [Parsed.step, h, hd, bind, Except.bind, pure, Except.pure]

/-- **integers**, likewise with `i64::from_str` -/
theorem integer_rule (default : Option Int) :
    (∀ v n, chase g l key = .ok (some v) → Lit.parseI64 v = some n →
        Parsed.step ek g l acc (.integer key default) = .ok { acc with integer := Parsed.assocInsert acc.integer key n }) ∧
    (∀ v, chase g l key = .ok (some v) → Lit.parseI64 v = none →
        Parsed.step ek g l acc (.integer key default) = .error .badParam) ∧
    (chase g l key = .ok none → default = none →
        Parsed.step ek g l acc (.integer key default) = .error .missingParam) := by
  refine ⟨?_, ?_, ?_⟩
  · intro v n h hp; simp [Parsed.step, h, hp, bind, Except.bind, pure, Except.pure]
  · intro v h hp; simp [Parsed.step, h, hp, bind, Except.bind, throw, throwThe, MonadExceptOf.throw]
  · intro h hd; simp [Parsed.step, h, hd, bind, Except.bind, throw, throwThe, MonadExceptOf.throw]

/-- **reals**: decimal or sexagesimal with optional hemisphere letter, evaluated by
`Sexa.eval`; anything else (and anything evaluating to NaN) is rejected naming the parameter -/
theorem real_rule (default : Option Lit) :
    (∀ v x, chase g l key = .ok (some v) → Sexa.parseOk v = some x →
        Parsed.step ek g l acc (.real key default) = .ok { acc with real := Parsed.assocInsert acc.real key (Sexa.eval x) }) ∧
    (∀ v, chase g l key = .ok (some v) → Sexa.parseOk v = none →
        Parsed.step ek g l acc (.real key default) = .error .badParam) ∧
    (chase g l key = .ok none → default = none →
        Parsed.step ek g l acc (.real key default) = .error .missingParam) ∧
    (∀ d, chase g l key = .ok none → default = some d →
        Parsed.step ek g l acc (.real key default) = .ok { acc with real := Parsed.assocInsert acc.real key (Scalar.ofLit d) }) := by
  refine ⟨?_, ?_, ?_, ?_⟩
  · intro v x h hp; simp [Parsed.step, h, hp, bind, Except.bind, pure, Except.pure]
  · intro v h hp; simp [Parsed.step, h, hp, bind, Except.bind, throw, throwThe, MonadExceptOf.throw]
  · intro h hd; simp [Parsed.step, h, hd, bind, Except.bind, throw, throwThe, MonadExceptOf.throw]
  · intro d h hd; simp [Parsed.step, h, hd, bind, Except.bind, pure, Except.pure]

/-- **series**: every comma separated element must be a real, or the parameter is rejected -/
theorem series_rule (default : Option Str) :
    (∀ v xs, chase g l key = .ok (some v) → Parsed.parseSeries (R := R) v = some xs →
        Parsed.step ek g l acc (.series key default) = .ok { acc with series := Parsed.assocInsert acc.series key xs }) ∧
    (∀ v, chase g l key = .ok (some v) → Parsed.parseSeries (R := R) v = none →
        Parsed.step ek g l acc (.series key default) = .error .badParam) ∧
    (chase g l key = .ok none → default = none →
        Parsed.step ek g l acc (.series key default) = .error .missingParam) := by
  refine ⟨?_, ?_, ?_⟩
  · intro v xs h hp; simp [Parsed.step, h, hp, bind, Except.bind, pure, Except.pure]
  · intro v h hp; simp [Parsed.step, h, hp, bind, Except.bind, throw, throwThe, MonadExceptOf.throw]
  · intro h hd; simp [Parsed.step, h, hd, bind, Except.bind, throw, throwThe, MonadExceptOf.throw]

/-- **text lists** are split at commas and trimmed; a required one is demanded -/
theorem texts_rule (default : Option Str) :
    (∀ v, chase g l key = .ok (some v) →
        Parsed.step ek g l acc (.texts key default) =
          .ok { acc with texts := Parsed.assocInsert acc.texts key ((splitOn ',' v).map trim) }) ∧
    (chase g l key = .ok none → default = none →
        Parsed.step ek g l acc (.texts key default) = .error .missingParam) := by
  refine ⟨?_, ?_⟩
  · intro v h; simp [Parsed.step, h, bind, Except.bind, pure, Except.pure]
  · intro h hd; simp [Parsed.step, h, hd, bind, Except.bind, throw, throwThe, MonadExceptOf.throw]

end typed

/-! ### sexagesimal values -/

/-- **`d:m:s` with optional hemisphere letter** evaluates to `±(|d| + (m + s/60)/60)`, the
sign being that of the degree field times the hemisphere sign. -/
theorem sexagesimal_value (x : Sexa) :
    (Sexa.eval x : ℝ) =
      ((if 0 ≤ x.d.toReal then 1 else -1) * (if x.postfixNeg then -1 else 1)) *
        (|x.d.toReal| + (x.m.toReal + x.s.toReal / 60) / 60) := by
  simp [Sexa.eval, Scalar.signum, Scalar.ofNatLit, Lit.toReal]

/-- a decimal literal is the rational its digits spell -/
theorem decimal_value (neg : Bool) (mant : Nat) (e : Int) :
    (Scalar.ofLit (Lit.fin neg mant e) : ℝ) = (if neg then -1 else 1) * (mant : ℝ) * (10 : ℝ) ^ e := by
  simp [Lit.toReal]

/-! ### non-vacuity -/

example : collectParams [S "tmerc", S "lon_0=9", S "inv", S "lon_0=12"] =
    [(S "lon_0", S "12"), (S "inv", S "true"), (nameKey, S "tmerc")] := by decide
example : Lit.parseF64 (S "-12.5e3") = some (.fin true 125 2) := by decide
example : Sexa.parse (S "12:30:36W") = some ⟨true, .fin false 12 0, .fin false 30 0, .fin false 36 0⟩ := by decide

end C16
end Geodesy
