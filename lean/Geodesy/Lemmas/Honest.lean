/-
The stack operators keep the shape of the state (one value per operand in every column, as many
operands as before) and never count more than the operands: the step lemmas behind
`C10.pipeline_honest`.
-/
import Geodesy.Lemmas.Stack
import Geodesy.Model.Op

namespace Geodesy
namespace HonestLemmas
open Stack StackLemmas
variable {α : Type}

/-- the result of a stack step is well shaped for `N` operands -/
def StepOk (N : Nat) (r : Cols α × Data α × Nat) : Prop :=
  ColsOk N r.1 ∧ r.2.1.length = N ∧ r.2.2 ≤ N

theorem stomp_length (nan : α) (ops : Data α) : (stomp nan ops).length = ops.length := by simp [stomp]

theorem scatter_length (ops : Data α) (a : Fin 4) (col : List α) (h : col.length = ops.length) :
    (scatter ops a col).length = ops.length := by simp [scatter, h]

theorem colsOk_mem {N : Nat} {cols : Cols α} (h : ColsOk N cols) {c : List α} (hc : c ∈ cols) : c.length = N := h c hc

theorem push_ok {N : Nat} (cols : Cols α) (ops : Data α) (args : List (Fin 4)) (hc : ColsOk N cols) (hn : ops.length = N) :
    StepOk N (push cols ops args) := by
  refine ⟨colsOk_append hc ?_, hn, by simp [push, hn]⟩
  intro c hcm
  simp only [List.mem_map] at hcm
  obtain ⟨a, _, rfl⟩ := hcm
  simp [hn]

theorem scatterFold_length {N : Nat} (pairs : List (Fin 4 × List α)) (ops : Data α) (hn : ops.length = N)
    (hp : ∀ p ∈ pairs, p.2.length = N) :
    (pairs.foldl (fun o p => scatter o p.1 p.2) ops).length = N := by
  induction pairs generalizing ops with
  | nil => exact hn
  | cons p rest ih =>
    simp only [List.foldl_cons]
    apply ih
    · rw [scatter_length _ _ _ (by rw [hp p (List.mem_cons_self), hn]), hn]
    · intro q hq; exact hp q (List.mem_cons_of_mem _ hq)

theorem pop_ok {N : Nat} (nan : α) (cols : Cols α) (ops : Data α) (args : List (Fin 4)) (hc : ColsOk N cols)
    (hn : ops.length = N) : StepOk N (pop nan cols ops args) := by
  unfold pop
  simp only []
  split
  · exact ⟨hc, by rw [stomp_length, hn], Nat.zero_le _⟩
  · refine ⟨colsOk_take hc _, ?_, by simp [hn]⟩
    apply scatterFold_length _ _ hn
    intro p hp
    have := (List.of_mem_zip hp).2
    exact colsOk_reverse (colsOk_drop hc _) _ this

theorem flipLoop_ok {N : Nat} (depth : Nat) (args : List (Fin 4)) (j : Nat) (cols : Cols α) (ops : Data α)
    (hc : ColsOk N cols) (hn : ops.length = N) (hd : cols.length = depth) (hj : j + args.length ≤ depth) :
    ColsOk N (flipLoop depth args j cols ops).1 ∧ (flipLoop depth args j cols ops).2.length = N := by
  induction args generalizing j cols ops with
  | nil => exact ⟨hc, hn⟩
  | cons a rest ih =>
    simp only [flipLoop, flipOne]
    simp only [List.length_cons] at hj
    have hidx : depth - 1 - j < cols.length := by omega
    have hcol : (cols.getD (depth - 1 - j) []).length = N := by
      rw [List.getD_eq_getElem?_getD, List.getElem?_eq_getElem hidx]
      exact hc _ (List.getElem_mem hidx)
    apply ih
    · exact colsOk_set hc _ _ (by simp [hn])
    · rw [scatter_length _ _ _ (by rw [hcol, hn]), hn]
    · simp [hd]
    · omega

theorem flip_ok {N : Nat} (nan : α) (cols : Cols α) (ops : Data α) (args : List (Fin 4)) (hc : ColsOk N cols)
    (hn : ops.length = N) : StepOk N (Stack.flip nan cols ops args) := by
  unfold Stack.flip
  simp only []
  split
  · exact ⟨hc, by rw [stomp_length, hn], Nat.zero_le _⟩
  · have := flipLoop_ok cols.length args 0 cols ops hc hn rfl (by omega)
    exact ⟨this.1, this.2, by simp [hn]⟩

theorem roll_ok {N : Nat} (nan : α) (cols : Cols α) (ops : Data α) (m n : Int) (hc : ColsOk N cols)
    (hn : ops.length = N) : StepOk N (roll nan cols ops m n) := by
  unfold roll
  simp only []
  split
  · exact ⟨hc, by rw [stomp_length, hn], Nat.zero_le _⟩
  · exact ⟨rollRepeat_colsOk _ _ _ _ hc, hn, by simp [hn]⟩

theorem swap_ok {N : Nat} (cols : Cols α) (ops : Data α) (hc : ColsOk N cols) (hn : ops.length = N) :
    StepOk N (swap cols ops) := by
  unfold swap
  refine ⟨?_, hn, ?_⟩
  · simp only []
    split
    · rename_i h
      have h1 : cols.length - 1 < cols.length := by omega
      have h2 : cols.length - 2 < cols.length := by omega
      apply colsOk_set (colsOk_set hc _ _ _) _ _ _
      · rw [List.getD_eq_getElem?_getD, List.getElem?_eq_getElem h2]; exact hc _ (List.getElem_mem h2)
      · rw [List.getD_eq_getElem?_getD, List.getElem?_eq_getElem h1]; exact hc _ (List.getElem_mem h1)
    · exact hc
  · simp only []
    split
    · exact Nat.zero_le _
    · rename_i h
      cases cols with
      | nil => simp at h
      | cons c rest => simp only [List.headD_cons]; exact Nat.le_of_eq (hc c List.mem_cons_self)

theorem fwd_ok {N : Nat} (nan : α) (cols : Cols α) (ops : Data α) (a : Action) (hc : ColsOk N cols)
    (hn : ops.length = N) : StepOk N (Stack.fwd nan cols ops a) := by
  cases a with
  | push a => exact push_ok cols ops a hc hn
  | pop a => exact pop_ok nan cols ops a hc hn
  | flip a => exact flip_ok nan cols ops a hc hn
  | roll m n => exact roll_ok nan cols ops m n hc hn
  | unroll m n => exact roll_ok nan cols ops m (m - n) hc hn
  | swap => exact swap_ok cols ops hc hn
  | drop => exact ⟨hc, hn, Nat.zero_le _⟩

theorem inv_ok {N : Nat} (nan : α) (cols : Cols α) (ops : Data α) (a : Action) (hc : ColsOk N cols)
    (hn : ops.length = N) : StepOk N (Stack.inv nan cols ops a) := by
  cases a with
  | push a => exact pop_ok nan cols ops a.reverse hc hn
  | pop a => exact push_ok cols ops a.reverse hc hn
  | flip a => exact flip_ok nan cols ops a hc hn
  | roll m n => exact roll_ok nan cols ops m (m - n) hc hn
  | unroll m n => exact roll_ok nan cols ops m n hc hn
  | swap => exact swap_ok cols ops hc hn
  | drop => exact ⟨hc, hn, Nat.zero_le _⟩

theorem legacyPush_ok {N : Nat} (cols : Cols α) (ops : Data α) (flags : Fin 4 → Bool) (hc : ColsOk N cols)
    (hn : ops.length = N) : StepOk N (legacyPush cols ops flags) := by
  have add : ∀ (c : Cols α) (j : Fin 4), ColsOk N c →
      ColsOk N (if flags j then c ++ [ops.map (·.get j)] else c) := by
    intro c j hcc
    split
    · apply colsOk_append hcc
      intro col hcol
      simp only [List.mem_cons, List.mem_nil_iff, or_false] at hcol
      subst hcol; simp [hn]
    · exact hcc
  exact ⟨add _ 3 (add _ 2 (add _ 1 (add _ 0 hc))), hn, by simp [legacyPush, hn]⟩

/-- one round of the legacy pop keeps the shape, whichever way it ends -/
theorem legacyPopOne_ok {N : Nat} (nan : α) (flags : Fin 4 → Bool) (j : Fin 4) (st : Cols α × Data α)
    (hc : ColsOk N st.1) (hn : st.2.length = N) :
    (legacyPopOne nan flags j st).2.length = N ∧
    ∀ s', (legacyPopOne nan flags j st).1 = some s' → ColsOk N s'.1 ∧ s'.2.length = N := by
  unfold legacyPopOne
  split
  · exact ⟨hn, fun s' h => by cases h; exact ⟨hc, hn⟩⟩
  · split
    · exact ⟨by simp [hn], fun s' h => by cases h⟩
    · rename_i v hv
      refine ⟨hn, fun s' h => ?_⟩
      cases h
      have hvm : v ∈ st.1 := List.mem_of_getLast? hv
      exact ⟨colsOk_dropLast hc, by rw [scatter_length _ _ _ (by rw [hc v hvm, hn]), hn]⟩

theorem legacyPop_ok {N : Nat} (nan : α) (cols : Cols α) (ops : Data α) (flags : Fin 4 → Bool) (hc : ColsOk N cols)
    (hn : ops.length = N) : StepOk N (legacyPop nan cols ops flags) := by
  unfold legacyPop
  have h3 := legacyPopOne_ok nan flags 3 (cols, ops) hc hn
  rcases e3 : legacyPopOne nan flags 3 (cols, ops) with ⟨_ | s3, o3⟩
  · rw [e3] at h3; dsimp only; exact ⟨hc, h3.1, Nat.zero_le _⟩
  · rw [e3] at h3
    dsimp only
    obtain ⟨hc3, hn3⟩ := h3.2 s3 rfl
    have h2 := legacyPopOne_ok nan flags 2 s3 hc3 hn3
    rcases e2 : legacyPopOne nan flags 2 s3 with ⟨_ | s2, o2⟩
    · rw [e2] at h2; dsimp only; exact ⟨hc3, h2.1, Nat.zero_le _⟩
    · rw [e2] at h2
      dsimp only
      obtain ⟨hc2, hn2⟩ := h2.2 s2 rfl
      have h1 := legacyPopOne_ok nan flags 1 s2 hc2 hn2
      rcases e1 : legacyPopOne nan flags 1 s2 with ⟨_ | s1, o1⟩
      · rw [e1] at h1; dsimp only; exact ⟨hc2, h1.1, Nat.zero_le _⟩
      · rw [e1] at h1
        dsimp only
        obtain ⟨hc1, hn1⟩ := h1.2 s1 rfl
        have h0 := legacyPopOne_ok nan flags 0 s1 hc1 hn1
        rcases e0 : legacyPopOne nan flags 0 s1 with ⟨_ | s0, o0⟩
        · rw [e0] at h0; dsimp only; exact ⟨hc1, h0.1, Nat.zero_le _⟩
        · rw [e0] at h0
          dsimp only
          obtain ⟨hc0, hn0⟩ := h0.2 s0 rfl
          exact ⟨hc0, hn0, Nat.le_of_eq hn⟩

end HonestLemmas
end Geodesy
