/-
The Lambert azimuthal equal-area projection of the unit sphere about an arbitrary centre: its
partial derivatives and its Jacobian determinant `cos ξ` (C05: laea preserves areas, oblique and
equatorial aspects).
-/
import Geodesy.Lemmas.Real
import Mathlib.Tactic.Linarith
import Mathlib.Tactic.FieldSimp
import Mathlib.Tactic.LinearCombination
import Mathlib.Analysis.SpecialFunctions.Sqrt
import Mathlib.Analysis.SpecialFunctions.Trigonometric.Deriv

namespace Geodesy
namespace LaeaSphere

/-- `1 + cos c`, `c` the angular distance from the centre -/
noncomputable def Cf (s0 c0 D xi : ℝ) : ℝ := 1 + s0 * Real.sin xi + c0 * Real.cos xi * Real.cos D
noncomputable def uf (D xi : ℝ) : ℝ := Real.cos xi * Real.sin D
noncomputable def vf (s0 c0 D xi : ℝ) : ℝ := c0 * Real.sin xi - s0 * Real.cos xi * Real.cos D
noncomputable def kf (s0 c0 D xi : ℝ) : ℝ := Real.sqrt (2 / Cf s0 c0 D xi)

theorem Cf_hasDerivAt_D (s0 c0 D xi : ℝ) :
    HasDerivAt (fun D => Cf s0 c0 D xi) (-(c0 * Real.cos xi * Real.sin D)) D := by
  have := ((Real.hasDerivAt_cos D).const_mul (c0 * Real.cos xi)).const_add (1 + s0 * Real.sin xi)
  refine this.congr_deriv ?_
  ring

theorem Cf_hasDerivAt_xi (s0 c0 D xi : ℝ) :
    HasDerivAt (fun xi => Cf s0 c0 D xi) (s0 * Real.cos xi - c0 * Real.sin xi * Real.cos D) xi := by
  have h1 := (Real.hasDerivAt_sin xi).const_mul s0
  have h2 := ((Real.hasDerivAt_cos xi).const_mul c0).mul_const (Real.cos D)
  have := (h1.add h2).const_add 1
  refine (this.congr_of_eventuallyEq (Filter.Eventually.of_forall fun x => ?_)).congr_deriv ?_
  · simp only [Cf, Pi.add_apply]; ring
  · ring

theorem kf_hasDerivAt (f : ℝ → ℝ) (f' x : ℝ) (hf : HasDerivAt f f' x) (hpos : 0 < f x) :
    HasDerivAt (fun x => Real.sqrt (2 / f x)) (-(2 * f') / (f x) ^ 2 / (2 * Real.sqrt (2 / f x))) x := by
  have h := (hasDerivAt_const x (2 : ℝ)).div hf hpos.ne'
  have hq : (2 : ℝ) / f x ≠ 0 := (div_pos two_pos hpos).ne'
  refine (h.sqrt hq).congr_deriv ?_
  simp only [Pi.div_apply]
  ring

/-- **the Jacobian determinant of the spherical Lambert azimuthal equal-area projection is `cos ξ`**:
the four partial derivatives of `(X, Y) = k·(u, v)`, `k = sqrt(2/(1 + cos c))`, exist wherever the
point is not the antipode of the centre, and `X_λ Y_ξ − X_ξ Y_λ = cos ξ` -/
theorem jacobian (s0 c0 D xi : ℝ) (h0 : s0 ^ 2 + c0 ^ 2 = 1) (hC : 0 < Cf s0 c0 D xi) :
    ∃ XL XX YL YX : ℝ,
      HasDerivAt (fun D => kf s0 c0 D xi * uf D xi) XL D ∧ HasDerivAt (fun xi => kf s0 c0 D xi * uf D xi) XX xi ∧
      HasDerivAt (fun D => kf s0 c0 D xi * vf s0 c0 D xi) YL D ∧ HasDerivAt (fun xi => kf s0 c0 D xi * vf s0 c0 D xi) YX xi ∧
      XL * YX - XX * YL = Real.cos xi := by
  set C := Cf s0 c0 D xi with hCdef
  set k := Real.sqrt (2 / C) with hk
  have hkpos : 0 < k := Real.sqrt_pos.mpr (div_pos two_pos hC)
  have hk2 : k * k = 2 / C := Real.mul_self_sqrt (div_pos two_pos hC).le
  set CL := -(c0 * Real.cos xi * Real.sin D) with hCL
  set CX := s0 * Real.cos xi - c0 * Real.sin xi * Real.cos D with hCX
  have dkL : HasDerivAt (fun D => kf s0 c0 D xi) (-(2 * CL) / C ^ 2 / (2 * k)) D :=
    kf_hasDerivAt (fun D => Cf s0 c0 D xi) CL D (Cf_hasDerivAt_D s0 c0 D xi) hC
  have dkX : HasDerivAt (fun xi => kf s0 c0 D xi) (-(2 * CX) / C ^ 2 / (2 * k)) xi :=
    kf_hasDerivAt (fun xi => Cf s0 c0 D xi) CX xi (Cf_hasDerivAt_xi s0 c0 D xi) hC
  have duL : HasDerivAt (fun D => uf D xi) (Real.cos xi * Real.cos D) D := (Real.hasDerivAt_sin D).const_mul _
  have duX : HasDerivAt (fun xi => uf D xi) (-Real.sin xi * Real.sin D) xi := (Real.hasDerivAt_cos xi).mul_const _
  have dvL : HasDerivAt (fun D => vf s0 c0 D xi) (s0 * Real.cos xi * Real.sin D) D := by
    have := ((Real.hasDerivAt_cos D).const_mul (s0 * Real.cos xi)).const_sub (c0 * Real.sin xi)
    refine this.congr_deriv ?_
    ring
  have dvX : HasDerivAt (fun xi => vf s0 c0 D xi) (c0 * Real.cos xi + s0 * Real.sin xi * Real.cos D) xi := by
    have h1 := (Real.hasDerivAt_sin xi).const_mul c0
    have h2 := ((Real.hasDerivAt_cos xi).const_mul s0).mul_const (Real.cos D)
    refine ((h1.sub h2).congr_of_eventuallyEq (Filter.Eventually.of_forall fun x => ?_)).congr_deriv ?_
    · simp only [vf, Pi.sub_apply]
    · ring
  set kL := -(2 * CL) / C ^ 2 / (2 * k) with hkL
  set kX := -(2 * CX) / C ^ 2 / (2 * k) with hkX
  set u := uf D xi with hu
  set v := vf s0 c0 D xi with hv
  refine ⟨kL * u + k * (Real.cos xi * Real.cos D), kX * u + k * (-Real.sin xi * Real.sin D),
    kL * v + k * (s0 * Real.cos xi * Real.sin D), kX * v + k * (c0 * Real.cos xi + s0 * Real.sin xi * Real.cos D),
    dkL.mul duL, dkX.mul duX, dkL.mul dvL, dkX.mul dvX, ?_⟩
  have hkkL : k * kL = -CL / C ^ 2 := by rw [hkL]; field_simp
  have hkkX : k * kX = -CX / C ^ 2 := by rw [hkX]; field_simp
  have hcs := Real.sin_sq_add_cos_sq xi
  have hds := Real.sin_sq_add_cos_sq D
  -- the determinant in terms of k², k·k_λ, k·k_ξ
  have hdet : (kL * u + k * (Real.cos xi * Real.cos D)) * (kX * v + k * (c0 * Real.cos xi + s0 * Real.sin xi * Real.cos D))
      - (kX * u + k * (-Real.sin xi * Real.sin D)) * (kL * v + k * (s0 * Real.cos xi * Real.sin D))
      = (k * k) * ((Real.cos xi * Real.cos D) * (c0 * Real.cos xi + s0 * Real.sin xi * Real.cos D) - (-Real.sin xi * Real.sin D) * (s0 * Real.cos xi * Real.sin D))
        + (k * kL) * (u * (c0 * Real.cos xi + s0 * Real.sin xi * Real.cos D) - (-Real.sin xi * Real.sin D) * v)
        + (k * kX) * ((Real.cos xi * Real.cos D) * v - u * (s0 * Real.cos xi * Real.sin D)) := by ring
  rw [hdet, hk2, hkkL, hkkX]
  have hCne : C ≠ 0 := hC.ne'
  rw [hu, hv, hCL, hCX]
  simp only [uf, vf]
  have hCexp : C = 1 + s0 * Real.sin xi + c0 * Real.cos xi * Real.cos D := rfl
  field_simp
  rw [hCexp]
  linear_combination
    (Real.cos D ^ 2 * Real.cos xi * c0 ^ 2 + 2 * Real.cos D ^ 2 * Real.cos xi * s0 ^ 2 + Real.sin D ^ 2 * Real.cos xi * c0 ^ 2
      + 2 * Real.sin D ^ 2 * Real.cos xi * s0 ^ 2 - Real.cos xi * s0 ^ 2) * hcs
    + (Real.cos D * Real.cos xi ^ 2 * c0 * Real.sin xi * s0 - Real.cos xi ^ 3 * s0 ^ 2 + Real.cos xi * c0 ^ 2
      + 2 * Real.cos xi * Real.sin xi * s0 + 2 * Real.cos xi * s0 ^ 2) * hds
    + Real.cos xi * h0

end LaeaSphere
end Geodesy
