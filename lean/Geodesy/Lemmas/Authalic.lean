/-
The authalic function `q(sin φ)` over the reals and its derivative: the ingredient of the
equal-area property of `laea` (C05).
-/
import Geodesy.Model.Num.Ellipsoid
import Geodesy.Lemmas.Real
import Mathlib.Tactic.Linarith
import Mathlib.Tactic.FieldSimp
import Mathlib.Analysis.SpecialFunctions.Log.Deriv
import Mathlib.Analysis.SpecialFunctions.Sqrt
import Mathlib.Analysis.SpecialFunctions.Trigonometric.Deriv

namespace Geodesy
namespace Authalic

/-- `qs` on an ellipsoid proper (`e ≥ 1e-7`), spelled out over the reals -/
theorem qs_eq (s e : ℝ) (he : ¬ e < 1e-7) :
    Ancillary.qs s e = (1 - e * e) * (s / (1 - e * s * (e * s)) - 0.5 / e * Real.log ((1 - e * s) / (1 + e * s))) := by
  have hlit : (Scalar.ofLit (.fin false 1 (-7)) : ℝ) = 1e-7 := by
    simp [Lit.toReal]; norm_num
  have one : (@OfScientific.ofScientific ℝ Scalar.instOfScientific 10 true 1) = 1 := by
    simp [OfScientific.ofScientific, Scalar.ofSci, Lit.toReal]
  have half : (@OfScientific.ofScientific ℝ Scalar.instOfScientific 5 true 1) = 0.5 := by
    simp only [OfScientific.ofScientific, Scalar.ofSci, scalar_ofLit, Lit.toReal]; norm_num
  unfold Ancillary.qs
  simp only [scalar_lt, hlit, decide_eq_true_eq, he, if_false, one, half, scalar_ln]

/-- **`dq/ds = 2(1 − e²)/(1 − e² s²)²`** for `|e s| < 1` -/
theorem q_hasDerivAt (e s : ℝ) (he0 : 0 < e) (hes : |e * s| < 1) :
    HasDerivAt (fun s => (1 - e * e) * (s / (1 - e * s * (e * s)) - 0.5 / e * Real.log ((1 - e * s) / (1 + e * s))))
      (2 * (1 - e * e) / (1 - e * s * (e * s)) ^ 2) s := by
  have hb := abs_lt.mp hes
  have hp : 0 < 1 + e * s := by linarith
  have hm : 0 < 1 - e * s := by linarith
  have hw : (1 - e * s * (e * s)) ≠ 0 := by
    have : 1 - e * s * (e * s) = (1 - e * s) * (1 + e * s) := by ring
    rw [this]; exact (mul_pos hm hp).ne'
  have des : HasDerivAt (fun s : ℝ => e * s) e s := by simpa using (hasDerivAt_id s).const_mul e
  have dden : HasDerivAt (fun s : ℝ => 1 - e * s * (e * s)) (-(e * (e * s) + e * s * e)) s :=
    (des.mul des).const_sub 1
  have dfrac := (hasDerivAt_id s).div dden hw
  have dnum : HasDerivAt (fun s : ℝ => 1 - e * s) (-e) s := des.const_sub 1
  have dplus : HasDerivAt (fun s : ℝ => 1 + e * s) e s := des.const_add 1
  have dq := dnum.div dplus hp.ne'
  have dlog := (Real.hasDerivAt_log (div_pos hm hp).ne').comp s dq
  have dall := ((dfrac.sub (dlog.const_mul (0.5 / e))).const_mul (1 - e * e))
  refine dall.congr_deriv ?_
  simp only [id]
  have hw' : 1 - e * s * (e * s) = (1 - e * s) * (1 + e * s) := by ring
  rw [hw']
  field_simp
  ring

end Authalic
end Geodesy
