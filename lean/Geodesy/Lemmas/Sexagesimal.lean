/-
ISO-6709 encodings and angle normalisation over the reals (C19).
-/
import Geodesy.Model.Num.Angular
import Geodesy.Lemmas.Real
import Mathlib.Tactic.Linarith
import Mathlib.Tactic.Ring
import Mathlib.Tactic.FieldSimp
import Mathlib.Algebra.Order.Floor.Ring
import Mathlib.Analysis.SpecialFunctions.Trigonometric.Basic

namespace Geodesy
namespace Sexagesimal
open Angular

@[simp] theorem scalar_signum (x : ℝ) : Scalar.signum x = if 0 ≤ x then 1 else -1 := rfl

/-- `x as u32` on the reals, in range: the floor -/
theorem asU32_eq (x : ℝ) (h0 : 0 ≤ x) (h1 : x < 4294967295) : asU32 x = ⌊x⌋₊ := by
  have hf0 : 0 ≤ ⌊x⌋ := Int.floor_nonneg.mpr h0
  have hf1 : ⌊x⌋ < 4294967295 := by
    have : (⌊x⌋ : ℝ) ≤ x := Int.floor_le x
    have : (⌊x⌋ : ℝ) < 4294967295 := by linarith
    exact_mod_cast this
  have : Scalar.toUsize x = ⌊x⌋.toNat := by
    show realToUsize x = _
    unfold realToUsize
    congr 1
    omega
  unfold asU32
  rw [this]
  have h2 : ⌊x⌋.toNat = ⌊x⌋₊ := rfl
  rw [h2]
  have : ⌊x⌋₊ < 4294967295 := by
    have := Int.toNat_lt' (n := 4294967295) (by norm_num) |>.mpr hf1
    simpa [h2] using this
  exact Nat.min_eq_left this.le

theorem floor_nat_add (k : ℕ) (m : ℝ) (h0 : 0 ≤ m) : ⌊(k : ℝ) + m⌋₊ = k + ⌊m⌋₊ := by
  rw [add_comm, Nat.floor_add_natCast h0, add_comm]

/-- the signed magnitude `s·v` with `s = ±1` (and `v > 0` when negative): absolute value and signum -/
theorem abs_signed (s v : ℝ) (hs : s = 1 ∨ s = -1) (hv : 0 ≤ v) : |s * v| = v := by
  rcases hs with rfl | rfl
  · simp [abs_of_nonneg hv]
  · simp [abs_of_nonneg hv]

theorem signum_signed (s v : ℝ) (hs : s = 1 ∨ s = -1) (hv : 0 ≤ v) (hneg : s = -1 → 0 < v) :
    (Scalar.signum (s * v) : ℝ) = s := by
  rcases hs with rfl | rfl
  · simp [hv]
  · have := hneg rfl
    simp only [scalar_signum, neg_mul, one_mul, Left.nonneg_neg_iff]
    rw [if_neg (by linarith)]

/-- decoding `±(100·d + m)` with `0 ≤ m < 60` gives `±(d + m/60)` -/
theorem iso_dm_core (d : ℕ) (m s : ℝ) (hm0 : 0 ≤ m) (hm : m < 60) (hr : (d : ℝ) * 100 + m < 4294967295)
    (hs : s = 1 ∨ s = -1) (hneg : s = -1 → 0 < (d : ℝ) * 100 + m) :
    isoDmToDd (s * ((d : ℝ) * 100 + m)) = s * ((d : ℝ) + m / 60) := by
  have hv : 0 ≤ (d : ℝ) * 100 + m := by positivity
  have hcast : (d : ℝ) * 100 + m = ((d * 100 : ℕ) : ℝ) + m := by push_cast; ring
  have hfl : ⌊(d : ℝ) * 100 + m⌋₊ = d * 100 + ⌊m⌋₊ := by rw [hcast, floor_nat_add _ _ hm0]
  have hmf : ⌊m⌋₊ < 60 := (Nat.floor_lt hm0).mpr (by exact_mod_cast hm)
  have hd : (d * 100 + ⌊m⌋₊) / 100 = d := by omega
  unfold isoDmToDd
  simp only [scalar_abs, abs_signed s _ hs hv, signum_signed s _ hs hv hneg, asU32_eq _ hv hr, hfl, hd,
    Angular.n, scalar_ofNatLit, scalar_ofInt]
  have : ((d * 100 + ⌊m⌋₊ - d * 100 : ℕ) : ℤ) = (⌊m⌋₊ : ℤ) := by congr 1; omega
  rw [this]
  push_cast
  ring

/-- **DDDMM.mmm is lossless**: decoding the encoding of a decimal-degree angle returns the angle, for every
angle, including `|x| < 1` and negative ones -/
theorem iso_dm_roundtrip (x : ℝ) (hx : |x| < 42949672) : isoDmToDd (ddToIsoDm x) = x := by
  have ha0 : 0 ≤ |x| := abs_nonneg x
  set d := ⌊|x|⌋₊ with hd
  have hfloor : (Scalar.floor |x| : ℝ) = (d : ℝ) := by
    show ((⌊|x|⌋ : ℤ) : ℝ) = _
    rw [hd, natCast_floor_eq_intCast_floor ha0]
  have hd1 : (d : ℝ) ≤ |x| := Nat.floor_le ha0
  have hd2 : |x| < d + 1 := Nat.lt_floor_add_one _
  have hs : (Scalar.signum x : ℝ) = 1 ∨ (Scalar.signum x : ℝ) = -1 := by
    simp only [scalar_signum]; split <;> simp
  have key : ddToIsoDm x = Scalar.signum x * ((d : ℝ) * 100 + (|x| - d) * 60) := by
    simp only [ddToIsoDm, scalar_abs, hfloor, Angular.n, scalar_ofNatLit]
    push_cast; ring
  rw [key, iso_dm_core d ((|x| - d) * 60) _ (by nlinarith) (by nlinarith) (by nlinarith) hs]
  · have : (d : ℝ) + (|x| - d) * 60 / 60 = |x| := by ring
    rw [this]
    simp only [scalar_signum]
    split
    · rw [one_mul, abs_of_nonneg ‹_›]
    · rw [abs_of_neg (by linarith)]; ring
  · intro hneg
    simp only [scalar_signum] at hneg
    have hxneg : x < 0 := by
      by_contra h; push_neg at h; rw [if_pos h] at hneg; norm_num at hneg
    have : 0 < |x| := abs_pos.mpr hxneg.ne
    nlinarith

/-- decoding `±(10000·d + 100·m + s)` with `m < 60`, `0 ≤ s < 60` gives `±(d + (m + s/60)/60)` -/
theorem iso_dms_core (d m : ℕ) (sec s : ℝ) (hm : m < 60) (hs0 : 0 ≤ sec) (hs1 : sec < 60)
    (hr : (d : ℝ) * 10000 + (m : ℝ) * 100 + sec < 4294967295)
    (hs : s = 1 ∨ s = -1) (hneg : s = -1 → 0 < (d : ℝ) * 10000 + (m : ℝ) * 100 + sec) :
    isoDmsToDd (s * ((d : ℝ) * 10000 + (m : ℝ) * 100 + sec)) = s * ((d : ℝ) + (sec / 60 + m) / 60) := by
  have hv : 0 ≤ (d : ℝ) * 10000 + (m : ℝ) * 100 + sec := by positivity
  have hcast : (d : ℝ) * 10000 + (m : ℝ) * 100 + sec = ((d * 10000 + m * 100 : ℕ) : ℝ) + sec := by push_cast; ring
  have hfl : ⌊(d : ℝ) * 10000 + (m : ℝ) * 100 + sec⌋₊ = d * 10000 + m * 100 + ⌊sec⌋₊ := by
    rw [hcast, floor_nat_add _ _ hs0]
  have hsf : ⌊sec⌋₊ < 60 := (Nat.floor_lt hs0).mpr (by exact_mod_cast hs1)
  have hd : (d * 10000 + m * 100 + ⌊sec⌋₊) / 10000 = d := by omega
  have hms : d * 10000 + m * 100 + ⌊sec⌋₊ - d * 10000 = m * 100 + ⌊sec⌋₊ := by omega
  have hm' : (m * 100 + ⌊sec⌋₊) / 100 = m := by omega
  have hsec : m * 100 + ⌊sec⌋₊ - m * 100 = ⌊sec⌋₊ := by omega
  unfold isoDmsToDd
  simp only [scalar_abs, abs_signed s _ hs hv, signum_signed s _ hs hv hneg, asU32_eq _ hv hr, hfl, hd, hms, hm', hsec,
    Angular.n, scalar_ofNatLit, scalar_ofInt]
  push_cast
  ring

/-- **DDDMMSS.sss is lossless** -/
theorem iso_dms_roundtrip (x : ℝ) (hx : |x| < 429496) : isoDmsToDd (ddToIsoDms x) = x := by
  have ha0 : 0 ≤ |x| := abs_nonneg x
  set d := ⌊|x|⌋₊ with hd
  have hfloor : (Scalar.floor |x| : ℝ) = (d : ℝ) := by
    show ((⌊|x|⌋ : ℤ) : ℝ) = _
    rw [hd, natCast_floor_eq_intCast_floor ha0]
  have hd1 : (d : ℝ) ≤ |x| := Nat.floor_le ha0
  have hd2 : |x| < d + 1 := Nat.lt_floor_add_one _
  have hmm0 : 0 ≤ (|x| - d) * 60 := by nlinarith
  have hmm1 : (|x| - d) * 60 < 60 := by nlinarith
  set m := ⌊(|x| - d) * 60⌋₊ with hm
  have hmfloor : (Scalar.floor ((|x| - d) * 60) : ℝ) = (m : ℝ) := by
    show ((⌊(|x| - d) * 60⌋ : ℤ) : ℝ) = _
    rw [hm, natCast_floor_eq_intCast_floor hmm0]
  have hm1 : (m : ℝ) ≤ (|x| - d) * 60 := Nat.floor_le hmm0
  have hm2 : (|x| - d) * 60 < m + 1 := Nat.lt_floor_add_one _
  have hm60 : m < 60 := (Nat.floor_lt hmm0).mpr (by exact_mod_cast hmm1)
  have hs : (Scalar.signum x : ℝ) = 1 ∨ (Scalar.signum x : ℝ) = -1 := by
    simp only [scalar_signum]; split <;> simp
  have key : ddToIsoDms x = Scalar.signum x * ((d : ℝ) * 10000 + (m : ℝ) * 100 + ((|x| - d) * 60 - m) * 60) := by
    simp only [ddToIsoDms, scalar_abs, hfloor, Angular.n, scalar_ofNatLit]
    push_cast
    rw [hmfloor]
  have hm60r : (m : ℝ) ≤ 59 := by exact_mod_cast Nat.lt_succ_iff.mp hm60
  rw [key, iso_dms_core d m (((|x| - d) * 60 - m) * 60) _ hm60 (by nlinarith) (by nlinarith) (by nlinarith) hs]
  · have : (d : ℝ) + (((|x| - d) * 60 - m) * 60 / 60 + m) / 60 = |x| := by ring
    rw [this]
    simp only [scalar_signum]
    split
    · rw [one_mul, abs_of_nonneg ‹_›]
    · rw [abs_of_neg (by linarith)]; ring
  · intro hneg
    simp only [scalar_signum] at hneg
    have hxneg : x < 0 := by
      by_contra h; push_neg at h; rw [if_pos h] at hneg; norm_num at hneg
    have hpos : 0 < |x| := abs_pos.mpr hxneg.ne
    have : (d : ℝ) * 10000 + (m : ℝ) * 100 + ((|x| - d) * 60 - m) * 60 = 6400 * d + 40 * m + 3600 * |x| := by ring
    rw [this]
    positivity

/-! ### angle normalisation -/

theorem two_pi_pos : (0 : ℝ) < 2 * Real.pi := by positivity

/-- the truncated remainder by `2π`: congruent, smaller than `2π` in magnitude, with the sign of the dividend -/
theorem fmod_two_pi (x : ℝ) :
    ∃ k : ℤ, Scalar.fmod x (2 * Real.pi) = x - 2 * Real.pi * k ∧
      (0 ≤ x → 0 ≤ Scalar.fmod x (2 * Real.pi) ∧ Scalar.fmod x (2 * Real.pi) < 2 * Real.pi) ∧
      (x < 0 → -(2 * Real.pi) < Scalar.fmod x (2 * Real.pi) ∧ Scalar.fmod x (2 * Real.pi) ≤ 0) := by
  have hp := two_pi_pos
  show ∃ k : ℤ, x - 2 * Real.pi * realTrunc (x / (2 * Real.pi)) = x - 2 * Real.pi * k ∧
      (0 ≤ x → 0 ≤ x - 2 * Real.pi * realTrunc (x / (2 * Real.pi)) ∧ x - 2 * Real.pi * realTrunc (x / (2 * Real.pi)) < 2 * Real.pi) ∧
      (x < 0 → -(2 * Real.pi) < x - 2 * Real.pi * realTrunc (x / (2 * Real.pi)) ∧ x - 2 * Real.pi * realTrunc (x / (2 * Real.pi)) ≤ 0)
  set t := x / (2 * Real.pi) with ht
  have hx : x = 2 * Real.pi * t := by rw [ht]; field_simp
  by_cases h : 0 ≤ t
  · have htr : realTrunc t = (⌊t⌋ : ℝ) := by simp [realTrunc, h]
    have h1 := Int.floor_le t
    have h2 := Int.lt_floor_add_one t
    refine ⟨⌊t⌋, by rw [htr], fun _ => ?_, fun hneg => ?_⟩
    · rw [htr]; constructor <;> nlinarith
    · exfalso; rw [hx] at hneg; nlinarith
  · push_neg at h
    have htr : realTrunc t = (⌈t⌉ : ℝ) := by simp [realTrunc, not_le.mpr h]
    have h1 := Int.le_ceil t
    have h2 := Int.ceil_lt_add_one t
    refine ⟨⌈t⌉, by rw [htr], fun hpos => ?_, fun _ => ?_⟩
    · exfalso; rw [hx] at hpos; nlinarith
    · rw [htr]; constructor <;> nlinarith

/-- **`normalize_positive` returns an equivalent angle in `[0, 2π)`** -/
theorem normalize_positive_spec (x : ℝ) :
    ∃ k : ℤ, normalizePositive x = x + 2 * Real.pi * k ∧ 0 ≤ normalizePositive x ∧ normalizePositive x < 2 * Real.pi := by
  obtain ⟨k, hk, hpos, hneg⟩ := fmod_two_pi x
  have hp := two_pi_pos
  have hn : normalizePositive x = if Scalar.fmod x (2 * Real.pi) < 0 then Scalar.fmod x (2 * Real.pi) + 2 * Real.pi
      else Scalar.fmod x (2 * Real.pi) := by
    simp [normalizePositive, Angular.n]
  rw [hn]
  by_cases hx : 0 ≤ x
  · obtain ⟨h0, h1⟩ := hpos hx
    rw [if_neg (not_lt.mpr h0)]
    exact ⟨-k, by rw [hk]; push_cast; ring, h0, h1⟩
  · obtain ⟨h0, h1⟩ := hneg (not_le.mp hx)
    by_cases hz : Scalar.fmod x (2 * Real.pi) < 0
    · rw [if_pos hz]
      exact ⟨1 - k, by rw [hk]; push_cast; ring, by linarith, by linarith⟩
    · rw [if_neg hz]
      exact ⟨-k, by rw [hk]; push_cast; ring, not_lt.mp hz, by linarith⟩

/-- **`normalize_symmetric` returns an equivalent angle in `[−π, π)`** -/
theorem normalize_symmetric_spec (x : ℝ) :
    ∃ k : ℤ, normalizeSymmetric x = x + 2 * Real.pi * k ∧ -Real.pi ≤ normalizeSymmetric x ∧ normalizeSymmetric x < Real.pi := by
  obtain ⟨k, hk, hpos, hneg⟩ := fmod_two_pi (x + Real.pi)
  have hp := Real.pi_pos
  have hn : normalizeSymmetric x = Scalar.fmod (x + Real.pi) (2 * Real.pi)
      - Real.pi * (if 0 ≤ Scalar.fmod (x + Real.pi) (2 * Real.pi) then 1 else -1) := by
    simp [normalizeSymmetric, Angular.n]
  rw [hn]
  by_cases hx : 0 ≤ x + Real.pi
  · obtain ⟨h0, h1⟩ := hpos hx
    rw [if_pos h0]
    exact ⟨-k, by rw [hk]; push_cast; ring, by linarith, by linarith⟩
  · obtain ⟨h0, h1⟩ := hneg (not_le.mp hx)
    by_cases hz : 0 ≤ Scalar.fmod (x + Real.pi) (2 * Real.pi)
    · rw [if_pos hz]
      exact ⟨-k, by rw [hk]; push_cast; ring, by linarith, by linarith⟩
    · rw [if_neg hz]
      exact ⟨1 - k, by rw [hk]; push_cast; ring, by linarith, by linarith⟩

end Sexagesimal
end Geodesy
