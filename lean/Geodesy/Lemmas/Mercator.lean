/-
Analysis of the Mercator family over the reals: the isometric latitude and its derivative,
`asinh(tan φ) = ln tan(π/4 + φ/2)`.  Used by C05 (conformality) and C13 (merc on a sphere).
-/
import Geodesy.Model.Ops.Merc
import Geodesy.Lemmas.Real
import Mathlib.Tactic.Linarith
import Mathlib.Tactic.FieldSimp
import Mathlib.Analysis.SpecialFunctions.Arsinh
import Mathlib.Analysis.SpecialFunctions.Log.Deriv
import Mathlib.Analysis.SpecialFunctions.Trigonometric.ArctanDeriv
import Mathlib.Analysis.SpecialFunctions.Trigonometric.Deriv

namespace Geodesy
namespace Mercator
open Text Ops

/-- the isometric latitude as the model computes it, over the reals -/
theorem isometric_eq (el : Ellipsoid ℝ) (phi : ℝ) :
    el.latitudeGeographicToIsometric phi =
      Real.arsinh (Real.tan phi) - Real.log ((1 + el.eccentricity * Real.sin phi) / (1 - el.eccentricity * Real.sin phi)) / 2 * el.eccentricity := by
  simp [Ellipsoid.latitudeGeographicToIsometric, Ancillary.gudermannianInv, Scalar.atanh, instScalarReal]

/-- **the derivative of the isometric latitude**: `dψ/dφ = (1 − e²) / ((1 − e² sin²φ) cos φ)` -/
theorem isometric_hasDerivAt (e phi : ℝ) (he0 : 0 ≤ e) (he1 : e < 1) (h1 : -(Real.pi / 2) < phi) (h2 : phi < Real.pi / 2) :
    HasDerivAt (fun x => Real.arsinh (Real.tan x) - Real.log ((1 + e * Real.sin x) / (1 - e * Real.sin x)) / 2 * e)
      ((1 - e ^ 2) / ((1 - e ^ 2 * Real.sin phi ^ 2) * Real.cos phi)) phi := by
  have hc : 0 < Real.cos phi := Real.cos_pos_of_mem_Ioo ⟨h1, h2⟩
  have hs : |Real.sin phi| ≤ 1 := Real.abs_sin_le_one phi
  have hes : |e * Real.sin phi| < 1 := by
    rw [abs_mul, abs_of_nonneg he0]
    calc e * |Real.sin phi| ≤ e * 1 := mul_le_mul_of_nonneg_left hs he0
      _ < 1 := by linarith
  have hp : 0 < 1 + e * Real.sin phi := by have := abs_lt.mp hes; linarith
  have hm : 0 < 1 - e * Real.sin phi := by have := abs_lt.mp hes; linarith
  -- arsinh ∘ tan
  have d1 : HasDerivAt (fun x => Real.arsinh (Real.tan x)) ((Real.sqrt (1 + Real.tan phi ^ 2))⁻¹ * (1 / Real.cos phi ^ 2)) phi :=
    (Real.hasDerivAt_arsinh (Real.tan phi)).comp phi (Real.hasDerivAt_tan hc.ne')
  have htan : 1 + Real.tan phi ^ 2 = 1 / Real.cos phi ^ 2 := by
    rw [Real.tan_eq_sin_div_cos]; field_simp; nlinarith [Real.sin_sq_add_cos_sq phi]
  have hsqrt : Real.sqrt (1 + Real.tan phi ^ 2) = 1 / Real.cos phi := by
    rw [htan, show (1 : ℝ) / Real.cos phi ^ 2 = (1 / Real.cos phi) ^ 2 by ring]
    exact Real.sqrt_sq (by positivity)
  -- the logarithmic term
  have dsin : HasDerivAt (fun x => e * Real.sin x) (e * Real.cos phi) phi := (Real.hasDerivAt_sin phi).const_mul e
  have dnum : HasDerivAt (fun x => 1 + e * Real.sin x) (e * Real.cos phi) phi := dsin.const_add 1
  have dden : HasDerivAt (fun x => 1 - e * Real.sin x) (-(e * Real.cos phi)) phi := dsin.const_sub 1
  have dq := dnum.div dden hm.ne'
  have dlog := (Real.hasDerivAt_log (div_pos hp hm).ne').comp phi dq
  have dterm := (dlog.div_const 2).mul_const e
  refine (d1.sub dterm).congr_deriv ?_
  rw [hsqrt]
  have hw : 1 - e ^ 2 * Real.sin phi ^ 2 = (1 + e * Real.sin phi) * (1 - e * Real.sin phi) := by ring
  rw [hw]
  field_simp
  have := Real.sin_sq_add_cos_sq phi
  nlinarith [this]

/-- `tan(π/4 + φ/2) = tan φ + 1/cos φ` between the poles -/
theorem tan_quarter_add_half (phi : ℝ) (h1 : -(Real.pi / 2) < phi) (h2 : phi < Real.pi / 2) :
    Real.tan (Real.pi / 4 + phi / 2) = Real.tan phi + 1 / Real.cos phi := by
  have hc : 0 < Real.cos phi := Real.cos_pos_of_mem_Ioo ⟨h1, h2⟩
  have hu : 0 < Real.cos (Real.pi / 4 + phi / 2) := Real.cos_pos_of_mem_Ioo ⟨by linarith [Real.pi_pos], by linarith⟩
  rw [Real.tan_eq_sin_div_cos, Real.tan_eq_sin_div_cos, ← add_div, div_eq_div_iff hu.ne' hc.ne']
  have e1 : Real.sin phi = 2 * Real.sin (phi / 2) * Real.cos (phi / 2) := by
    rw [← Real.sin_two_mul]; ring_nf
  have e2 : Real.cos phi = Real.cos (phi / 2) ^ 2 - Real.sin (phi / 2) ^ 2 := by
    have := Real.cos_sq_add_sin_sq (phi / 2)
    have h := Real.cos_two_mul (phi / 2)
    rw [show 2 * (phi / 2) = phi by ring] at h
    nlinarith
  rw [Real.sin_add, Real.cos_add, Real.sin_pi_div_four, Real.cos_pi_div_four, e1, e2]
  have hsq := Real.cos_sq_add_sin_sq (phi / 2)
  have h1s : 2 * Real.sin (phi / 2) * Real.cos (phi / 2) + 1 = (Real.cos (phi / 2) + Real.sin (phi / 2)) ^ 2 := by
    nlinarith [hsq]
  rw [h1s]
  ring

/-- `asinh(tan φ) = ln tan(π/4 + φ/2)` between the poles: the isometric latitude on a sphere -/
theorem arsinh_tan_eq (phi : ℝ) (h1 : -(Real.pi / 2) < phi) (h2 : phi < Real.pi / 2) :
    Real.arsinh (Real.tan phi) = Real.log (Real.tan (Real.pi / 4 + phi / 2)) := by
  have hc : 0 < Real.cos phi := Real.cos_pos_of_mem_Ioo ⟨h1, h2⟩
  have htan : 1 + Real.tan phi ^ 2 = (1 / Real.cos phi) ^ 2 := by
    rw [Real.tan_eq_sin_div_cos]; field_simp; nlinarith [Real.sin_sq_add_cos_sq phi]
  rw [Real.arsinh, htan, Real.sqrt_sq (by positivity), tan_quarter_add_half phi h1 h2]

end Mercator
end Geodesy
