/-
Analysis of the Lambert conformal conic over the reals: `ts(φ) = exp(−ψ(φ))` with ψ the
isometric latitude, hence the radius `ρ(φ) = c·ts(φ)ⁿ = c·exp(−nψ)` has derivative `−nρψ'`.
Used by C05 (conformality of lcc).
-/
import Geodesy.Model.Ops.Lcc
import Geodesy.Lemmas.Mercator

namespace Geodesy
namespace Conic
open Text Ops Mercator

/-- the isometric latitude for first eccentricity `e`, as a real function -/
noncomputable def psi (e x : ℝ) : ℝ :=
  Real.arsinh (Real.tan x) - Real.log ((1 + e * Real.sin x) / (1 - e * Real.sin x)) / 2 * e

theorem one_add_sin_pos (phi : ℝ) (hc : 0 < Real.cos phi) : 0 < 1 + Real.sin phi := by
  by_contra hneg
  push_neg at hneg
  have h1 : Real.sin phi = -1 := le_antisymm (by linarith) (Real.neg_one_le_sin phi)
  have h2 : Real.cos phi ^ 2 = 0 := by nlinarith [Real.sin_sq_add_cos_sq phi]
  have := pow_eq_zero_iff (two_ne_zero) |>.mp h2
  linarith

/-- `exp(−asinh(tan φ)) = cos φ / (1 + sin φ)` between the poles -/
theorem exp_neg_arsinh_tan (phi : ℝ) (h1 : -(Real.pi / 2) < phi) (h2 : phi < Real.pi / 2) :
    Real.exp (-Real.arsinh (Real.tan phi)) = Real.cos phi / (1 + Real.sin phi) := by
  have hc : 0 < Real.cos phi := Real.cos_pos_of_mem_Ioo ⟨h1, h2⟩
  have hs : 0 < 1 + Real.sin phi := one_add_sin_pos phi hc
  have htan : 1 + Real.tan phi ^ 2 = (1 / Real.cos phi) ^ 2 := by
    rw [Real.tan_eq_sin_div_cos]; field_simp; nlinarith [Real.sin_sq_add_cos_sq phi]
  rw [Real.exp_neg, Real.exp_arsinh, htan, Real.sqrt_sq (by positivity), Real.tan_eq_sin_div_cos,
    ← add_div, inv_div, add_comm]

/-- **`ts` is the exponential of minus the isometric latitude** between the poles -/
theorem ts_eq (e phi : ℝ) (h1 : -(Real.pi / 2) < phi) (h2 : phi < Real.pi / 2) :
    Ancillary.ts (Real.sin phi) (Real.cos phi) e = Real.exp (-(psi e phi)) := by
  have hc : 0 < Real.cos phi := Real.cos_pos_of_mem_Ioo ⟨h1, h2⟩
  have hsq := Real.sin_sq_add_cos_sq phi
  have hs : 0 < 1 + Real.sin phi := one_add_sin_pos phi hc
  have one : (@OfScientific.ofScientific ℝ Scalar.instOfScientific 10 true 1) = 1 := by
    simp [OfScientific.ofScientific, Scalar.ofSci, Lit.toReal]
  have hAB : (1 - Real.sin phi) / Real.cos phi = Real.cos phi / (1 + Real.sin phi) := by
    rw [div_eq_div_iff hc.ne' hs.ne']; nlinarith
  have hsplit : -(psi e phi) = e * (Real.log ((1 + e * Real.sin phi) / (1 - e * Real.sin phi)) / 2)
      + -Real.arsinh (Real.tan phi) := by unfold psi; ring
  rw [hsplit, Real.exp_add, exp_neg_arsinh_tan phi h1 h2]
  simp only [Ancillary.ts, one, scalar_exp]
  rw [hAB, ite_self]
  rfl

/-- the radius of the parallel in the lcc plane, `c · ts(φ)ⁿ`, is `c · exp(−nψ)` -/
theorem rho_eq (c n e phi : ℝ) (h1 : -(Real.pi / 2) < phi) (h2 : phi < Real.pi / 2) :
    c * Scalar.pow (Ancillary.ts (Scalar.sin phi) (Scalar.cos phi) e) n = c * Real.exp (-(psi e phi) * n) := by
  simp only [scalar_sin, scalar_cos]
  rw [ts_eq e phi h1 h2, Real.exp_mul]
  rfl

/-- **`dρ/dφ = −n ρ ψ'`** with `ψ' = (1 − e²)/((1 − e² sin²φ) cos φ)` -/
theorem rho_hasDerivAt (c n e phi : ℝ) (he0 : 0 ≤ e) (he1 : e < 1) (h1 : -(Real.pi / 2) < phi) (h2 : phi < Real.pi / 2) :
    HasDerivAt (fun x => c * Real.exp (-(psi e x) * n))
      (-(n * (c * Real.exp (-(psi e phi) * n)) * ((1 - e ^ 2) / ((1 - e ^ 2 * Real.sin phi ^ 2) * Real.cos phi)))) phi := by
  have dpsi : HasDerivAt (psi e) _ phi := isometric_hasDerivAt e phi he0 he1 h1 h2
  have := ((dpsi.neg.mul_const n).exp).const_mul c
  refine this.congr_deriv ?_
  simp only [Pi.neg_apply]
  ring

end Conic
end Geodesy
