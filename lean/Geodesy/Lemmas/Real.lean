/-
The real-number reading of the scalar class, under which theorems about the numeric model are
stated.  `Scalar ℝ` maps every operation to its Mathlib counterpart; the `scalar_*` simp lemmas
rewrite class projections into ordinary real expressions so that `ring`, `field_simp`,
`linarith`, `nlinarith` see Mathlib terms.

What ℝ cannot express: NaN and the infinities (`ofLit .nan` and `ofLit (.inf _)` are junk values,
`isNaN` is constantly false).  Theorems that involve NaN are stated over other readings.
-/
import Geodesy.Model.Scalar
import Mathlib.Analysis.SpecialFunctions.Trigonometric.Arctan
import Mathlib.Analysis.SpecialFunctions.Arsinh
import Mathlib.Analysis.SpecialFunctions.Pow.Real
import Mathlib.Analysis.SpecialFunctions.Complex.Arg
import Mathlib.Tactic.Ring
import Mathlib.Tactic.FieldSimp
import Mathlib.Tactic.LinearCombination
import Mathlib.Tactic.NormNum
import Mathlib.Tactic.Positivity

namespace Geodesy
open Classical

noncomputable section

/-- exact value of a finite literal -/
def Lit.toReal : Lit → ℝ
  | .nan => 0
  | .inf _ => 0
  | .fin neg mant e10 => (if neg then -1 else 1) * (mant : ℝ) * (10 : ℝ) ^ e10

def realTrunc (x : ℝ) : ℝ := if 0 ≤ x then (⌊x⌋ : ℝ) else (⌈x⌉ : ℝ)

def realToI64 (x : ℝ) : Int :=
  let t : Int := if 0 ≤ x then ⌊x⌋ else ⌈x⌉
  max (-(2 ^ 63)) (min (2 ^ 63 - 1) t)

def realToUsize (x : ℝ) : Nat := (max 0 (min (2 ^ 64 - 1) (⌊x⌋))).toNat

instance instScalarReal : Scalar ℝ where
  ofLit := Lit.toReal
  sqrt := Real.sqrt
  sin := Real.sin
  cos := Real.cos
  tan := Real.tan
  asin := Real.arcsin
  atan := Real.arctan
  sinh := Real.sinh
  cosh := Real.cosh
  tanh := Real.tanh
  asinh := Real.arsinh
  atanh := fun x => Real.log ((1 + x) / (1 - x)) / 2
  exp := Real.exp
  ln := Real.log
  floor := fun x => (⌊x⌋ : ℝ)
  ceil := fun x => (⌈x⌉ : ℝ)
  trunc := realTrunc
  abs := fun x => |x|
  signum := fun x => if 0 ≤ x then 1 else -1
  atan2 := fun y x => Complex.arg ⟨x, y⟩
  hypot := fun x y => Real.sqrt (x * x + y * y)
  pow := fun x y => x ^ y
  copysign := fun x y => if 0 ≤ y then |x| else -|x|
  fmod := fun x y => x - y * realTrunc (x / y)
  lt := fun a b => decide (a < b)
  le := fun a b => decide (a ≤ b)
  beq := fun a b => decide (a = b)
  isNaN := fun _ => false
  toI64 := realToI64
  toUsize := realToUsize
  ofInt := fun i => (i : ℝ)
  toF32 := fun x => x
  isFinite := fun _ => true
  pi := Real.pi
  mulAdd := fun a b c => a * b + c

end

/-! ### normalisation lemmas (all `rfl`) -/

@[simp] theorem scalar_sin (x : ℝ) : Scalar.sin x = Real.sin x := rfl
@[simp] theorem scalar_cos (x : ℝ) : Scalar.cos x = Real.cos x := rfl
@[simp] theorem scalar_tan (x : ℝ) : Scalar.tan x = Real.tan x := rfl
@[simp] theorem scalar_sqrt (x : ℝ) : Scalar.sqrt x = Real.sqrt x := rfl
@[simp] theorem scalar_atan (x : ℝ) : Scalar.atan x = Real.arctan x := rfl
@[simp] theorem scalar_asin (x : ℝ) : Scalar.asin x = Real.arcsin x := rfl
@[simp] theorem scalar_sinh (x : ℝ) : Scalar.sinh x = Real.sinh x := rfl
@[simp] theorem scalar_cosh (x : ℝ) : Scalar.cosh x = Real.cosh x := rfl
@[simp] theorem scalar_tanh (x : ℝ) : Scalar.tanh x = Real.tanh x := rfl
@[simp] theorem scalar_asinh (x : ℝ) : Scalar.asinh x = Real.arsinh x := rfl
@[simp] theorem scalar_exp (x : ℝ) : Scalar.exp x = Real.exp x := rfl
@[simp] theorem scalar_ln (x : ℝ) : Scalar.ln x = Real.log x := rfl
@[simp] theorem scalar_abs (x : ℝ) : Scalar.abs x = |x| := rfl
@[simp] theorem scalar_mulAdd (a b c : ℝ) : Scalar.mulAdd a b c = a * b + c := rfl
@[simp] theorem scalar_pi : (Scalar.pi : ℝ) = Real.pi := rfl
@[simp] theorem scalar_ofInt (i : Int) : (Scalar.ofInt i : ℝ) = (i : ℝ) := rfl
@[simp] theorem scalar_isNaN (x : ℝ) : Scalar.isNaN x = false := rfl
@[simp] theorem scalar_lt (a b : ℝ) : Scalar.lt a b = decide (a < b) := rfl
@[simp] theorem scalar_le (a b : ℝ) : Scalar.le a b = decide (a ≤ b) := rfl
@[simp] theorem scalar_beq (a b : ℝ) : Scalar.beq a b = decide (a = b) := rfl
@[simp] theorem scalar_ne (a b : ℝ) : Scalar.ne a b = !decide (a = b) := rfl
@[simp] theorem scalar_ofLit (l : Lit) : (Scalar.ofLit l : ℝ) = l.toReal := rfl
@[simp] theorem scalar_ofNatLit (n : Nat) : (Scalar.ofNatLit n : ℝ) = (n : ℝ) := by
  simp [Scalar.ofNatLit, Lit.toReal]
@[simp] theorem scalar_hypot (x y : ℝ) : Scalar.hypot x y = Real.sqrt (x * x + y * y) := rfl
@[simp] theorem scalar_floor (x : ℝ) : Scalar.floor x = (⌊x⌋ : ℝ) := rfl
@[simp] theorem scalar_ceil (x : ℝ) : Scalar.ceil x = (⌈x⌉ : ℝ) := rfl
@[simp] theorem scalar_atan2 (y x : ℝ) : Scalar.atan2 y x = Complex.arg ⟨x, y⟩ := rfl
@[simp] theorem scalar_toRadians (x : ℝ) : Scalar.toRadians x = x * (Real.pi / 180) := by
  simp [Scalar.toRadians]
@[simp] theorem scalar_toDegrees (x : ℝ) : Scalar.toDegrees x = x * (180 / Real.pi) := by
  simp [Scalar.toDegrees]

end Geodesy
