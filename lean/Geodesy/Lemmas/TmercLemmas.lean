/-
The transverse Mercator on its central meridian: with a vanishing imaginary argument the complex
Clenshaw summation has a vanishing imaginary part (C05).
-/
import Geodesy.Model.Ops.Tmerc
import Geodesy.Lemmas.Real
import Mathlib.Tactic.Ring
import Mathlib.Tactic.Linarith
import Mathlib.Analysis.SpecialFunctions.Arsinh

namespace Geodesy
namespace TmercLemmas
open Series

/-- one round of the complex Clenshaw recurrence, as in `complexSinTrig` -/
def cstep (r i : ℝ) (s : CState ℝ) (c : ℝ) : CState ℝ :=
  { hr2 := s.hr1, hi2 := s.hi1, hr1 := s.hr, hi1 := s.hi,
    hr := -s.hr1 + r * s.hr - i * s.hi + c,
    hi := -s.hi1 + i * s.hr + r * s.hi }

/-- the imaginary accumulators stay zero when the imaginary argument is zero -/
theorem clenshaw_imag_zero (r : ℝ) (cs : List ℝ) (s : CState ℝ) (h : s.hi = 0 ∧ s.hi1 = 0) :
    (cs.foldl (cstep r 0) s).hi = 0 ∧ (cs.foldl (cstep r 0) s).hi1 = 0 := by
  induction cs generalizing s with
  | nil => exact h
  | cons c rest ih =>
    simp only [List.foldl_cons]
    apply ih
    obtain ⟨h0, h1⟩ := h
    simp [cstep, h0, h1]

theorem complexSinTrig_imag_zero (sinR cosR coshI : ℝ) (cs : List ℝ) :
    (complexSinTrig sinR cosR 0 coshI cs).2 = 0 := by
  have z : (@OfNat.ofNat ℝ 0 Scalar.instOfNat) = 0 := by
    show (Scalar.ofNatLit 0 : ℝ) = 0
    simp
  unfold complexSinTrig
  cases hrev : cs.reverse with
  | nil => simp only [z]
  | cons c rest =>
    simp only [mul_zero, z]
    have key : ∀ (r : ℝ) (init : CState ℝ), init.hi = 0 → init.hi1 = 0 →
        (List.foldl (fun (s : CState ℝ) c =>
          ({ hr2 := s.hr1, hi2 := s.hi1, hr1 := s.hr, hi1 := s.hi,
             hr := -s.hr1 + r * s.hr - 0 * s.hi + c,
             hi := -s.hi1 + 0 * s.hr + r * s.hi } : CState ℝ)) init rest).hi = 0 :=
      fun r init h0 h1 => (clenshaw_imag_zero r rest init ⟨h0, h1⟩).1
    rw [key _ _ rfl rfl]
    ring

end TmercLemmas
end Geodesy
