/-
The transverse Mercator on its central meridian: with a vanishing imaginary argument the complex
Clenshaw summation has a vanishing imaginary part (C05).
-/
import Geodesy.Model.Ops.Tmerc
import Geodesy.Lemmas.Real
import Mathlib.Tactic.Ring
import Mathlib.Tactic.Linarith
import Mathlib.Analysis.SpecialFunctions.Arsinh
import Mathlib.Analysis.SpecialFunctions.Complex.Arg
import Mathlib.Analysis.SpecialFunctions.Trigonometric.Arctan

namespace Geodesy
namespace TmercLemmas
open Series

/-- one round of the complex Clenshaw recurrence, as in `complexSinTrig` -/
def cstep (r i : ℝ) (s : CState ℝ) (c : ℝ) : CState ℝ :=
  { hr2 := s.hr1, hi2 := s.hi1, hr1 := s.hr, hi1 := s.hi,
    hr := -s.hr1 + r * s.hr - i * s.hi + c,
    hi := -s.hi1 + i * s.hr + r * s.hi }

/-- the imaginary accumulators stay zero when the imaginary argument is zero -/
theorem clenshaw_imag_zero (r : ℝ) (cs : List ℝ) (s : CState ℝ) (h : s.hi = 0 ∧ s.hi1 = 0) :
    (cs.foldl (cstep r 0) s).hi = 0 ∧ (cs.foldl (cstep r 0) s).hi1 = 0 := by
  induction cs generalizing s with
  | nil => exact h
  | cons c rest ih =>
    simp only [List.foldl_cons]
    apply ih
    obtain ⟨h0, h1⟩ := h
    simp [cstep, h0, h1]

theorem complexSinTrig_imag_zero (sinR cosR coshI : ℝ) (cs : List ℝ) :
    (complexSinTrig sinR cosR 0 coshI cs).2 = 0 := by
  have z : (@OfNat.ofNat ℝ 0 Scalar.instOfNat) = 0 := by
    show (Scalar.ofNatLit 0 : ℝ) = 0
    simp
  unfold complexSinTrig
  cases hrev : cs.reverse with
  | nil => simp only [z]
  | cons c rest =>
    simp only [mul_zero, z]
    have key : ∀ (r : ℝ) (init : CState ℝ), init.hi = 0 → init.hi1 = 0 →
        (List.foldl (fun (s : CState ℝ) c =>
          ({ hr2 := s.hr1, hi2 := s.hi1, hr1 := s.hr, hi1 := s.hi,
             hr := -s.hr1 + r * s.hr - 0 * s.hi + c,
             hi := -s.hi1 + 0 * s.hr + r * s.hi } : CState ℝ)) init rest).hi = 0 :=
      fun r init h0 h1 => (clenshaw_imag_zero r rest init ⟨h0, h1⟩).1
    rw [key _ _ rfl rfl]
    ring

/-- the real part of the complex Clenshaw sum at a vanishing imaginary argument (`sinh = 0`,
`cosh = 1`) is the real Clenshaw sum: state by state -/
theorem clenshaw_real_state (r : ℝ) (cs : List ℝ) (st : CState ℝ) (pr : ℝ × ℝ)
    (h : st.hr = pr.1 ∧ st.hr1 = pr.2) :
    (cs.foldl (cstep r 0) st).hr = (cs.foldl (fun (s : ℝ × ℝ) c => (Scalar.mulAdd r s.1 (c - s.2), s.1)) pr).1 ∧
    (cs.foldl (cstep r 0) st).hr1 = (cs.foldl (fun (s : ℝ × ℝ) c => (Scalar.mulAdd r s.1 (c - s.2), s.1)) pr).2 := by
  induction cs generalizing st pr with
  | nil => exact h
  | cons c rest ih =>
    simp only [List.foldl_cons]
    apply ih
    obtain ⟨h0, h1⟩ := h
    constructor
    · simp only [cstep, scalar_mulAdd, h0, h1]; ring
    · simp only [cstep, h0]

theorem complexSinTrig_real (sinR cosR : ℝ) (cs : List ℝ) :
    (complexSinTrig sinR cosR 0 1 cs).1 = sinR * (clenshaw (2 * cosR) cs).1 := by
  have z : (@OfNat.ofNat ℝ 0 Scalar.instOfNat) = 0 := by
    show (Scalar.ofNatLit 0 : ℝ) = 0
    simp
  have two : (@OfScientific.ofScientific ℝ Scalar.instOfScientific 20 true 1) = 2 := by
    simp only [OfScientific.ofScientific, Scalar.ofSci, scalar_ofLit, Lit.toReal]; norm_num
  unfold complexSinTrig clenshaw
  cases hrev : cs.reverse with
  | nil => simp only [z, List.foldl_nil]; ring
  | cons c rest =>
    simp only [mul_zero, mul_one, z, two, List.foldl_cons, scalar_mulAdd, sub_zero, zero_add]
    have key := clenshaw_real_state (2 * cosR) rest
      ({ hr2 := 0, hr1 := 0, hr := c, hi2 := 0, hi1 := 0, hi := 0 } : CState ℝ) (c, 0) ⟨rfl, rfl⟩
    have himag := clenshaw_imag_zero (2 * cosR) rest
      ({ hr2 := 0, hr1 := 0, hr := c, hi2 := 0, hi1 := 0, hi := 0 } : CState ℝ) ⟨rfl, rfl⟩
    show sinR * (List.foldl (cstep (2 * cosR) 0) _ rest).hr - 0 * (List.foldl (cstep (2 * cosR) 0) _ rest).hi = _
    rw [key.1]
    simp only [scalar_mulAdd]
    ring

/-- `atan2(sin z, cos z) = z` between the poles -/
theorem atan2_sin_cos (z : ℝ) (h1 : -(Real.pi / 2) < z) (h2 : z < Real.pi / 2) :
    (Scalar.atan2 (Real.sin z) (Real.cos z) : ℝ) = z := by
  show Complex.arg ⟨Real.cos z, Real.sin z⟩ = z
  have hc : 0 < Real.cos z := Real.cos_pos_of_mem_Ioo ⟨h1, h2⟩
  have hlt : |Complex.arg ⟨Real.cos z, Real.sin z⟩| < Real.pi / 2 := Complex.abs_arg_lt_pi_div_two_iff.mpr (Or.inl hc)
  have h := abs_lt.mp hlt
  rw [← Real.arctan_tan h.1 h.2, Complex.tan_arg]
  show Real.arctan (Real.sin z / Real.cos z) = z
  rw [← Real.tan_eq_sin_div_cos, Real.arctan_tan h1 h2]

end TmercLemmas
end Geodesy
