/-
Helper lemmas for C12: the column machine of the code, looked at one operand at a time
(`slice i`), is the abstract per-tuple machine of `Spec/StackMachine.lean`.
-/
import Geodesy.Spec.StackMachine

namespace Geodesy
namespace StackLemmas
open Stack Spec
variable {α : Type}

/-- the stack of operand number `i`: element `i` of every column, bottom first -/
def slice (nan : α) (i : Nat) (cols : Cols α) : List α := cols.map (·.getD i nan)

/-- every column holds one value per operand -/
def ColsOk (n : Nat) (cols : Cols α) : Prop := ∀ c ∈ cols, c.length = n

@[simp] theorem slice_nil (nan : α) (i : Nat) : slice nan i ([] : Cols α) = [] := rfl
@[simp] theorem slice_length (nan : α) (i : Nat) (cols : Cols α) : (slice nan i cols).length = cols.length := by
  simp [slice]
theorem slice_append (nan : α) (i : Nat) (a b : Cols α) : slice nan i (a ++ b) = slice nan i a ++ slice nan i b := by
  simp [slice]
theorem slice_take (nan : α) (i k : Nat) (a : Cols α) : slice nan i (a.take k) = (slice nan i a).take k := by
  simp [slice, List.map_take]
theorem slice_drop (nan : α) (i k : Nat) (a : Cols α) : slice nan i (a.drop k) = (slice nan i a).drop k := by
  simp [slice, List.map_drop]
theorem slice_reverse (nan : α) (i : Nat) (a : Cols α) : slice nan i a.reverse = (slice nan i a).reverse := by
  simp [slice, List.map_reverse]
theorem slice_dropLast (nan : α) (i : Nat) (a : Cols α) : slice nan i a.dropLast = (slice nan i a).dropLast := by
  simp [slice, List.map_dropLast]
theorem slice_set (nan : α) (i k : Nat) (a : Cols α) (c : List α) :
    slice nan i (a.set k c) = (slice nan i a).set k (c.getD i nan) := by
  simp [slice, List.map_set]
theorem slice_getLast? (nan : α) (i : Nat) (a : Cols α) :
    (slice nan i a).getLast? = a.getLast?.map (·.getD i nan) := by
  simp [slice, List.getLast?_map]
theorem slice_getElem? (nan : α) (i k : Nat) (a : Cols α) :
    (slice nan i a)[k]? = a[k]?.map (·.getD i nan) := by
  simp [slice]

theorem colsOk_append {n : Nat} {a b : Cols α} (ha : ColsOk n a) (hb : ColsOk n b) : ColsOk n (a ++ b) := by
  intro c hc
  rcases List.mem_append.mp hc with h | h
  · exact ha c h
  · exact hb c h
theorem colsOk_take {n : Nat} {a : Cols α} (ha : ColsOk n a) (k : Nat) : ColsOk n (a.take k) :=
  fun c hc => ha c (List.mem_of_mem_take hc)
theorem colsOk_drop {n : Nat} {a : Cols α} (ha : ColsOk n a) (k : Nat) : ColsOk n (a.drop k) :=
  fun c hc => ha c (List.mem_of_mem_drop hc)
theorem colsOk_dropLast {n : Nat} {a : Cols α} (ha : ColsOk n a) : ColsOk n a.dropLast :=
  fun c hc => ha c (by rw [List.dropLast_eq_take] at hc; exact List.mem_of_mem_take hc)
theorem colsOk_reverse {n : Nat} {a : Cols α} (ha : ColsOk n a) : ColsOk n a.reverse :=
  fun c hc => ha c (List.mem_reverse.mp hc)
theorem colsOk_set {n : Nat} {a : Cols α} (ha : ColsOk n a) (k : Nat) (c : List α) (hc : c.length = n) :
    ColsOk n (a.set k c) := by
  intro d hd
  rcases List.mem_or_eq_of_mem_set hd with h | h
  · exact ha d h
  · exact h ▸ hc

/-- reading operand `i` of a gathered column -/
theorem gather_getD (nan : α) (ops : Data α) (f : Coor α → α) (i : Nat) (c : Coor α)
    (hc : ops[i]? = some c) : (ops.map f).getD i nan = f c := by
  simp [List.getD, hc]

@[simp] theorem scatter_length (ops : Data α) (a : Fin 4) (col : List α) (h : col.length = ops.length) :
    (scatter ops a col).length = ops.length := by
  simp [scatter, h]

theorem scatter_get (nan : α) (ops : Data α) (a : Fin 4) (col : List α) (i : Nat) (c : Coor α)
    (h : col.length = ops.length) (hc : ops[i]? = some c) :
    (scatter ops a col)[i]? = some (c.set a (col.getD i nan)) := by
  have hi : i < ops.length := by
    rcases List.getElem?_eq_some_iff.mp hc with ⟨h', _⟩; exact h'
  have hi' : i < col.length := h ▸ hi
  have hcol : col[i]? = some (col.getD i nan) := by
    rw [List.getD_eq_getElem?_getD, List.getElem?_eq_getElem hi']; rfl
  unfold scatter
  rw [List.getElem?_zipWith, hc, hcol]

/-- the scatter loop of `stack_pop`, seen from operand `i` -/
theorem scatterFold_get (nan : α) (pairs : List (Fin 4 × List α)) (ops : Data α) (i : Nat) (c : Coor α)
    (h : ∀ p ∈ pairs, p.2.length = ops.length) (hc : ops[i]? = some c) :
    (pairs.foldl (fun o p => scatter o p.1 p.2) ops)[i]? =
      some (pairs.foldl (fun x p => x.set p.1 (p.2.getD i nan)) c) ∧
    (pairs.foldl (fun o p => scatter o p.1 p.2) ops).length = ops.length := by
  induction pairs generalizing ops c with
  | nil => simp [hc]
  | cons p rest ih =>
    have hp : p.2.length = ops.length := h p (List.mem_cons_self ..)
    have hlen := scatter_length ops p.1 p.2 hp
    have := ih (scatter ops p.1 p.2) (c.set p.1 (p.2.getD i nan))
      (fun q hq => by rw [hlen]; exact h q (List.mem_cons_of_mem _ hq))
      (scatter_get nan ops p.1 p.2 i c hp hc)
    simpa [List.foldl_cons, hlen] using this


/-- the stack of operand `i` in the orientation of the abstract machine: TOS first -/
def tstk (nan : α) (i : Nat) (cols : Cols α) : List α := (slice nan i cols).reverse

@[simp] theorem tstk_length (nan : α) (i : Nat) (cols : Cols α) : (tstk nan i cols).length = cols.length := by
  simp [tstk]

/-! ### closed forms of the abstract instructions -/

theorem tpush_eq (args : List (Fin 4)) (s : TState α) :
    tpush args s = ⟨(args.map s.x.get).reverse ++ s.stk, s.x⟩ := by
  induction args generalizing s with
  | nil => rfl
  | cons a rest ih => simp [tpush, ih]

theorem tpop_eq (args : List (Fin 4)) (s : TState α) (h : args.length ≤ s.stk.length) :
    tpop args s = ⟨s.stk.drop args.length,
      (args.zip (s.stk.take args.length)).foldl (fun x p => x.set p.1 p.2) s.x⟩ := by
  induction args generalizing s with
  | nil => simp [tpop]
  | cons a rest ih =>
    obtain ⟨stk, x⟩ := s
    cases stk with
    | nil => simp at h
    | cons v stk' =>
      simp only [tpop]
      rw [ih]
      · simp
      · simpa using h

/-! ### push -/

theorem push_refines (nan : α) (cols : Cols α) (ops : Data α) (args : List (Fin 4)) (i : Nat) (c : Coor α)
    (hok : ColsOk ops.length cols) (hc : ops[i]? = some c) :
    tstk nan i (push cols ops args).1 = (tpush args ⟨tstk nan i cols, c⟩).stk ∧
    (push cols ops args).2.1[i]? = some (tpush args ⟨tstk nan i cols, c⟩).x ∧
    ColsOk ops.length (push cols ops args).1 ∧ (push cols ops args).2.1.length = ops.length := by
  refine ⟨?_, ?_, ?_, rfl⟩
  · simp only [push, tstk, slice_append, tpush_eq, List.reverse_append]
    congr 1
    simp only [slice, List.map_map]
    congr 1
    apply List.map_congr_left
    intro a _
    exact gather_getD nan ops _ i c hc
  · simp [push, tpush_eq, hc]
  · apply colsOk_append hok
    intro col hcol
    simp only [List.mem_map] at hcol
    obtain ⟨a, _, rfl⟩ := hcol
    simp

/-! ### pop -/

theorem foldl_zip_getD (nan : α) (i : Nat) (args : List (Fin 4)) (ext : List (List α)) (c : Coor α) :
    (args.zip ext).foldl (fun x p => x.set p.1 (p.2.getD i nan)) c =
      (args.zip (ext.map (·.getD i nan))).foldl (fun x p => x.set p.1 p.2) c := by
  induction args generalizing ext c with
  | nil => simp
  | cons a rest ih =>
    cases ext with
    | nil => simp
    | cons e ext' => simp only [List.zip_cons_cons, List.foldl_cons, List.map_cons]; exact ih ext' _

theorem pop_refines (nan : α) (cols : Cols α) (ops : Data α) (args : List (Fin 4)) (i : Nat) (c : Coor α)
    (hok : ColsOk ops.length cols) (hc : ops[i]? = some c) (hdepth : args.length ≤ cols.length) :
    tstk nan i (pop nan cols ops args).1 = (tpop args ⟨tstk nan i cols, c⟩).stk ∧
    (pop nan cols ops args).2.1[i]? = some (tpop args ⟨tstk nan i cols, c⟩).x ∧
    ColsOk ops.length (pop nan cols ops args).1 ∧ (pop nan cols ops args).2.1.length = ops.length ∧
    (pop nan cols ops args).2.2 = ops.length := by
  have hnot : ¬ cols.length < args.length := by omega
  have hext : ∀ p ∈ args.zip (cols.drop (cols.length - args.length)).reverse, p.2.length = ops.length := by
    intro p hp
    have := (List.of_mem_zip hp).2
    exact hok _ (List.mem_of_mem_drop (List.mem_reverse.mp this))
  have hfold := scatterFold_get nan (args.zip (cols.drop (cols.length - args.length)).reverse) ops i c hext hc
  rw [tpop_eq _ _ (by simpa using hdepth)]
  simp only [pop, hnot, if_false]
  refine ⟨?_, ?_, colsOk_take hok _, hfold.2, trivial⟩
  · simp only [tstk, slice_take, List.reverse_take, slice_length]
    congr 1
    omega
  · rw [hfold.1, foldl_zip_getD]
    congr 3
    simp only [tstk, slice, ← List.map_reverse, ← List.map_take]
    congr 1
    rw [List.take_reverse]

/-! ### list surgery used by flip, roll and swap -/

theorem reverse_set {β : Type} (l : List β) (k : Nat) (v : β) (hk : k < l.length) :
    (l.set k v).reverse = l.reverse.set (l.length - 1 - k) v := by
  induction l generalizing k with
  | nil => simp at hk
  | cons a t ih =>
    cases k with
    | zero =>
      simp only [List.set_cons_zero, List.reverse_cons, List.length_cons]
      rw [List.set_append_right _ _ (by simp)]
      simp
    | succ k =>
      have hk' : k < t.length := by simpa using hk
      simp only [List.set_cons_succ, List.reverse_cons, List.length_cons]
      rw [ih k hk', List.set_append_left _ _ (by simp; omega)]
      congr 2
      omega

theorem exists_snoc {β : Type} (l : List β) (h : 1 ≤ l.length) : ∃ P a, l = P ++ [a] := by
  rcases hr : l.reverse with _ | ⟨a, pre⟩
  · have := congrArg List.length hr
    simp only [List.length_reverse, List.length_nil] at this; omega
  · exact ⟨pre.reverse, a, by have := congrArg List.reverse hr; simpa using this⟩

theorem exists_snoc2 {β : Type} (l : List β) (h : 2 ≤ l.length) : ∃ P b a, l = P ++ [b, a] := by
  rcases hr : l.reverse with _ | ⟨a, _ | ⟨b, pre⟩⟩
  · have := congrArg List.length hr
    simp only [List.length_reverse, List.length_nil] at this; omega
  · have := congrArg List.length hr
    simp only [List.length_reverse, List.length_cons, List.length_nil] at this; omega
  · exact ⟨pre.reverse, b, a, by have := congrArg List.reverse hr; simpa using this⟩

/-! ### swap -/

theorem swap_refines (nan : α) (cols : Cols α) (ops : Data α) (i : Nat) (c : Coor α)
    (hok : ColsOk ops.length cols) (hc : ops[i]? = some c) :
    some (⟨tstk nan i (swap cols ops).1, c⟩ : TState α) = tstep ⟨tstk nan i cols, c⟩ .swap ∧
    (swap cols ops).2.1[i]? = some c ∧ ColsOk ops.length (swap cols ops).1 ∧
    (swap cols ops).2.1.length = ops.length := by
  by_cases h2 : cols.length > 1
  · obtain ⟨P, b, a, rfl⟩ := exists_snoc2 cols (by omega)
    have hl : (P ++ [b, a]).length = P.length + 2 := by simp
    have ha : (P ++ [b, a]).getD (P.length + 2 - 1) [] = a := by
      simp [List.getD_eq_getElem?_getD, List.getElem?_append_right]
    have hb : (P ++ [b, a]).getD (P.length + 2 - 2) [] = b := by
      simp [List.getD_eq_getElem?_getD, List.getElem?_append_right]
    have hres : (swap (P ++ [b, a]) ops).1 = P ++ [a, b] := by
      simp only [swap, hl, ha, hb]
      simp [List.set_append_right]
    refine ⟨?_, by simp [swap, hc], ?_, by simp [swap]⟩
    · rw [hres]
      simp [tstk, slice, tstep]
    · rw [hres]
      intro col hcol
      apply hok col
      simp only [List.mem_append, List.mem_cons, List.mem_nil_iff, or_false] at hcol ⊢
      rcases hcol with h | h | h
      · exact Or.inl h
      · exact Or.inr (Or.inr h)
      · exact Or.inr (Or.inl h)
  · have hres : (swap cols ops).1 = cols := by simp [swap, h2]
    refine ⟨?_, by simp [swap, hc], by rw [hres]; exact hok, by simp [swap]⟩
    rw [hres]
    have hlen : (tstk nan i cols).length ≤ 1 := by simp; omega
    rcases ht : tstk nan i cols with _ | ⟨x, _ | ⟨y, r⟩⟩
    · simp [tstep]
    · simp [tstep]
    · rw [ht] at hlen; simp at hlen

/-! ### roll -/

theorem rollOnce_length (depth m : Nat) (cols : Cols α) : (rollOnce depth m cols).length = cols.length := by
  unfold rollOnce
  rcases hl : cols.getLast? with _ | e
  · rfl
  · have hne : cols ≠ [] := by intro h; simp [h] at hl
    have : cols.length ≥ 1 := List.length_pos_iff.mpr hne
    simp only [List.length_append, List.length_take, List.length_drop, List.length_dropLast,
      List.length_cons, List.length_nil]
    omega

theorem rollOnce_colsOk {n : Nat} (depth m : Nat) (cols : Cols α) (hok : ColsOk n cols) :
    ColsOk n (rollOnce depth m cols) := by
  unfold rollOnce
  rcases hl : cols.getLast? with _ | e
  · exact hok
  · have he : e ∈ cols := List.mem_of_getLast? hl
    apply colsOk_append (colsOk_append (colsOk_take (colsOk_dropLast hok) _) ?_) (colsOk_drop (colsOk_dropLast hok) _)
    intro col hcol
    simp only [List.mem_cons, List.mem_nil_iff, or_false] at hcol
    exact hcol ▸ hok e he

theorem rollOnce_refines (nan : α) (i : Nat) (m : Nat) (cols : Cols α) (hm : m ≤ cols.length) :
    tstk nan i (rollOnce cols.length m cols) = trollOnce m (tstk nan i cols) := by
  by_cases h0 : cols.length = 0
  · have : cols = [] := List.length_eq_zero_iff.mp h0
    subst this; rfl
  · obtain ⟨R, e, rfl⟩ := exists_snoc cols (by omega)
    have hlen : (R ++ [e]).length = R.length + 1 := by simp
    have hro : rollOnce (R.length + 1) m (R ++ [e]) =
        R.take (R.length + 1 - m) ++ [e] ++ R.drop (R.length + 1 - m) := by
      simp [rollOnce]
    rw [hlen, hro]
    simp only [tstk, slice_append, List.reverse_append, slice_take, slice_drop]
    simp only [slice, List.map_cons, List.map_nil, List.reverse_cons, List.reverse_nil, List.nil_append,
      List.singleton_append, trollOnce, List.cons_append]
    rw [List.reverse_drop, List.reverse_take]
    simp only [List.length_map]
    have h1 : R.length - (R.length + 1 - m) = m - 1 := by omega
    rw [h1]
    simp

theorem rollRepeat_refines (nan : α) (i : Nat) (m k : Nat) (cols : Cols α) (hm : m ≤ cols.length) :
    tstk nan i (Nat.repeat (rollOnce cols.length m) k cols) = Nat.repeat (trollOnce m) k (tstk nan i cols) ∧
    (Nat.repeat (rollOnce cols.length m) k cols).length = cols.length := by
  induction k with
  | zero => exact ⟨rfl, rfl⟩
  | succ k ih =>
    simp only [Nat.repeat]
    obtain ⟨ih1, ih2⟩ := ih
    refine ⟨?_, by rw [rollOnce_length, ih2]⟩
    have := rollOnce_refines nan i m (Nat.repeat (rollOnce cols.length m) k cols) (by omega)
    rw [ih2] at this
    rw [this, ih1]

theorem rollRepeat_colsOk {n : Nat} (depth m k : Nat) (cols : Cols α) (hok : ColsOk n cols) :
    ColsOk n (Nat.repeat (rollOnce depth m) k cols) := by
  induction k with
  | zero => exact hok
  | succ k ih => exact rollOnce_colsOk depth m _ ih

/-! ### flip -/

theorem flipLoop_refines (nan : α) (n : Nat) (i : Nat) (args : List (Fin 4)) (j : Nat) (cols : Cols α)
    (ops : Data α) (c : Coor α) (hok : ColsOk n cols) (hn : ops.length = n) (hc : ops[i]? = some c)
    (hj : j + args.length ≤ cols.length) :
    tstk nan i (flipLoop cols.length args j cols ops).1 = (tflip args j ⟨tstk nan i cols, c⟩).stk ∧
    (flipLoop cols.length args j cols ops).2[i]? = some (tflip args j ⟨tstk nan i cols, c⟩).x ∧
    ColsOk n (flipLoop cols.length args j cols ops).1 ∧
    (flipLoop cols.length args j cols ops).2.length = n := by
  induction args generalizing j cols ops c with
  | nil => exact ⟨rfl, hc, hok, hn⟩
  | cons a rest ih =>
    have hjlt : j < cols.length := by simp at hj; omega
    have hidx : cols.length - 1 - j < cols.length := by omega
    -- the column exchanged
    have hcolmem : cols[cols.length - 1 - j]'hidx ∈ cols := List.getElem_mem hidx
    have hcol : cols.getD (cols.length - 1 - j) [] = cols[cols.length - 1 - j]'hidx := by
      simp [List.getD_eq_getElem?_getD, List.getElem?_eq_getElem hidx]
    have hcollen : (cols[cols.length - 1 - j]'hidx).length = ops.length := by rw [hn]; exact hok _ hcolmem
    -- the tuple's view of it
    have hstk : (tstk nan i cols)[j]? = some ((cols[cols.length - 1 - j]'hidx).getD i nan) := by
      unfold tstk
      rw [List.getElem?_reverse (by simpa using hjlt)]
      simp only [slice_length, slice_getElem?]
      rw [List.getElem?_eq_getElem hidx]; rfl
    simp only [flipLoop, flipOne, hcol, tflip, hstk]
    have hlen' : (cols.set (cols.length - 1 - j) (ops.map (·.get a))).length = cols.length := by simp
    have hok' : ColsOk n (cols.set (cols.length - 1 - j) (ops.map (·.get a))) :=
      colsOk_set hok _ _ (by simp [hn])
    have hops' := scatter_get nan ops a (cols[cols.length - 1 - j]'hidx) i c hcollen hc
    have hn' : (scatter ops a (cols[cols.length - 1 - j]'hidx)).length = n := by
      rw [scatter_length _ _ _ hcollen, hn]
    have := ih (j + 1) (cols.set (cols.length - 1 - j) (ops.map (·.get a)))
      (scatter ops a (cols[cols.length - 1 - j]'hidx)) (c.set a ((cols[cols.length - 1 - j]'hidx).getD i nan))
      hok' hn' hops' (by rw [hlen']; simp at hj; omega)
    rw [hlen'] at this
    have htstk : tstk nan i (cols.set (cols.length - 1 - j) (ops.map (·.get a))) =
        (tstk nan i cols).set j (c.get a) := by
      unfold tstk
      rw [slice_set, reverse_set _ _ _ (by simpa using hidx), gather_getD nan ops _ i c hc]
      congr 1
      simp only [slice_length]; omega
    rw [htstk] at this
    exact this

theorem flip_refines (nan : α) (cols : Cols α) (ops : Data α) (args : List (Fin 4)) (i : Nat) (c : Coor α)
    (hok : ColsOk ops.length cols) (hc : ops[i]? = some c) (hdepth : args.length ≤ cols.length) :
    tstk nan i (Stack.flip nan cols ops args).1 = (tflip args 0 ⟨tstk nan i cols, c⟩).stk ∧
    (Stack.flip nan cols ops args).2.1[i]? = some (tflip args 0 ⟨tstk nan i cols, c⟩).x ∧
    ColsOk ops.length (Stack.flip nan cols ops args).1 ∧ (Stack.flip nan cols ops args).2.1.length = ops.length ∧
    (Stack.flip nan cols ops args).2.2 = ops.length := by
  have hnot : ¬ cols.length < args.length := by omega
  have := flipLoop_refines nan ops.length i args 0 cols ops c hok rfl hc (by omega)
  simp only [Stack.flip, hnot, if_false]
  exact ⟨this.1, this.2.1, this.2.2.1, this.2.2.2, trivial⟩

end StackLemmas
end Geodesy
