/-
Line protocol driver: one case per input line (TAB separated fields), one result line per
case.  Runs the executable (`Float`) reading of the model.
-/
import Geodesy.Model.Wire
import Geodesy.Model.Proj
import Geodesy.Model.Ctx.Context
import Geodesy.Model.Num.Angular
import Geodesy.Model.Data.Coord
import Geodesy.Model.Cli.Kp
import Geodesy.Model.Num.Ntv2
import Geodesy.Gen.Tables

open Geodesy Geodesy.Text Geodesy.Wire

namespace Driver

def u (s : String) : Str := unescape s.toList

/-- user constructors the harness registers: tag ↦ (increment, invertible) -/
def probeGamut : List OpParameter :=
  [ .flag (S "inv"), .flag (S "flag"), .natural (S "natural") (some 7), .integer (S "integer") (some (-7)),
    .real (S "real") (some (.fin false 125 (-2))), .series (S "series") (some (S "1,2,3")),
    .text (S "text") (some (S "deftext")), .texts (S "names") (some (S "foo, bar")) ]

def probeReqGamut : List OpParameter :=
  [ .natural (S "req_natural") none, .integer (S "req_integer") none, .real (S "req_real") none,
    .series (S "req_series") none, .text (S "req_text") none, .texts (S "req_names") none ]

def userCtor (ce : Ops.CtorEnv) (tag : String) : Option (Ctor Float) :=
  if tag == "u:probe" then some (Ops.plain ce "u:add2" true probeGamut)
  else if tag == "u:probereq" then some (fun raw =>
    let given := splitIntoParameters raw.definition
    let gamut := probeReqGamut.filter fun p => given.contains p.key || p.key == S "req_real"
    Ops.plain ce "u:add2" true gamut raw)
  else if tag == "u:add2" then some (Ops.plain ce "u:add2" true Ops.addoneGamut)
  else if tag == "u:needv" then some (Ops.plain ce "u:add2" true [.flag (S "inv"), .real (S "v") none])
  else if tag == "u:oneway3" then some (Ops.plain ce "u:oneway3" false Ops.addoneGamut)
  else none

def userSem (tag : Str) (dir : Dir) (data : List (Coor Float)) : Option (List (Coor Float) × Nat) :=
  if tag == S "u:add2" then
    some (data.map (fun c => match dir with
      | .fwd => { c with c0 := c.c0 + 2.0 } | .inv => { c with c0 := c.c0 - 2.0 }), data.length)
  else if tag == S "u:oneway3" then
    match dir with
    | .fwd => some (data.map (fun c => { c with c0 := c.c0 + 3.0 }), data.length)
    | .inv => some (data, 0)
  else none

def semWith (genv : Grid.GridEnv Float) : LeafSem Float := fun tag params dir data =>
  match userSem tag dir data with
  | some r => r
  | none => Registry.sem Float genv tag params dir data

/-- no grids served (the `Minimal` context) -/
def sem : LeafSem Float := semWith fun _ => none

def ellpsKnown (name : Str) : Bool :=
  Gen.ellipsoidNames.contains (String.ofList name) ||
  -- the "(a, rf)" form
  (let n := if name.head? == some '(' && name.getLast? == some ')' then (name.drop 1).dropLast else name
   match splitOn ',' n with
   | [a, rf] => (Lit.parseF64 (trim a)).isSome && (Lit.parseF64 (trim rf)).isSome
   | _ => false)

def ce : Ops.CtorEnv := { ellpsKnown := ellpsKnown }

structure CtxSpec where
  resources : List (Str × Str)
  users : List (Str × String)
  plain : Bool := false

/-- `Plain::get_resource` past the run-time registrations, on the files shipped under
`geodesy/resources` (the harness runs from the repository root): `prefix_suffix.resource`
first, then the item `suffix` of the register `prefix.md` -/
def fileResource (name : Str) : Option Str :=
  let i := name.idxOf ':'
  if i ≥ name.length then none else
  let pre := name.take i
  let suf := name.drop (i + 1)
  if suf.contains ':' then none else
  let file (fn : Str) : Option Str := (Gen.shippedResources.find? (fun p => S p.1 == fn)).map (fun p => S p.2)
  match file (pre ++ S "_" ++ suf ++ S ".resource") with
  | some t => some (Text.trim t)
  | none =>
    match file (pre ++ S ".md") with
    | some t => Ctx.registerItem t suf
    | none => none

def mkEnvWith (ce : Ops.CtorEnv) (c : CtxSpec) : Env Float :=
  { builtin := Registry.builtin Float ce
    user := fun name =>
      match c.users.reverse.find? (·.1 == name) with
      | some (_, tag) => userCtor ce tag
      | none => none
    resource := fun name =>
      match (c.resources.reverse.find? (·.1 == name)).map (·.2) with
      | some b => some b
      | none => if c.plain then fileResource name else none
    ellpsKnown := ellpsKnown }

def mkEnv (c : CtxSpec) : Env Float := mkEnvWith ce c

def globals : PMap := [(S "ellps", S "GRS80")]

/-- read `n` pairs from the field list -/
def takePairs : Nat → List String → List (String × String) × List String
  | 0, fs => ([], fs)
  | n + 1, a :: b :: fs => let (ps, r) := takePairs n fs; ((a, b) :: ps, r)
  | _ + 1, fs => ([], fs)

def parseCtx (fields : List String) : CtxSpec × List String :=
  match fields with
  | kind :: nres :: rest =>
    let (res, rest) := takePairs nres.toNat! rest
    match rest with
    | nuser :: rest =>
      let (us, rest) := takePairs nuser.toNat! rest
      let builtinRes := if kind == "new" then Gen.builtinAdaptors.map (fun p => (S p.1, S p.2)) else []
      let builtinRes := if kind == "plain-new" then Gen.builtinAdaptors.map (fun p => (S p.1, S p.2)) else builtinRes
      ({ resources := builtinRes ++ res.map (fun p => (u p.1, u p.2)),
         users := us.map (fun p => (u p.1, p.2)), plain := kind.startsWith "plain" }, rest)
    | [] => ({ resources := [], users := [] }, [])
  | _ => ({ resources := [], users := [] }, [])

def parseDir (s : String) : Dir := if s == "I" then .inv else .fwd

def handleOpCore (ce : Ops.CtorEnv) (sem : LeafSem Float) (fields : List String) : String :=
  let (ctx, rest) := parseCtx fields
  match rest with
  | [defn, mode, dir, data] =>
    -- `Plain::op` filters the definition through `parse_proj`
    match (if ctx.plain then Proj.parseProj (u defn) else .ok (u defn)) with
    | .error e => "err " ++ e.name
    | .ok defn' =>
    match Op.new (mkEnvWith ce ctx) globals defn' with
    | .error e => "err " ++ e.name
    | .ok op =>
      let tree := if mode == "tree" || mode == "both" then " tree=" ++ dumpOp op
        else if mode == "skel" || mode == "skelboth" then " tree=" ++ dumpOpWith false op else ""
      let app :=
        if mode == "apply" || mode == "both" || mode == "skelboth" then
          let r := apply sem (Float.ofBits 0x7FF8000000000000) (Ops.actionOf Float) op (parseDir dir) (parseData data)
          " n=" ++ toString r.2 ++ " data=" ++ dumpData r.1
        else ""
      "ok" ++ tree ++ app
  | _ => "bad-case"

def handleOp (fields : List String) : String := handleOpCore ce sem fields

def dumpList (l : List Str) : String := "[" ++ "|".intercalate (l.map escape) ++ "]"

/-- direct calls of the tokenizer functions -/
def handleTok (fields : List String) : String :=
  match fields with
  | [fn, arg] =>
    let a := u arg
    if fn == "normalize" then escape (normalize a)
    else if fn == "steps" then dumpList (splitIntoSteps a)
    else if fn == "params" then dumpPMap (splitIntoParameters a)
    else if fn == "is_pipeline" then toString (isPipeline a)
    else if fn == "is_resource_name" then toString (isResourceName a)
    else if fn == "operator_name" then escape (operatorName a)
    else "bad-case"
  | _ => "bad-case"

def handleProj (fields : List String) : String :=
  match fields with
  | [t] =>
    match Proj.parseProj (u t) with
    | .ok r => "ok " ++ escape r
    | .error e => "err " ++ e.name
  | _ => "bad-case"

/-- a history of API calls on one context: `R|name|ctor`, `S|name|body`, `O|definition`,
`A|handle|dir|data`, `T|handle`, `P|handle|index` -/
def handleHist (fields : List String) : String :=
  match fields with
  | kind :: calls =>
    let init : Ctx.State Float :=
      { users := [], operators := [], plain := kind.startsWith "plain"
        resources := if kind == "new" || kind == "plain-new" then Gen.builtinAdaptors.map (fun p => (S p.1, S p.2)) else [] }
    let world : Ctx.World Float :=
      { ctorById := fun id => userCtor ce (String.ofList id)
        builtin := Registry.builtin Float ce
        ellpsKnown := ellpsKnown
        fileResource := fileResource
        sem := sem
        nan := Float.ofBits 0x7FF8000000000000
        actionOf := Ops.actionOf Float
        globals := globals }
    let (_, outs) := calls.foldl (fun (acc : Ctx.State Float × List String) call =>
      let parts := call.splitOn "|"
      let c : Option (Ctx.Call Float) :=
        match parts with
        | ["R", n, t] => some (.registerOp (u n) t.toList)
        | ["S", n, b] => some (.registerResource (u n) (u b))
        | ["O", d] => some (.op (u d))
        | ["A", h, dir, data] => some (.apply h.toNat! (parseDir dir) (parseData data))
        | ["T", h] => some (.steps h.toNat!)
        | ["P", h, i] => some (.params h.toNat! i.toNat!)
        | _ => none
      match c with
      | none => (acc.1, acc.2 ++ ["bad-call"])
      | some c =>
        let (s', o) := Ctx.step world acc.1 c
        let txt := match o with
          | .unit => "-"
          | .handle k => "h" ++ toString k
          | .err e => "err " ++ e.name
          | .applied n d => "n=" ++ toString n ++ " data=" ++ dumpData d
          | .stepList l => dumpList l
          | .parsed p => dumpParsed p
        (s', acc.2 ++ [txt])) (init, [])
    " ;; ".intercalate outs
  | _ => "bad-case"

/-- the register branch of `Plain::get_resource` on a file's text -/
def handleReg (fields : List String) : String :=
  match fields with
  | [content, suffix] =>
    match Ctx.registerItem (u content) (u suffix) with
    | some t => "ok " ++ escape t
    | none => "none"
  | _ => "bad-case"

/-- the functions of `math::angular`, arguments and result as hex floats -/
def handleAng (fields : List String) : String :=
  match fields with
  | [fn, args] =>
    let xs := (args.splitOn ",").map parseFloat
    let r : Option Float :=
      match fn, xs with
      | "dms_to_dd", [d, m, s] => some (Angular.dmsToDd d.toInt64.toInt m.toUInt64.toNat s)
      | "dm_to_dd", [d, m] => some (Angular.dmToDd d.toInt64.toInt m)
      | "iso_dm_to_dd", [x] => some (Angular.isoDmToDd x)
      | "dd_to_iso_dm", [x] => some (Angular.ddToIsoDm x)
      | "iso_dms_to_dd", [x] => some (Angular.isoDmsToDd x)
      | "dd_to_iso_dms", [x] => some (Angular.ddToIsoDms x)
      | "normalize_symmetric", [x] => some (Angular.normalizeSymmetric x)
      | "normalize_positive", [x] => some (Angular.normalizePositive x)
      | _, _ => none
    match r with
    | some v => fbits v
    | none => "bad-case"
  | _ => "bad-case"

/-- one method of the `CoordinateTuple` trait on a tuple: the tuple afterwards and the value read -/
def handleTup (fields : List String) : String :=
  match fields with
  | [dim, valsS, op, argsS] =>
    let vals := ((valsS.splitOn ",").filter (· != "")).map parseFloat
    let a := if argsS == "-" then [] else (argsS.splitOn ",").map parseFloat
    let n := match dim with | "3" => 3 | "4" => 4 | "1" => 1 | "5" => 5 | "6" => 6 | _ => 2
    if vals.length != n then "bad-case" else
    let nan := Float.ofBits 0x7FF8000000000000
    let t : Data.Tuple Float := ⟨vals⟩
    let idx (x : Float) : Nat := if x.isFinite && x >= 0.0 then x.toUInt64.toNat else 18446744073709551615
    let r : Option (Data.Tuple Float × List Float) :=
      match op, a with
      | "nth", [i] => some (t, [t.nth nan (idx i)])
      | "x", [] => some (t, [t.x nan])
      | "y", [] => some (t, [t.y nan])
      | "z", [] => some (t, [t.z nan])
      | "t", [] => some (t, [t.tt nan])
      | "set_nth", [i, v] => some (t.setNth nan (idx i) v, [])
      | "set_xy", [x, y] => some (t.setXy nan x y, [])
      | "set_xyz", [x, y, z] => some (t.setXyz nan x y z, [])
      | "set_xyzt", [x, y, z, w] => some (t.setXyzt nan x y z w, [])
      | "fill", [v] => some (t.fill v, [])
      | "update", vs => some (t.update vs, [])
      | "scale", [f] => some (t.scale f, [])
      | "dot", vs => if op == "dot" && vs.length == n then some (t, [t.dot 0.0 nan ⟨vs⟩]) else none
      | _, _ => none
    match r with
    | some (t', read) => ",".intercalate (t'.vals.map fbits) ++ " | " ++ ",".intercalate (read.map fbits)
    | none => "bad-case"
  | _ => "bad-case"

/-- one public function of the ellipsoid module on a named ellipsoid -/
def handleEll (fields : List String) : String :=
  match fields with
  | [name, fn, argsS] =>
    match (Ellipsoid.named (u name) : Option (Ellipsoid Float)) with
    | none => "err"
    | some e =>
      let a := if argsS == "-" then [] else (argsS.splitOn ",").map parseFloat
      let four (c : Coor Float) : String := ",".intercalate ([c.c0, c.c1, c.c2, c.c3].map fbits)
      match fn, a with
      | "semimajor_axis", [] => fbits e.a
      | "flattening", [] => fbits e.f
      | "semiminor_axis", [] => fbits e.semiminorAxis
      | "second_flattening", [] => fbits e.secondFlattening
      | "third_flattening", [] => fbits e.thirdFlattening
      | "aspect_ratio", [] => fbits e.aspectRatio
      | "linear_eccentricity", [] => fbits e.linearEccentricity
      | "eccentricity_squared", [] => fbits e.eccentricitySquared
      | "eccentricity", [] => fbits e.eccentricity
      | "second_eccentricity_squared", [] => fbits e.secondEccentricitySquared
      | "second_eccentricity", [] => fbits e.secondEccentricity
      | "polar_radius_of_curvature", [] => fbits e.polarRadiusOfCurvature
      | "normalized_meridian_arc_unit", [] => fbits e.normalizedMeridianArcUnit
      | "rectifying_radius", [] => fbits e.rectifyingRadius
      | "rectifying_radius_bowring", [] => fbits e.rectifyingRadiusBowring
      | "meridian_quadrant", [] => fbits e.meridianQuadrant
      | "prime_vertical_radius_of_curvature", [x] => fbits (e.primeVerticalRadiusOfCurvature x)
      | "meridian_radius_of_curvature", [x] => fbits (e.meridianRadiusOfCurvature x)
      | "meridian_latitude_to_distance", [x] => fbits (e.meridianLatitudeToDistance x)
      | "meridian_distance_to_latitude", [x] => fbits (e.meridianDistanceToLatitude x)
      | "latitude_geographic_to_geocentric", [x] => fbits (e.latitudeGeographicToGeocentric x)
      | "latitude_geocentric_to_geographic", [x] => fbits (e.latitudeGeocentricToGeographic x)
      | "latitude_geographic_to_reduced", [x] => fbits (e.latitudeGeographicToReduced x)
      | "latitude_reduced_to_geographic", [x] => fbits (e.latitudeReducedToGeographic x)
      | "latitude_geographic_to_isometric", [x] => fbits (e.latitudeGeographicToIsometric x)
      | "latitude_isometric_to_geographic", [x] => fbits (e.latitudeIsometricToGeographic x)
      | "latitude_geographic_to_rectifying", [x] => fbits (Ellipsoid.latitudeGeographicToRectifying x e.rectifyingCoefficients)
      | "latitude_rectifying_to_geographic", [x] => fbits (Ellipsoid.latitudeRectifyingToGeographic x e.rectifyingCoefficients)
      | "latitude_geographic_to_conformal", [x] => fbits (Ellipsoid.latitudeFwdSeries x e.conformalCoefficients)
      | "latitude_conformal_to_geographic", [x] => fbits (Ellipsoid.latitudeInvSeries x e.conformalCoefficients)
      | "latitude_geographic_to_authalic", [x] => fbits (Ellipsoid.latitudeFwdSeries x e.authalicCoefficients)
      | "latitude_authalic_to_geographic", [x] => fbits (Ellipsoid.latitudeInvSeries x e.authalicCoefficients)
      | "cartesian", [x, y, z, t] => four (e.cartesian ⟨x, y, z, t⟩)
      | "geographic", [x, y, z, t] => four (e.geographic ⟨x, y, z, t⟩)
      | "geodesic_fwd", [l, b, az, d] => four (e.geodesicFwd l b az d)
      | "geodesic_inv", [l1, b1, l2, b2] => four (e.geodesicInv l1 b1 l2 b2)
      | "distance", [l1, b1, l2, b2] => fbits (e.distance l1 b1 l2 b2)
      | _, _ => "bad-case"
  | _ => "bad-case"

/-- `kp`: options, operation, input files ↦ exit status and standard output -/
def handleKp (fields : List String) : String :=
  match fields with
  | optStr :: opdef :: _nfiles :: files =>
    let kv := (optStr.splitOn ";").filterMap fun p => match p.splitOn "=" with | [k, v] => some (k, v) | _ => none
    let get (k : String) : String := ((kv.find? (·.1 == k)).map (·.2)).getD "-"
    let optF (k : String) : Option Float := if get k == "-" then none else some (parseFloat (get k))
    let optN (k : String) : Option Nat := if get k == "-" then none else (get k).toNat?
    let opts : Kp.Opts Float :=
      { inverse := get "inv" == "1", roundtrip := get "rt" == "1", height := optF "z", time := optF "t",
        decimals := optN "d", dimension := optN "D" }
    let ctx : CtxSpec := { resources := Gen.builtinAdaptors.map (fun p => (S p.1, S p.2)), users := [], plain := true }
    match (match Proj.parseProj (u opdef) with
           | .error e => Except.error e
           | .ok d => Op.new (mkEnv ctx) globals d) with
    | .error _ => "rc=1 out="
    | .ok op =>
      let applyF : Dir → List (Coor Float) → List (Coor Float) × Nat := fun dir data =>
        apply sem (Float.ofBits 0x7FF8000000000000) (Ops.actionOf Float) op dir data
      let tr := Kp.transform opts applyF Kp.fmtFloat
      -- a file that cannot be opened, or cannot be read (a directory), ends the run; one that
      -- cannot be read beyond some line (invalid UTF-8) gives its lines up to there, then ends the run
      let fs : List (Option (List Str)) := files.flatMap fun f =>
        if f == "UNREADABLE" || f == "DIRECTORY" then [none]
        else if f.startsWith "BROKEN:" then [some (lines (u (f.drop 7).toString)), none]
        else
          -- `BufRead::lines`: split at \n, strip one trailing \r
          [some (lines (u f))]
      let (out, ok) := Kp.run opts Gen.kpBatch tr fs
      "rc=" ++ (if ok then "0" else "1") ++ " out=" ++ escape (String.join (out.map (· ++ "\n"))).toList
  | _ => "bad-case"

def floatNum : Ntv2.Num Float :=
  { f64 := fun b => Float.ofBits b, f32 := fun b => (Float32.ofBits b).toFloat }

def hexBytes (s : String) : List UInt8 :=
  let rec go : List Char → List UInt8
    | a :: b :: rest => UInt8.ofNat ((hexVal a).getD 0 * 16 + (hexVal b).getD 0) :: go rest
    | _ => []
  go s.toList

/-- a decoded grid file: its look-up function and band count, or the error class -/
def decodeGrid (fmt payload : String) : Except Err (Nat × (Float → Float → Float → Option (Coor Float))) :=
  if fmt == "gravsoft" then
    match (Grid.gravsoft (u payload) : Except Err (Grid.BaseGrid Float)) with
    | .ok g => .ok (g.bands, fun lon lat m => Grid.atPoint g lon lat m)
    | .error e => .error e
  else if fmt == "gravsoftb" then
    match (Grid.gravsoftBytes (hexBytes payload) : Except Err (Grid.BaseGrid Float)) with
    | .ok g => .ok (g.bands, fun lon lat m => Grid.atPoint g lon lat m)
    | .error e => .error e
  else
    match Ntv2.decode floatNum (hexBytes payload) with
    | .ok g => .ok (2, fun lon lat m => Ntv2.atPoint g lon lat m)
    | .error e => .error e

/-- read `n` triples (name, format, payload) -/
def takeTriples : Nat → List String → List (String × String × String) × List String
  | 0, fs => ([], fs)
  | n + 1, a :: b :: c :: fs => let (ps, r) := takeTriples n fs; ((a, b, c) :: ps, r)
  | _ + 1, fs => ([], fs)

/-- an `OP` case on a context that serves the given grid files by name -/
def handleOpG (fields : List String) : String :=
  match fields with
  | ngrids :: rest =>
    let (triples, rest) := takeTriples ngrids.toNat! rest
    let decoded : List (Str × Grid.GridObj Float) := triples.filterMap fun t =>
      match decodeGrid t.2.1 t.2.2 with
      | .ok g => some (u t.1, { bands := g.1, look := g.2 })
      | .error _ => none
    let genv : Grid.GridEnv Float := fun name => (decoded.find? (·.1 == name)).map (·.2)
    let ceG : Ops.CtorEnv := { ellpsKnown := ellpsKnown, gridBands := fun name => (genv name).map (·.bands), gridErr := .notFound }
    handleOpCore ceG (semWith genv) rest
  | _ => "bad-case"

def dumpAt (r : Option (Coor Float)) : String := match r with | some c => dumpCoor c | none => "none"

def parsePoints (s : String) : List (Float × Float) :=
  if s.isEmpty then [] else (s.splitOn ";").map fun p =>
    match (p.splitOn ",").map parseFloat with
    | [a, b] => (a, b)
    | _ => (0, 0)

def handleGrid (fields : List String) : String :=
  match fields with
  | [fmt, payload, margin, points] =>
    match decodeGrid fmt payload with
    | .error e => "err " ++ e.name
    | .ok (bands, look) =>
      let m := parseFloat margin
      "ok bands=" ++ toString bands ++ " at=" ++ ";".intercalate ((parsePoints points).map fun p => dumpAt (look p.1 p.2 m))
  | _ => "bad-case"

/-- `grids_at` over a list of grid files -/
def handleGrids (fields : List String) : String :=
  match fields with
  | nstr :: rest =>
    let k := nstr.toNat!
    let (pairs, rest) := takePairs k rest
    match rest with
    | [useNull, points] =>
      match pairs.mapM (fun p => match decodeGrid p.1 p.2 with | .ok g => some g | .error _ => none) with
      | none => "err decode"
      | some gs =>
        ";".intercalate ((parsePoints points).map fun p =>
          dumpAt (Grid.gridsAt (gs.map fun g => fun m => g.2 p.1 p.2 m) (useNull == "1")))
    | _ => "bad-case"
  | _ => "bad-case"

def handle (line : String) : String :=
  match line.splitOn "\t" with
  | "GRID" :: rest => handleGrid rest
  | "GRIDS" :: rest => handleGrids rest
  | "KP" :: rest => handleKp rest
  | "ANG" :: rest => handleAng rest
  | "TUP" :: rest => handleTup rest
  | "ELL" :: rest => handleEll rest
  | "HIST" :: rest => handleHist rest
  | "REG" :: rest => handleReg rest
  | "PROJ" :: rest => handleProj rest
  | "OP" :: rest => handleOp rest
  | "OPG" :: rest => handleOpG rest
  | "TOK" :: rest => handleTok rest
  | kind :: _ => if kind.startsWith "S_" then "-" else "bad-case"
  | _ => "bad-case"

end Driver

partial def loop (h : IO.FS.Stream) (out : IO.FS.Stream) : IO Unit := do
  let line ← h.getLine
  if line.isEmpty then return ()
  let line := if line.back == '\n' then (line.dropEnd 1).toString else line
  out.putStrLn (Driver.handle line)
  loop h out

def main : IO Unit := do
  let stdin ← IO.getStdin
  let stdout ← IO.getStdout
  loop stdin stdout
