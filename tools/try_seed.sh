#!/bin/sh
# try_seed.sh <seed dir> <property> [tier]: apply the change to /repo, run the check, undo.
S="$(cd "$1" && pwd)"; P="$2"; T="${3:-quick}"
cd /repo && { git apply "$S/patch.diff" 2>/dev/null || git apply --3way "$S/patch.diff" 2>/dev/null; } || { git reset -q --hard HEAD; echo "patch does not apply"; exit 2; }
cd /verif && ./check "$P" --tier "$T" > /tmp/try_seed.out 2>&1; rc=$?
cd /repo && git reset -q --hard HEAD
# (leave no harness binary behind that was built with the change)
(cd /verif/harness && CARGO_NET_OFFLINE=true cargo build --offline >/dev/null 2>&1)
grep -E "VIOLATION|KNOWN|theorems" /tmp/try_seed.out | head -5
echo "rc=$rc"
