#!/usr/bin/env python3
"""Write MANIFEST.json from the table below (kept in one place so it stays valid)."""
import json, os
ROOT = os.path.join(os.path.dirname(os.path.abspath(__file__)), "..")

CLAIMED = {
 "C12": {
  "text": "Lean 4 theorems (Geodesy/Props/C12.lean): for every instruction, every column height, every operand count and every program the column stack machine of stack.rs, as modelled, is the documented per-tuple abstract machine (stack_refines_abstract, program_refines_abstract by induction over programs); inverse = forward of the dual instruction; underflow gives all-NaN operands and count 0; the stack is local to one application. The model is tied to /repo by a correspondence run (stack programs through the real pipeline operator and through the compiled Lean model, bit-exact) and an independent abstract-machine oracle evaluated on the implementation.",
  "design_ref": "DESIGN.md section 7, C12; Appendix A.1",
  "note": "Trusted: Lean kernel + propext/Classical.choice/Quot.sound; hand-written model of stack.rs/pushpop.rs/pipeline.rs tied to the code by differential testing only; legacy push/pop and the constructor's accept/reject rule are covered by the correspondence, not yet by a theorem.",
  "technique": "machine-checked proof in Lean 4 (refinement of the modelled column machine to an abstract per-tuple machine) + model/implementation correspondence check",
 },
}

CLAIMED["C03"] = {
  "text": "Lean 4 theorems (Geodesy/Props/C03.lean) over the model of Op::apply / pipeline_fwd / pipeline_inv / Op::op with UNINTERPRETED leaf operators, hence for all operators, parameters, pipeline lengths and coordinates: forward application = left fold of the non-omit_fwd steps applied as stand-alone operators (pipeline_fwd_eq_seq), inverse = the same over the reversed list with omit_inv (pipeline_inv_eq_seq_rev), count = running minimum / set size if nothing ran, an inverted step is the step with directions exchanged (op_apply_inverted, handleInversion_spec), step i of an instantiated pipeline depends on the text of step i only (modifier_scope), a pipeline carries no omit modifier of its own (pipeline_has_no_omit). Tied to /repo by a correspondence run on random pipelines with macros nested 0-6 deep and modifiers in every position/spelling (instantiated tree dump and applied values, exact) and by the sequential-application oracle evaluated on the implementation.",
  "design_ref": "DESIGN.md section 7, C03; Appendix A.3",
  "note": "Trusted: Lean kernel + standard axioms; hand model tied by differential testing; the tokenizer part of 'modifier anywhere' (normalize / modifier rotation) is covered by the correspondence and by C16, not by a C03 theorem; stack steps are excluded from the sequential reading (C12).",
  "technique": "machine-checked proof in Lean 4 (fold characterisation of the modelled pipeline loops, induction over step lists) + model/implementation correspondence check",
}
CLAIMED["C04"] = {
  "text": "Lean 4 theorems (Geodesy/Props/C04.lean): chase is total for every pair of maps and every key (chase_total, by a decreasing count of unvisited entries), every RawParameters::next strictly raises the recursion level, instantiate never runs out of fuel when fuel+level >= 102 for EVERY environment, i.e. every set of macro definitions incl. cyclic ones (instantiate_fuel_sufficient, op_new_fuel): nested calls are at most 102 deep and Op::new returns a value or an error. The meaning clause (invocation = expansion, all binding forms, every lexical order of names, nesting, inv anywhere) is decided by the correspondence run (tree dumps + values + error class, exact) and by an expansion oracle evaluated on the implementation against an expander written from the documented semantics (DESIGN.md A.2).",
  "design_ref": "DESIGN.md section 7, C04; Appendix A.2",
  "note": "Partial: the termination / bounded depth clause is proved; macro_eq_expansion is validated (correspondence + oracle), not yet a theorem. Width of legitimate expansions is not bounded (stated in DESIGN).",
  "technique": "machine-checked proof in Lean 4 (termination measure, fuel sufficiency by induction) + model/implementation correspondence check + expansion oracle",
}

CLAIMED["C07"] = {
  "text": "Lean 4 theorems (Geodesy/Props/C07.lean) over the model of helmert.rs in the real-number reading: the exact-mode rotation matrix is orthogonal with determinant one for every angle and both conventions (rot_orthogonal, rot_det_one; polynomial certificates checked by ring), position_vector = transpose of coordinate_frame in both modes (convention_transpose), small-angle pv(r) = cf(-r) (small_angle_sign), x -> T + S R x with the 4th coordinate untouched (helmert_affine, fourth_untouched), distances scale by S (helmert_similarity), inverse o forward = id and forward o inverse = id for S != 0 (inverse_exact, forward_undoes_inverse); and for EVERY scalar reading with IEEE-like NaN/equality: the stateful loop of helmert_common equals the map that evaluates the parameters at each tuple's own epoch, for all epoch sequences (loop_eq_map, induction with a loop invariant). Tied to /repo by a correspondence run (constructor output incl. T, R, S, ROTFLAT, flags, and applied values, <= 4 ulp) and by oracles on the implementation: EPSG guidance-note formulas, alias spellings, t_obs equivalence, conventions, round trips, and molodensky against the cartesian 3-parameter path.",
  "design_ref": "DESIGN.md section 7, C07",
  "note": "Partial: alias equivalence, t_obs equivalence and the molodensky clause are decided by the oracles, not by theorems; second-order size of the small-angle inverse residual is validated. Real-number theorems say nothing about rounding.",
  "technique": "machine-checked proof in Lean 4 (real-algebra identities via linear_combination certificates; loop invariant induction) + model/implementation correspondence check",
}

CLAIMED["C11"] = {
  "text": "Lean 4 theorems (Geodesy/Props/C11.lean): over the unit tables regenerated from units.rs on every run — all 24 names distinct, every name resolves to its own row, every row equals the published factor (unit_names_distinct, unit_lookup_own_row, unit_factors_published, by decide); unitconvert multiplies by factor(in)*(1/factor(out)) (unitconvert_spec); for adapt in the real reading — positionOf inverts every permutation of the four axes (positionOf_spec, exhaustive by decide), adapt from=A to=B is 'A to internal then internal to B' for all descriptor pairs (adapt_spec), and its inverse is the exact reverse mapping for every permutation and non-zero multipliers (adapt_inv_is_inverse, all 24 orders). Tied to /repo by a correspondence run (all 1920 descriptors as from / to / inv from, sampled or exhaustive pairs, all 4096 words for acceptance, all index lists for axisswap, all unit pairs; constructor dump and values <= 4 ulp) and independent oracles on the implementation.",
  "design_ref": "DESIGN.md section 7, C11",
  "note": "Partial: axisswap (accept/reject rule, gather semantics, inverse) and the descriptor acceptance rule are decided exhaustively by correspondence + oracle over the finite domains named in the property, not by theorems.",
  "technique": "machine-checked proof in Lean 4 (decide over generated tables; permutation lemmas; real algebra) + exhaustive model/implementation correspondence over the finite domains",
}

CLAIMED["C02"] = {
  "text": "Lean 4 theorems (Geodesy/Props/C02.lean): every operator tree built from pointwise leaves and stack-free pipelines, to any nesting depth, inverted or not, acts tuple by tuple (good_pointwise, induction over the tree with UNINTERPRETED leaf semantics), hence results for a concatenation, a permutation, a partition into chunks and singletons agree for sets of any size (apply_append, apply_perm, apply_singletons, apply_getElem); the one built-in that carries state across tuples, helmert, is pointwise for every epoch sequence incl. NaN epochs (helmert_pointwise, from C07.loop_eq_map), as are adapt, unitconvert, addone. Tied to /repo by a correspondence run and by an oracle on the implementation: full set vs singletons vs random permutation vs random chunking vs repeated application after other use of the same handle, bit for bit, on 30 operators/pipelines (time dependent helmert, grid operators, stack pipelines, projections) with mixed epochs, NaN and out-of-domain members, duplicates, empty sets, up to 20000 tuples; and the same tuples through slices, arrays and the (3D, epoch) and (2D, height, epoch) adapters.",
  "design_ref": "DESIGN.md section 7, C02",
  "note": "Partial: bit-identity in floating point and thread safety are not theorems (purity of the model + Rust's &self); pipelines with stack steps are pointwise by C12's refinement theorem for pure stack programs, mixed programs by the oracle; the container clause is decided for elementary operators (a 2-D container keeps two elements between the steps of a pipeline, as documented for set_coord).",
  "technique": "machine-checked proof in Lean 4 (induction over operator trees, loop invariant for helmert) + model/implementation correspondence check + bitwise set/singleton/permutation/chunk oracle",
}

CLAIMED["C16"] = {
  "text": "Lean 4 theorems (Geodesy/Props/C16.lean) over the model of split_into_parameters and ParsedParameters::new: for every step whose elements are a name followed by key=value pairs and flags, the parameter map is {_name -> name} with the bindings inserted in order, flags bound to 'true', the last of repeated keys winning (collectParams_spec, get_insert_same/other, for all element lists); leading modifiers are rotated behind the name and the rotation always ends (rotate_prefix, rotate_length); typed extraction rules, one per kind: flag / natural / integer / real (decimal or sexagesimal) / series / texts parse to the value written or are rejected with BadParam, required parameters are demanded, defaults used (flag_rule ... texts_rule); sexagesimal_value and decimal_value give the real number a spelling stands for. Tied to /repo by a correspondence run: normalize / split_into_steps / split_into_parameters on canonical and noisy layouts (Unicode white space, CR/LF/CRLF, continuation colons, comments, subscript digits, </> sugar, empty steps), instantiated trees, every value spelling per type incl. thousands of random decimal literals compared bit for bit (the model implements correct rounding), and by the layout and value oracles on the implementation.",
  "design_ref": "DESIGN.md section 7, C16; 8a",
  "note": "Partial: layout invariance / idempotence of the 25-stage replacement chain of normalize is decided by correspondence + oracle over generated layouts, not by a theorem; f64::from_str is assumed correctly rounded (documented), Unicode to_lowercase modelled on ASCII.",
  "technique": "machine-checked proof in Lean 4 (list/map lemmas over the modelled tokenizer and typed extraction) + model/implementation correspondence check + layout oracle",
}

CLAIMED["C17"] = {
  "text": "Lean 4 theorems (Geodesy/Props/C17.lean) over the model of parse_proj / tidy_proj: text containing | or not containing 'proj' passes through unchanged (proj_passthrough), init clauses are refused wherever they stand in a step and nested pipelines are refused (init_refused, nested_refused), every round adds at most one step, at the end for a plain pipeline and at the front for an inverted one, so that step order is kept resp. reversed (round_adds_one, headStep_steps), k -> k_0 and a+rf -> ellps=a,rf incl. the k-before-a/rf order (k_to_k0, a_rf_to_ellps, k_before_a_rf), plus kernel-evaluated translations of the documented shapes (pipeline inv with omit_* exchange, globals before locals). The meaning clause for whole pipelines is decided by the correspondence run (translated text exact; instantiated tree and values) and a translation oracle on the implementation: Plain::op(PROJ text) against Plain::op(hand-written Geodesy counterpart) on random pipelines with +, step, inv, omit_*, globals, a/rf/k, comments, layout and shuffled item order, both directions, bitwise; idempotence of the translation.",
  "design_ref": "DESIGN.md section 7, C17",
  "note": "Partial: proj_pipeline_inv / globals_before_locals as general theorems are not proved (instances are kernel-evaluated); the equivalence with the Geodesy counterpart is validated by the oracle.",
  "technique": "machine-checked proof in Lean 4 (structure of the modelled translation loop; kernel evaluation of instances) + model/implementation correspondence check + translation oracle",
}

CLAIMED["C18"] = {
  "text": "Lean 4 theorems (Geodesy/Props/C18.lean) over the context modelled as a state machine on histories of API calls: for EVERY history of register_op / register_resource / op / apply / steps / params calls, an existing handle still denotes the very same operator afterwards (op_frame, by induction over the history; behaviour_frame, shadowing_is_prospective), handles are fresh and unknown handles are errors (handles_unique, unknown_handle_error), run-time registrations take precedence (registration_precedence); and the resolution order of Op::op as four unfolding theorems over an arbitrary environment: pipeline, then user operator for names without colon (even over a built-in), then macro for names with colon, then built-in, else NotFound (resolution_pipeline/user/macro/builtin, user_with_colon_ignored). Tied to /repo by a correspondence run on generated histories (Minimal and Plain, default and new; handles as ordinals; outputs of every call) and on Plain's register files of every layout (several fenced items, item at end of file without terminator, CR / LF / CRLF, prose and foreign fences), and by oracles on the implementation: behaviour/steps/params fingerprints of all handles re-checked after every call, resolution to the user operator, register look-up, and 8 threads sharing a context for apply while another context clears the shared grid cache.",
  "design_ref": "DESIGN.md section 7, C18",
  "note": "Partial: real thread schedules are not modelled (apply takes &self; the grid cache is behind a Mutex; Rust's type system is trusted for data races), uuid::new_v4 is modelled as a fresh-name supply, the file system as a function from names to texts.",
  "technique": "machine-checked proof in Lean 4 (invariant by induction over API histories; unfolding of the modelled resolution order) + model/implementation correspondence check + fingerprint/thread oracles",
}

CLAIMED["C19"] = {
  "text": "Lean 4 theorems (Geodesy/Props/C19.lean): for tuples of any dimension — out-of-range reads give NaN, a write is read back and leaves the other elements alone, an out-of-range write fills NaN and never fails, typed accessors agree with element access (nth_out_of_range, nth_setNth_same/other, setNth_out_of_range, accessors_agree, setXy_spec); for the containers and adapters — reading back what was written returns the stored dimensions with height 0 / epoch NaN or the adapter's fixed values, writing back what was read changes nothing (get_set, get_set_adapters, set_get), the specialised xy / set_xy fast paths equal the trait defaults for every container kind incl. nested adapters (fastpath_eq_default_xy by induction over the adapter nesting, fastpath_eq_default_set_xy); dms_to_dd / dm_to_dd are +-(|d| + (m + s/60)/60) with zero degrees positive (dms_to_dd_spec, dm_to_dd_spec, dms_zero_degrees), degree/radian/arc-second conversions are mutually inverse. Tied to /repo by a correspondence run of all eight angular functions on a lattice over [-720, 720] degrees plus carries, |angle| < 1 and every f64 class (<= 1e-12 relative; the model implements an exact fmod), and by oracles on the implementation: container round trips for vectors, arrays, slices of 2D/3D/4D/32-bit tuples and both adapters on every f64 class, a user container using only the trait defaults against the fast paths, element-wise arithmetic, DDDMM.mmm / DDDMMSS.sss round trips, normalisation ranges.",
  "design_ref": "DESIGN.md section 7, C19",
  "note": "Partial: the ISO-6709 round trips and the normalisation range/equivalence are decided by correspondence + oracle, not yet by theorems (floor arithmetic); rounding and f32 truncation are outside the real-number reading.",
  "technique": "machine-checked proof in Lean 4 (lens laws over the modelled containers, induction over adapter nesting) + model/implementation correspondence check + container/angle oracles",
}

CLAIMED["C20"] = {
  "text": "Lean 4 theorems (Geodesy/Props/C20.lean) over the model of kp's main (reading, comment and blank-line removal, defaults, batching at the size taken from the source, transform, printing; the library call and the number formatter are parameters): for EVERY batch size and every split of the input over readable files, the output is the print-out of all coordinate lines taken as one set, in input order, one line each, and the run ends normally, whenever transform is batchable (kp_batch_independent, kp_file_split_independent, loop invariant by induction over lines and files); transform IS batchable for a tuple-by-tuple library call (C02) with requested -d and -D (transform_batchable); empty input ends normally (kp_empty_input_ok), an unreadable file gives failure status (kp_unreadable_file_fails), blank and comment lines are skipped (kp_skips_blank_and_comment). Tied to /repo by a correspondence run against the kp BINARY built from the working tree (stdout and exit status, exact; the model implements {:.N} formatting by exact decimal expansion with ties to even), incl. inputs of 24999/25000/25001/50000/60000 lines, several files, CRLF, sexagesimal values, 1-6 columns, all option combinations, and by an oracle comparing kp's output with the library called in-process.",
  "design_ref": "DESIGN.md section 7, C20",
  "note": "Partial: clap argument parsing and process I/O are outside the model; without -d / -D kp's heuristics depend on batch boundaries (excluded by the statement: 'requested decimals / dimension'); the --roundtrip clause is validated by the oracle.",
  "technique": "machine-checked proof in Lean 4 (loop invariant over input lines and files) + model/binary correspondence check + in-process library oracle",
}

CLAIMED["C08"] = {
  "text": "Lean 4 theorems (Geodesy/Props/C08.lean) over the model of BaseGrid::contains / BaseGrid::at / grids_at, the Gravsoft reader and normalisation, and the NTv2 reader and sub-grid walk, read over the reals: the delivered value IS the bilinear form of the four corner nodes of the clamped cell (bilinear_eq), reproduces node values at nodes (at_node), is a convex combination of the corners inside a cell (at_convex), two adjacent cells agree on their common edge (at_edge_agree), outside the grid the same bilinear form of the border cell continues (at_margin_linear), containment with margin is exactly the documented box (contains_iff); grids_at returns the value of the FIRST grid containing the point, else of the first within the half-cell margin, else the origin with the null grid and failure without (grids_at_first_hit, first_hit_position, outside_all), and the unit/band normalisation maps are as documented (swap specs). Tied to /repo by a correspondence run of the model against BaseGrid::gravsoft / Ntv2Grid::new / Grid::at / grids_at on generated Gravsoft and NTv2 files (1-3 bands, any geometry, random parent/child trees) at nodes, on borders, in the margin and outside, and by oracles on the implementation: brute-force reference interpolation, deepest-sub-grid reference for NTv2 trees, continuity across cells and consistent sub-grids, list-order/first-hit through gridshift, deformation and deflection over a harness Context serving in-memory grids (incl. points in the margin of two grids, @null), and sign/unit conventions on the shipped grids.",
  "design_ref": "DESIGN.md section 7, C08",
  "note": "Partial: f32 storage and f64 rounding are outside the real-number reading (the correspondence compares to 1e-9 relative); the NTv2 deepest-sub-grid rule is decided by correspondence + reference oracle, the theorems cover the single-grid and grid-list rules; deflection's finite-difference formula is checked by the oracle only.",
  "technique": "machine-checked proof in Lean 4 (real-number reading of the interpolation, induction over the grid list) + model/implementation correspondence check + reference-interpolation and first-hit oracles",
}

CLAIMED["C15"] = {
  "text": "Lean 4 theorems (Geodesy/Props/C15.lean) over the model of the Gravsoft reader (bytes -> UTF-8 -> lines/comments/tokens -> numbers -> header/bands check -> normalisation -> BaseGrid::plain) and of the NTv2 reader (magic, byte order, record offsets, node count check, node reversal, sub-grid loop): for ANY bytes whatsoever, a grid the decoder accepts satisfies the invariant Inv (>= 2 rows and columns, >= 1 band, node table covering rows*cols*bands) (plain_ok_inv, gravsoft_ok_inv, gravsoftBytes_ok_inv, subgrid_ok, decode_ok); under Inv the cell used for ANY query point (NaN and infinities included: they only enter through clamped integer conversions) lies in the grid and all four corner indices of every band read lie inside the node table (cell_in_range, at_indices_in_bounds); every byte range the NTv2 reader touches lies inside the buffer (header_reads_in_bounds, node_reads_in_bounds, readSubgrids_guard, decode_guard) and what it stores is at most 1/8 of the file length per sub-grid (decode_ok: no allocation from an untrusted count); a number written in either byte order at any position is read back as written (reads_what_was_written, byte_order_detected), node records land reversed with (lon, lat) band order (node_order), an accepted Gravsoft file has used all and only its numbers, <= 3 bands (gravsoft_uses_all_values), ASCII bytes are their own text (utf8_ascii). Tied to /repo by a correspondence run of model and implementation on the SAME bytes, exact error class or values to 1e-9: well-formed Gravsoft (number formats, comments, split headers) and NTv2 files (both byte orders, shuffled sub-grid trees), the shipped files intact, at every truncation length (thorough) and under every single-bit flip of their headers (thorough), noise/delete/insert/duplicate/fill/swap corruptions, and consistently damaged files (single row/column with matching counts, zero/negative/NaN/huge increments, reversed extents, odd counts, duplicate/NONE/non-UTF-8/Unicode names, cyclic parents); and by safety oracles on the implementation: decode + queries at ordinary and extreme points at several margins + gridshift/deformation/deflection both ways under catch_unwind, a per-case timeout and a counting allocator (peak <= 64 x file size + 1 MiB), the large shipped files damaged in place, and the shipped .gsa ASCII twins compared node by node with the decoded .gsb.",
  "design_ref": "DESIGN.md section 7, C15",
  "note": "Partial: memory safety of the compiled code is argued through the model (index and slice bounds proved there; Rust's own bounds checks turn a violation into the panic the oracle looks for); f32/f64 rounding and text-to-number conversion are validated by the correspondence, not proved; the one assumed fact about `as usize` is the class UsizeLaw (proved for the reals).",
  "technique": "machine-checked proof in Lean 4 (decoder invariant for arbitrary bytes, index and slice bounds, byte-order round trip) + model/implementation correspondence on damaged files + safety/allocation oracles",
}

CLAIMED["C09"] = {
  "text": "Lean 4: every function of the model (tokenizer, parameter parsing, macro expansion, pipeline instantiation and application, every built-in operator except the three grid operators, grid file decoders, angular functions) is accepted by Lean only with a termination proof, so the model itself cannot loop; theorems (Geodesy/Props/C09.lean) discharge the guards of the partial operations the modelled code performs, stated with strict versions that fail outside their domain: both Vec::remove calls and both Vec::insert calls of parse_proj/tidy_proj are in range for every element list (tidy_removes_in_bounds, globals_insert_in_bounds, inv_insert_in_bounds), the magnitude of every i32 fits unsigned_abs (unsigned_abs_fits), instantiation never exhausts the recursion budget and parameter look-up always terminates with a value or a proper error (op_new_total, chase_total, from C04); grid decoding and look-up bounds are C15's, stack underflow C12's. Tied to /repo by a correspondence run in which the model predicts handle-or-error (with the error variant), success count and values for adversarial input: every modelled operator with adversarial values on every gamut key and coordinate tuples drawn from all f64 classes (NaN, infinities, signed zeros, subnormals, MAX, poles, antimeridian), the tokenizer functions and parse_proj on mutated definitions (multi-byte characters, control characters, truncations, duplicated slices), the angular functions on extreme arguments; a panic, abort or hang of the implementation is a disagreement. Safety oracles on the implementation (watchdog-supervised worker processes, catch_unwind, 3 GiB allocation cap): every built-in operator bare/inv/omit_*, with adversarial values, the definitions found in the library's own tests on adversarial coordinates and under mutation, grammar-generated pipelines and (self-referential, cyclic) macros, PROJ syntax incl. all ellipsoid spellings, grid operators with present/missing/optional/null/empty grid lists, Minimal and Plain contexts, 4D/2D/32-bit containers, empty operand sets, the ellipsoid module's public functions on arbitrary (a, f) and arguments, Ellipsoid::named on any text.",
  "design_ref": "DESIGN.md section 7, C09",
  "note": "Partial: absence of panics in the compiled Rust code is established by the correspondence and the oracles (sampling), not by the theorems, which cover the model and the listed guards; stack overflow and allocation failure are observed as worker crashes only.",
  "technique": "machine-checked proof in Lean 4 (totality of the model, guard lemmas for the partial operations) + model/implementation correspondence on adversarial input + supervised safety oracles",
}

CLAIMED["C13"] = {
  "text": "Lean 4 theorems (Geodesy/Props/C13.lean) over the models of merc, webmerc, tmerc/utm, btmerc/butm, lcc, laea, omerc, somerc (ported operator by operator from src/inner_op/*.rs; the compiled model is bit-identical with the implementation on the correspondence run), read over the reals, for ALL parameter values and ALL points: x_0 and y_0 are added to the forward result and subtracted first by the inverse (merc_false_origin, merc_false_origin_inv, lcc_false_origin, tmerc_false_origin + tmerc_offsets through the stored northing offset, btmerc_false_origin, omerc_false_origin for all three variants, somerc_false_origin, laea_false_origin for every aspect); lon_0 in degrees equals subtracting it from the input longitude (merc_lon0, lcc_lon0, tmerc_lon0); k_0 and the semi-major axis scale the unshifted result linearly (merc_k0, lcc_scale, tmerc_scale); lat_ts is exactly the corresponding k_0 (merc_lat_ts_is_k0); utm zone=Z [south] IS tmerc with lon_0=6Z-183, k_0=0.9996, x_0=500000, y_0=0|10000000 — every tmerc parameter set with these five values on the same ellipsoid yields the same per-tuple function (utm_is_tmerc via tmerc_pre_congr), butm likewise is btmerc (butm_is_btmerc via btmerc_congr); the noop aliases return the data untouched and count every tuple (noop_identity, noop_aliases). Tied to /repo by the correspondence run (model vs implementation, <= 4 ulp, on random valid parameterisations of all ten projections in both directions, incl. lat_ts and equal-parallel lcc) and by oracles on the implementation comparing pairs of differently parameterised instances: false origin, lon_0, k_0, ellipsoid size, utm/butm for all 60 zones and both hemispheres (bit-identical), merc-on-sphere = webmerc, lat_ts = k_0 and lat_ts symmetry, 1SP lcc = 2SP lcc with equal parallels (bit-identical), noop aliases (bit-identical), each forward and inverse.",
  "design_ref": "DESIGN.md section 7, C13",
  "note": "Partial: 'merc on a sphere equals webmerc' and '1SP lcc = 2SP lcc with equal parallels' are decided by the oracles and the correspondence, not by theorems (the first needs asinh(tan x) = ln tan(pi/4 + x/2) over the reals, the second the NaN default of lat_2 which the real-number reading cannot express); scaling by the semi-major axis is proved for lcc and tmerc and checked by the oracle for the others; floating point rounding is outside the real-number reading.",
  "technique": "machine-checked proof in Lean 4 (algebraic laws of the projection formulas over the reals, congruence of constructor-derived parameters) + model/implementation correspondence + paired-instance oracles",
}

ALL = ["C%02d" % i for i in range(1, 21)]

def main():
    checks = []
    for pid in ALL:
        if pid not in CLAIMED:
            continue
        c = CLAIMED[pid]
        checks.append({
            "property_id": pid,
            "quick_cmd": f"./check {pid} --tier quick",
            "thorough_cmd": f"./check {pid} --tier thorough",
            "evidence_file": f"/verif/evidence/{pid}.json",
            "replay_cmd_template": f"./check {pid} --replay {{path}}",
            "engine": "lean4-model+rust-harness",
            "level_claimed": {"category": "proof", "text": c["text"], "design_ref": c["design_ref"]},
            "level_note": c["note"],
            "technique": c["technique"],
        })
    manifest = {
        "version": 1,
        "setup_cmd": "./setup.sh",
        "hooks": {
            "guard": "geodesy_verif",
            "enable": "no hooks are needed: the harness uses the public API (geodesy::authoring) of /repo built from the working tree; the cfg name geodesy_verif is reserved and unused",
            "baseline_off_cmd": "cd /repo && cargo nextest run --workspace --no-fail-fast --offline || cargo test --workspace --no-fail-fast --offline",
            "source_commits": [],
            "add_only": True,
        },
        "engines": [
            {"name": "lean4-model+rust-harness", "path": "/verif/check",
             "serves_properties": sorted(CLAIMED),
             "kind_free_text": "Lean 4 model + theorems (lean/), translator of constant tables (tools/translate.py), Rust harness running the real code in killable workers (harness/), Python driver (check)"}
        ],
        "checks": checks,
        "notes": "See DESIGN.md. Every check regenerates the Lean tables from /repo, rebuilds the Lean theorems and the harness against /repo's working tree, audits axioms, runs the model/implementation correspondence and the property's search oracles.",
        "not_applicable": [
            {"property_id": pid, "reason": "check not built yet in this round (planned: DESIGN.md section 9); not claimed until its theorems, correspondence and search run end to end"}
            for pid in ALL if pid not in CLAIMED
        ],
    }
    with open(os.path.join(ROOT, "MANIFEST.json"), "w") as f:
        json.dump(manifest, f, indent=1)

if __name__ == "__main__":
    main()
