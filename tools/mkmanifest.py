#!/usr/bin/env python3
"""Write MANIFEST.json from the table below (kept in one place so it stays valid)."""
import json, os
ROOT = os.path.join(os.path.dirname(os.path.abspath(__file__)), "..")

CLAIMED = {
 "C12": {
  "text": "Lean 4 theorems (Geodesy/Props/C12.lean): for every instruction, every column height, every operand count and every program the column stack machine of stack.rs, as modelled, is the documented per-tuple abstract machine (stack_refines_abstract, program_refines_abstract by induction over programs); inverse = forward of the dual instruction; underflow gives all-NaN operands and count 0; the stack is local to one application. The model is tied to /repo by a correspondence run (stack programs through the real pipeline operator and through the compiled Lean model, bit-exact) and an independent abstract-machine oracle evaluated on the implementation.",
  "design_ref": "DESIGN.md section 7, C12; Appendix A.1",
  "note": "Trusted: Lean kernel + propext/Classical.choice/Quot.sound; hand-written model of stack.rs/pushpop.rs/pipeline.rs tied to the code by differential testing only; legacy push/pop and the constructor's accept/reject rule are covered by the correspondence, not yet by a theorem.",
  "technique": "machine-checked proof in Lean 4 (refinement of the modelled column machine to an abstract per-tuple machine) + model/implementation correspondence check",
 },
}

ALL = ["C%02d" % i for i in range(1, 21)]

def main():
    checks = []
    for pid in ALL:
        if pid not in CLAIMED:
            continue
        c = CLAIMED[pid]
        checks.append({
            "property_id": pid,
            "quick_cmd": f"./check {pid} --tier quick",
            "thorough_cmd": f"./check {pid} --tier thorough",
            "evidence_file": f"/verif/evidence/{pid}.json",
            "replay_cmd_template": f"./check {pid} --replay {{path}}",
            "engine": "lean4-model+rust-harness",
            "level_claimed": {"category": "proof", "text": c["text"], "design_ref": c["design_ref"]},
            "level_note": c["note"],
            "technique": c["technique"],
        })
    manifest = {
        "version": 1,
        "setup_cmd": "./setup.sh",
        "hooks": {
            "guard": "geodesy_verif",
            "enable": "no hooks are needed: the harness uses the public API (geodesy::authoring) of /repo built from the working tree; the cfg name geodesy_verif is reserved and unused",
            "baseline_off_cmd": "cd /repo && cargo nextest run --workspace --no-fail-fast --offline || cargo test --workspace --no-fail-fast --offline",
            "source_commits": [],
            "add_only": True,
        },
        "engines": [
            {"name": "lean4-model+rust-harness", "path": "/verif/check",
             "serves_properties": sorted(CLAIMED),
             "kind_free_text": "Lean 4 model + theorems (lean/), translator of constant tables (tools/translate.py), Rust harness running the real code in killable workers (harness/), Python driver (check)"}
        ],
        "checks": checks,
        "notes": "See DESIGN.md. Every check regenerates the Lean tables from /repo, rebuilds the Lean theorems and the harness against /repo's working tree, audits axioms, runs the model/implementation correspondence and the property's search oracles.",
        "not_applicable": [
            {"property_id": pid, "reason": "check not built yet in this round (planned: DESIGN.md section 9); not claimed until its theorems, correspondence and search run end to end"}
            for pid in ALL if pid not in CLAIMED
        ],
    }
    with open(os.path.join(ROOT, "MANIFEST.json"), "w") as f:
        json.dump(manifest, f, indent=1)

if __name__ == "__main__":
    main()
