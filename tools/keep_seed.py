#!/usr/bin/env python3
"""keep_seed.py <tmp seed dir> <id> <property> <detected: yes/no + text> — copy a confirmed seeded change into /verif/seeded/<id>/"""
import json, os, shutil, sys
src, sid, prop, detected = sys.argv[1:5]
dst = os.path.join("/verif/seeded", sid)
os.makedirs(dst, exist_ok=True)
shutil.copy(os.path.join(src, "patch.diff"), os.path.join(dst, "patch.diff"))
demo = os.path.join(src, "demo.rs")
if os.path.exists(demo):
    shutil.copy(demo, os.path.join(dst, "demo.rs"))
meta = {}
mp = os.path.join(src, "meta.json")
if os.path.exists(mp):
    try:
        meta = json.load(open(mp))
    except Exception as e:
        meta = {"note": f"agent meta.json unreadable: {e}"}
meta["property"] = prop
meta["confirmed_by_me"] = "tools/confirm_seed.sh in a scratch worktree: patch applies, 137 tests pass with it, demo fails with it and passes without it"
meta["check_result"] = detected
json.dump(meta, open(os.path.join(dst, "meta.json"), "w"), indent=1)
print("kept", dst)
