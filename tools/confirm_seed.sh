#!/bin/sh
# confirm_seed.sh <seed dir> <worktree>: the change compiles, the 137 tests pass with it, the
# demonstration fails with it and passes without it.  Prints a one-line verdict.
S="$1"; W="$2"
export CARGO_NET_OFFLINE=true
cd "$W" || exit 2
git checkout -q -- . ; rm -f tests/demo_seed.rs
cp "$S/demo.rs" tests/demo_seed.rs
base=$(cargo test --offline --test demo_seed 2>&1 | grep -E "^test result" | head -1)
git apply "$S/patch.diff" || { echo "SEED $S: patch does not apply"; exit 1; }
with=$(cargo test --offline --test demo_seed 2>&1 | grep -E "^test result" | head -1)
rm -f tests/demo_seed.rs
suite=$(cargo nextest run --workspace --no-fail-fast --offline 2>&1 | grep -E "Summary" | head -1)
git checkout -q -- . ; rm -f tests/demo_seed.rs
echo "SEED $S: demo-without=[$base] demo-with=[$with] suite-with=[$suite]"
