#!/usr/bin/env python3
"""opcmp.py '<definition>' F|I 'x,y,z,t;x,y,z,t;...' [driver] — run one OP case on the implementation
(gvharness exec) and on the model (driver) and show both results as numbers, with the relative difference.
Values may be given as decimal numbers; a trailing d converts degrees to radians (12d)."""
import math, struct, subprocess, sys, tempfile, os
definition, direction, data = sys.argv[1:4]
driver = sys.argv[4] if len(sys.argv) > 4 else "/verif/lean/.lake/build/bin/driver"
harness = os.environ.get("GVH", "/verif/harness/target/debug/gvharness")
def bits(x):
    x = x.strip()
    v = math.radians(float(x[:-1])) if x.endswith("d") else float(x)
    return "%016x" % struct.unpack(">Q", struct.pack(">d", v))[0]
def esc(s):
    return s.replace("\\", "\\\\")
rows = ";".join(",".join(bits(v) for v in row.split(",")) for row in data.split(";"))
line = "\t".join(["OP", "default", "0", "0", esc(definition), "apply", direction, rows])
with tempfile.NamedTemporaryFile("w", suffix=".txt", delete=False) as f:
    f.write(line + "\n")
    path = f.name
impl = subprocess.run([harness, "exec", path], capture_output=True, text=True, cwd="/repo").stdout.strip()
model = subprocess.run([driver], input=line + "\n", capture_output=True, text=True).stdout.strip()
os.unlink(path)
def decode(s):
    out = []
    for tok in s.replace(";", " ").replace(",", " ").replace("=", " ").split():
        if len(tok) == 16 and all(c in "0123456789abcdef" for c in tok):
            out.append(struct.unpack(">d", struct.pack(">Q", int(tok, 16)))[0])
    return out
print("impl :", impl[:200])
print("model:", model[:200])
a, b = decode(impl), decode(model)
for i, (x, y) in enumerate(zip(a, b)):
    rel = 0.0 if x == y or (x != x and y != y) else abs(x - y) / max(abs(x), abs(y), 1e-300)
    print(f"  [{i}] {x!r:>26} {y!r:>26} rel={rel:.2e}")
