#!/bin/sh
# round10.sh <pid>: confirm and try both sixteenth-round seeds of a property
P="$1"
for k in 1 2; do
  S=/tmp/seed16-$P-$k
  [ -f "$S/patch.diff" ] || { echo "$S: no patch"; continue; }
  /verif/tools/confirm_seed.sh "$S" /tmp/wt16-$P 2>&1 | tail -1 | cut -c1-300
  /verif/tools/try_seed.sh "$S" "$P" 2>&1 | tail -3 | cut -c1-220
done
