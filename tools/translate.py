#!/usr/bin/env python3
"""Translate the constant tables of /repo/src into Lean data (Geodesy/Gen/Tables.lean).

Data only, no control flow.  Run on every check; if a table the theorems depend on cannot be
found (renamed, reshaped) the translator fails, which the check reports as a broken tie.
"""
import hashlib
import os
import re
import sys

REPO = os.environ.get("VERIF_REPO", "/repo")
OUT = os.path.join(os.path.dirname(os.path.abspath(__file__)), "..", "lean", "Geodesy", "Gen", "Tables.lean")


class TranslateError(Exception):
    pass


def read(rel):
    with open(os.path.join(REPO, rel), encoding="utf-8") as f:
        return f.read()


def strip_comments(src):
    # remove // comments (not inside strings: the tables have no '//' inside strings except URLs in docs)
    out = []
    for line in src.split("\n"):
        i = 0
        in_str = False
        cut = len(line)
        while i < len(line):
            c = line[i]
            if c == '"' and (i == 0 or line[i - 1] != "\\"):
                in_str = not in_str
            elif not in_str and line.startswith("//", i):
                cut = i
                break
            i += 1
        out.append(line[:cut])
    return "\n".join(out)


def const_body(src, name):
    """text between the '[' following `const NAME ... =` and its matching ']'"""
    m = re.search(r"const\s+" + re.escape(name) + r"\s*:[^=]*=\s*\[", src)
    if not m:
        raise TranslateError(f"table {name} not found")
    i = m.end()
    depth = 1
    in_str = False
    while i < len(src):
        c = src[i]
        if c == '"' and src[i - 1] != "\\":
            in_str = not in_str
        elif not in_str:
            if c == "[":
                depth += 1
            elif c == "]":
                depth -= 1
                if depth == 0:
                    return src[m.end():i]
        i += 1
    raise TranslateError(f"table {name}: unbalanced")


def lean_str(s):
    out = []
    for ch in s:
        if ch == "\\":
            out.append("\\\\")
        elif ch == '"':
            out.append('\\"')
        elif ch == "\n":
            out.append("\\n")
        elif 0x20 <= ord(ch) < 0x7F:
            out.append(ch)
        else:
            out.append("\\u{%x}" % ord(ch))
    return '"' + "".join(out) + '"'


STR = r'"((?:[^"\\]|\\.)*)"'


def rust_unescape(s):
    return s.replace('\\"', '"').replace("\\\\", "\\")


def lit_of_float(text):
    """Rust float literal -> Lean `Lit` term (exact decimal value)"""
    t = text.strip().replace("_", "")
    t = re.sub(r"f64$", "", t)
    if t in ("f64::NAN", "NAN"):
        return "Lit.nan"
    neg = t.startswith("-")
    t = t.lstrip("+-")
    m = re.fullmatch(r"(\d*)(?:\.(\d*))?(?:[eE]([+-]?\d+))?", t)
    if not m or (m.group(1) == "" and (m.group(2) or "") == ""):
        raise TranslateError(f"cannot read float literal {text!r}")
    ip, fp, ex = m.group(1) or "", m.group(2) or "", int(m.group(3) or 0)
    mant = int((ip + fp) or "0")
    e10 = ex - len(fp)
    return f"(Lit.fin {'true' if neg else 'false'} {mant} ({e10}))"


def gamuts():
    """every `const *GAMUT*: [OpParameter; n] = [...]` in src/inner_op"""
    res = {}
    d = os.path.join(REPO, "src", "inner_op")
    for fn in sorted(os.listdir(d)):
        if not fn.endswith(".rs"):
            continue
        src = strip_comments(read(os.path.join("src", "inner_op", fn)))
        # cut off the tests module
        src = src.split("#[cfg(test)]")[0]
        for m in re.finditer(r"const\s+(\w*GAMUT\w*)\s*:\s*\[OpParameter;\s*\d+\]\s*=\s*\[", src):
            name = m.group(1)
            body = const_body(src, name)
            items = []
            for pm in re.finditer(r"OpParameter::(\w+)\s*\{([^}]*)\}", body):
                kind = pm.group(1)
                fields = pm.group(2)
                km = re.search(r"key:\s*" + STR, fields)
                if not km:
                    raise TranslateError(f"{fn}:{name}: parameter without key")
                key = rust_unescape(km.group(1))
                dm = re.search(r"default:\s*(.*?)\s*,?\s*$", fields.strip(), re.S)
                default = dm.group(1).strip() if dm else None
                items.append((kind, key, default))
            res[(fn[:-3], name)] = items
    return res


def lean_gamut(items, where):
    out = []
    for kind, key, default in items:
        k = f'(S {lean_str(key)})'
        if kind == "Flag":
            out.append(f".flag {k}")
            continue
        if default is None:
            raise TranslateError(f"{where}: {key}: no default field")
        if default == "None":
            d = "none"
        else:
            m = re.fullmatch(r"Some\((.*)\)", default, re.S)
            if not m:
                raise TranslateError(f"{where}: {key}: default {default!r}")
            inner = m.group(1).strip()
            if kind in ("Series", "Text", "Texts"):
                sm = re.fullmatch(STR, inner)
                if not sm:
                    raise TranslateError(f"{where}: {key}: default {default!r}")
                d = f"(some (S {lean_str(rust_unescape(sm.group(1)))}))"
            elif kind == "Real":
                d = f"(some {lit_of_float(inner)})"
            elif kind == "Natural":
                d = f"(some {int(inner.replace('_', ''))})"
            elif kind == "Integer":
                d = f"(some ({int(inner.replace('_', ''))}))"
            else:
                raise TranslateError(f"{where}: unknown parameter kind {kind}")
        out.append(f".{kind.lower()} {k} {d}")
    return "[" + ", ".join(out) + "]"


def main():
    files = {}

    def src_of(rel):
        s = read(rel)
        files[rel] = hashlib.sha256(s.encode()).hexdigest()
        return strip_comments(s)

    lines = []
    emit = lines.append
    emit("/- GENERATED by tools/translate.py from the Rust sources; do not edit. -/")
    emit("import Geodesy.Model.Params")
    emit("namespace Geodesy")
    emit("namespace Gen")
    emit("open Text")
    emit("")

    # built-in operators
    s = src_of("src/inner_op/mod.rs")
    body = const_body(s, "BUILTIN_OPERATORS")
    ops = re.findall(r"\(\s*" + STR + r"\s*,\s*OpConstructor\(([\w:]+)\)\s*\)", body)
    if len(ops) < 10:
        raise TranslateError("BUILTIN_OPERATORS: too few entries")
    emit("/-- `BUILTIN_OPERATORS`: name, constructor path -/")
    emit("def builtinOperators : List (String × String) := [")
    emit(",\n".join(f"  ({lean_str(n)}, {lean_str(c)})" for n, c in ops))
    emit("]")
    emit("")

    # built-in adaptors
    s = src_of("src/context/mod.rs")
    body = const_body(s, "BUILTIN_ADAPTORS")
    ads = re.findall(r"\(\s*" + STR + r"\s*,\s*" + STR + r"\s*\)", body)
    if not ads:
        raise TranslateError("BUILTIN_ADAPTORS: empty")
    emit("def builtinAdaptors : List (String × String) := [")
    emit(",\n".join(f"  ({lean_str(a)}, {lean_str(b)})" for a, b in ads))
    emit("]")
    emit("")

    # ellipsoids
    s = src_of("src/ellipsoid/constants.rs")
    body = const_body(s, "ELLIPSOID_LIST")
    rows = re.findall(r"\(\s*" + STR + r"\s*,\s*" + STR + r"\s*,\s*" + STR + r"\s*,\s*" + STR + r"\s*,\s*" + STR + r"\s*\)", body)
    if len(rows) < 10:
        raise TranslateError("ELLIPSOID_LIST: too few rows")
    emit("/-- `ELLIPSOID_LIST`: name, a, ay, rf (texts, exactly as in the source) -/")
    emit("def ellipsoidList : List (String × String × String × String) := [")
    emit(",\n".join(f"  ({lean_str(r[0])}, {lean_str(r[1])}, {lean_str(r[2])}, {lean_str(r[3])})" for r in rows))
    emit("]")
    emit("def ellipsoidNames : List String := ellipsoidList.map (·.1)")
    emit("")

    # polynomial coefficient tables (rational expressions p/q evaluated by the compiler in f64)
    def ratio_list(text, where):
        out = []
        for item in split_top(text):
            item = item.strip()
            if not item:
                continue
            m = re.fullmatch(r"(-?\s*[0-9][0-9_]*\.?[0-9_]*(?:[eE][+-]?[0-9]+)?)(?:_f64)?\s*(?:/\s*(-?[0-9][0-9_]*\.?[0-9_]*(?:[eE][+-]?[0-9]+)?)(?:_f64)?)?", item)
            if not m:
                raise TranslateError(f"{where}: cannot read coefficient {item!r}")
            num = lit_of_float(m.group(1).replace(" ", "").replace("_", ""))
            den = lit_of_float(m.group(2).replace("_", "")) if m.group(2) else "(Lit.fin false 1 0)"
            out.append(f"({num}, {den})")
        return out

    def split_top(text):
        depth, cur, parts = 0, "", []
        for ch in text:
            if ch in "[(":
                depth += 1
            if ch in "])":
                depth -= 1
            if ch == "," and depth == 0:
                parts.append(cur)
                cur = ""
            else:
                cur += ch
        parts.append(cur)
        return parts

    def matrix(text, where):
        rows = re.findall(r"\[([^\[\]]*)\]", text)
        if not rows:
            raise TranslateError(f"{where}: no rows")
        return [ratio_list(r, where) for r in rows]

    def poly_const(src, cname, lname, where):
        m = re.search(r"const\s+" + cname + r"\s*:\s*PolynomialCoefficients\s*=\s*PolynomialCoefficients\s*\{(.*?)\};", src, re.S)
        if not m:
            raise TranslateError(f"{where}: {cname} not found")
        body = m.group(1)
        mf = re.search(r"fwd\s*:\s*\[(.*?)\]\s*,\s*inv\s*:\s*\[(.*)\]", body, re.S)
        if not mf:
            raise TranslateError(f"{where}: {cname} fwd/inv not found")
        for tag, txt in (("Fwd", mf.group(1)), ("Inv", mf.group(2))):
            rows = matrix(txt, where)
            if len(rows) != 6 or any(len(r) != 6 for r in rows):
                raise TranslateError(f"{where}: {cname}.{tag} is not 6x6")
            emit(f"def {lname}{tag} : List (List (Lit × Lit)) := [")
            emit(",\n".join("  [" + ", ".join(r) + "]" for r in rows))
            emit("]")
        emit("")

    s = src_of("src/ellipsoid/constants.rs")
    emit("/-! polynomial coefficient tables: each coefficient as (numerator, denominator) literals -/")
    for cname, lname in (("RECTIFYING", "polyRectifying"), ("CONFORMAL", "polyConformal"), ("AUTHALIC", "polyAuthalic")):
        poly_const(s, cname, lname, "ellipsoid/constants.rs")
    m = re.search(r"const\s+MERIDIAN_ARC_COEFFICIENTS\s*:\s*\[f64;\s*\d+\]\s*=\s*\[(.*?)\];", s, re.S)
    if not m:
        raise TranslateError("MERIDIAN_ARC_COEFFICIENTS not found")
    emit("def meridianArcCoefficients : List (Lit × Lit) := [" + ", ".join(ratio_list(m.group(1), "MERIDIAN_ARC_COEFFICIENTS")) + "]")
    emit("")
    s = src_of("src/inner_op/tmerc.rs")
    poly_const(s, "TRANSVERSE_MERCATOR", "polyTmerc", "inner_op/tmerc.rs")

    # units
    s = src_of("src/inner_op/units.rs")
    for table in ("LINEAR_UNITS", "ANGULAR_UNITS"):
        body = const_body(s, table)
        us = re.findall(r"Unit\(\s*" + STR + r"\s*,\s*" + STR + r"\s*,\s*" + STR + r"\s*,\s*([^)]*?)\s*,?\s*\)", body)
        if not us:
            raise TranslateError(f"{table}: empty")
        consts = dict(re.findall(r"const\s+(\w+)\s*:\s*f64\s*=\s*([0-9.eE+-]+)\s*;", s))
        emit(f"/-- `{table}`: name, factor text, multiplier as (numerator literal, denominator literal) -/")
        emit(f"def {table.lower().replace('_u', 'U')} : List (String × String × Lit × Lit) := [")
        rows_out = []
        for name, factor, _descr, mult in us:
            mult = mult.strip()
            if mult in consts:
                mult = consts[mult]
            if "/" in mult:
                a, b = mult.split("/")
                num, den = lit_of_float(a), lit_of_float(b)
            else:
                num, den = lit_of_float(mult), "(Lit.fin false 1 0)"
            rows_out.append(f"  ({lean_str(name)}, {lean_str(factor)}, {num}, {den})")
        emit(",\n".join(rows_out))
        emit("]")
        emit("")

    # gamuts
    gs = gamuts()
    for (mod, name), items in gs.items():
        files[f"src/inner_op/{mod}.rs"] = hashlib.sha256(read(f"src/inner_op/{mod}.rs").encode()).hexdigest()
        ident = f"gamut_{mod}_{name}"
        emit(f"def {ident} : List OpParameter := {lean_gamut(items, mod + '::' + name)}")
    emit("")
    emit("def gamutNames : List String := [" + ", ".join(lean_str(f"{m}::{n}") for (m, n) in gs) + "]")
    emit("")

    # limits
    s = src_of("src/op/raw_parameters.rs")
    m = re.search(r"self\.recursion_level\s*>\s*(\d+)", s)
    if not m:
        raise TranslateError("recursion limit not found")
    emit(f"def recursionLimit : Nat := {int(m.group(1))}")
    s = src_of("src/bin/kp.rs")
    m = re.search(r"operands\.len\(\)\s*==\s*(\d+)", s)
    if not m:
        raise TranslateError("kp batch size not found")
    emit(f"def kpBatch : Nat := {int(m.group(1))}")
    s = src_of("src/op/parsed_parameters.rs")
    for cname, lname in (("ZERO_VALUED_IMPLICIT_GAMUT_ELEMENTS", "zeroImplicit"), ("UNIT_VALUED_IMPLICIT_GAMUT_ELEMENTS", "unitImplicit")):
        body = const_body(s, cname)
        emit(f"def {lname} : List String := [" + ", ".join(lean_str(x) for x in re.findall(STR, body)) + "]")
    emit("")
    # the resource files and registers shipped under geodesy/resources (what `Plain` finds from the repo root)
    resdir = os.path.join(REPO, "geodesy", "resources")
    shipped = []
    if os.path.isdir(resdir):
        for fn in sorted(os.listdir(resdir)):
            if fn.endswith(".resource") or fn.endswith(".md"):
                with open(os.path.join(resdir, fn), encoding="utf-8") as fh:
                    content = fh.read()
                files[f"geodesy/resources/{fn}"] = hashlib.sha256(content.encode()).hexdigest()
                shipped.append((fn, content))
    emit("/-- the files of `geodesy/resources`: file name, content -/")
    emit("def shippedResources : List (String × String) := [")
    emit(",\n".join(f"  ({lean_str(n)}, {lean_str(c)})" for n, c in shipped))
    emit("]")
    emit("")
    emit("def sourceHashes : List (String × String) := [")
    emit(",\n".join(f"  ({lean_str(k)}, {lean_str(v)})" for k, v in sorted(files.items())))
    emit("]")
    emit("")
    emit("end Gen")
    emit("end Geodesy")

    text = "\n".join(lines) + "\n"
    os.makedirs(os.path.dirname(OUT), exist_ok=True)
    old = None
    if os.path.exists(OUT):
        with open(OUT, encoding="utf-8") as f:
            old = f.read()
    if old != text:
        with open(OUT, "w", encoding="utf-8") as f:
            f.write(text)
    return 0


if __name__ == "__main__":
    try:
        sys.exit(main())
    except TranslateError as e:
        print(f"translate: {e}", file=sys.stderr)
        sys.exit(2)
