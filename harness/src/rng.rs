//! SplitMix64: every random choice of a run derives from one seed
pub struct Rng(pub u64);

impl Rng {
    pub fn next(&mut self) -> u64 {
        self.0 = self.0.wrapping_add(0x9E3779B97F4A7C15);
        let mut z = self.0;
        z = (z ^ (z >> 30)).wrapping_mul(0xBF58476D1CE4E5B9);
        z = (z ^ (z >> 27)).wrapping_mul(0x94D049BB133111EB);
        z ^ (z >> 31)
    }
    pub fn below(&mut self, n: usize) -> usize {
        if n == 0 {
            0
        } else {
            (self.next() % n as u64) as usize
        }
    }
    pub fn range(&mut self, lo: i64, hi: i64) -> i64 {
        lo + (self.next() % ((hi - lo + 1) as u64)) as i64
    }
    pub fn chance(&mut self, num: usize, den: usize) -> bool {
        self.below(den) < num
    }
    pub fn unit(&mut self) -> f64 {
        (self.next() >> 11) as f64 / (1u64 << 53) as f64
    }
    pub fn uniform(&mut self, lo: f64, hi: f64) -> f64 {
        lo + (hi - lo) * self.unit()
    }
    pub fn pick<'a, T>(&mut self, xs: &'a [T]) -> &'a T {
        &xs[self.below(xs.len())]
    }
}
