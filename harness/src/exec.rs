//! Execute one case line against the implementation (in-process) and print the result line
use crate::wire::*;
use geodesy::authoring::*;

// ----- user defined operators the harness registers ---------------------------------

fn add2_fwd(_op: &Op, _ctx: &dyn Context, operands: &mut dyn CoordinateSet) -> usize {
    for i in 0..operands.len() {
        let mut c = operands.get_coord(i);
        c[0] += 2.;
        operands.set_coord(i, &c);
    }
    operands.len()
}
fn add2_inv(_op: &Op, _ctx: &dyn Context, operands: &mut dyn CoordinateSet) -> usize {
    for i in 0..operands.len() {
        let mut c = operands.get_coord(i);
        c[0] -= 2.;
        operands.set_coord(i, &c);
    }
    operands.len()
}
fn add3_fwd(_op: &Op, _ctx: &dyn Context, operands: &mut dyn CoordinateSet) -> usize {
    for i in 0..operands.len() {
        let mut c = operands.get_coord(i);
        c[0] += 3.;
        operands.set_coord(i, &c);
    }
    operands.len()
}
const INV_GAMUT: [OpParameter; 1] = [OpParameter::Flag { key: "inv" }];
fn user_add2(parameters: &RawParameters, ctx: &dyn Context) -> Result<Op, Error> {
    Op::plain(parameters, InnerOp(add2_fwd), Some(InnerOp(add2_inv)), &INV_GAMUT, ctx)
}
fn user_oneway3(parameters: &RawParameters, ctx: &dyn Context) -> Result<Op, Error> {
    Op::plain(parameters, InnerOp(add3_fwd), None, &INV_GAMUT, ctx)
}

#[rustfmt::skip]
const PROBE_GAMUT: [OpParameter; 8] = [
    OpParameter::Flag    { key: "inv" },
    OpParameter::Flag    { key: "flag" },
    OpParameter::Natural { key: "natural", default: Some(7) },
    OpParameter::Integer { key: "integer", default: Some(-7) },
    OpParameter::Real    { key: "real",    default: Some(1.25) },
    OpParameter::Series  { key: "series",  default: Some("1,2,3") },
    OpParameter::Text    { key: "text",    default: Some("deftext") },
    OpParameter::Texts   { key: "names",   default: Some("foo, bar") },
];
#[rustfmt::skip]
const PROBEREQ_GAMUT: [OpParameter; 6] = [
    OpParameter::Natural { key: "req_natural", default: None },
    OpParameter::Integer { key: "req_integer", default: None },
    OpParameter::Real    { key: "req_real",    default: None },
    OpParameter::Series  { key: "req_series",  default: None },
    OpParameter::Text    { key: "req_text",    default: None },
    OpParameter::Texts   { key: "req_names",   default: None },
];
fn user_probe(parameters: &RawParameters, ctx: &dyn Context) -> Result<Op, Error> {
    Op::plain(parameters, InnerOp(add2_fwd), Some(InnerOp(add2_inv)), &PROBE_GAMUT, ctx)
}
fn user_probereq(parameters: &RawParameters, ctx: &dyn Context) -> Result<Op, Error> {
    // one required parameter at a time: the others get a default when absent
    let given = parameters.definition.split_into_parameters();
    let gamut: Vec<OpParameter> = PROBEREQ_GAMUT
        .iter()
        .filter(|p| match p {
            OpParameter::Natural { key, .. } | OpParameter::Integer { key, .. } | OpParameter::Real { key, .. }
            | OpParameter::Series { key, .. } | OpParameter::Text { key, .. } | OpParameter::Texts { key, .. } => given.contains_key(*key) || *key == "req_real",
            _ => true,
        })
        .cloned()
        .collect();
    Op::plain(parameters, InnerOp(add2_fwd), Some(InnerOp(add2_inv)), &gamut, ctx)
}

/// a user operator that refuses a definition without `v=`: its refusal is the answer, whatever
/// built-in may carry the same name
const NEEDV_GAMUT: [OpParameter; 2] = [OpParameter::Flag { key: "inv" }, OpParameter::Real { key: "v", default: None }];
fn user_needv(parameters: &RawParameters, ctx: &dyn Context) -> Result<Op, Error> {
    Op::plain(parameters, InnerOp(add2_fwd), Some(InnerOp(add2_inv)), &NEEDV_GAMUT, ctx)
}

pub fn user_ctor(tag: &str) -> Option<OpConstructor> {
    match tag {
        "u:needv" => Some(OpConstructor(user_needv)),
        "u:probe" => Some(OpConstructor(user_probe)),
        "u:probereq" => Some(OpConstructor(user_probereq)),
        "u:add2" => Some(OpConstructor(user_add2)),
        "u:oneway3" => Some(OpConstructor(user_oneway3)),
        _ => None,
    }
}

// ----- context construction ----------------------------------------------------------

pub struct CtxSpec {
    pub kind: String,
    pub resources: Vec<(String, String)>,
    pub users: Vec<(String, String)>,
}

pub fn parse_ctx<'a>(fields: &'a [&'a str]) -> Option<(CtxSpec, &'a [&'a str])> {
    let kind = fields.first()?.to_string();
    let nres: usize = fields.get(1)?.parse().ok()?;
    let mut i = 2;
    let mut resources = vec![];
    for _ in 0..nres {
        resources.push((unescape(fields.get(i)?), unescape(fields.get(i + 1)?)));
        i += 2;
    }
    let nuser: usize = fields.get(i)?.parse().ok()?;
    i += 1;
    let mut users = vec![];
    for _ in 0..nuser {
        users.push((unescape(fields.get(i)?), fields.get(i + 1)?.to_string()));
        i += 2;
    }
    Some((CtxSpec { kind, resources, users }, &fields[i..]))
}

pub fn fill_ctx(ctx: &mut dyn Context, spec: &CtxSpec) {
    for (n, b) in &spec.resources {
        ctx.register_resource(n, b);
    }
    for (n, t) in &spec.users {
        if let Some(c) = user_ctor(t) {
            ctx.register_op(n, c);
        }
    }
}

pub fn with_ctx<T>(spec: &CtxSpec, f: impl FnOnce(&mut dyn Context) -> T) -> T {
    match spec.kind.as_str() {
        "new" => {
            let mut c = Minimal::new();
            fill_ctx(&mut c, spec);
            f(&mut c)
        }
        "plain" => {
            let mut c = Plain::default();
            fill_ctx(&mut c, spec);
            f(&mut c)
        }
        "plain-new" => {
            let mut c = Plain::new();
            fill_ctx(&mut c, spec);
            f(&mut c)
        }
        _ => {
            let mut c = Minimal::default();
            fill_ctx(&mut c, spec);
            f(&mut c)
        }
    }
}

fn dir_of(s: &str) -> Direction {
    if s == "I" {
        Inv
    } else {
        Fwd
    }
}

fn exec_op(fields: &[&str]) -> String {
    let Some((spec, rest)) = parse_ctx(fields) else {
        return "bad-case".to_string();
    };
    if rest.len() != 4 {
        return "bad-case".to_string();
    }
    let mut def = unescape(rest[0]);
    // `Plain::op` filters the definition through `parse_proj`
    if spec.kind.starts_with("plain") {
        match parse_proj(&def) {
            Ok(d) => def = d,
            Err(e) => return format!("err {}", err_class(&e)),
        }
    }
    let mode = rest[1];
    let dir = dir_of(rest[2]);
    let mut data = parse_data(rest[3]);
    with_ctx(&spec, |ctx| match Op::new(&def, ctx) {
        Err(e) => format!("err {}", err_class(&e)),
        Ok(op) => {
            let mut out = "ok".to_string();
            if mode == "tree" || mode == "both" {
                out += &format!(" tree={}", dump_op(&op, true));
            }
            if mode == "skel" || mode == "skelboth" {
                out += &format!(" tree={}", dump_op(&op, false));
            }
            if mode == "apply" || mode == "both" || mode == "skelboth" {
                let n = op.apply(ctx, &mut data, dir);
                out += &format!(" n={} data={}", n, dump_data(&data));
            }
            out
        }
    })
}

fn dump_list(l: &[String]) -> String {
    format!("[{}]", l.iter().map(|x| escape(x)).collect::<Vec<_>>().join("|"))
}

fn exec_tok(fields: &[&str]) -> String {
    if fields.len() != 2 {
        return "bad-case".to_string();
    }
    let a = unescape(fields[1]);
    match fields[0] {
        "normalize" => escape(&a.normalize()),
        "steps" => dump_list(&a.split_into_steps()),
        "params" => {
            let m = a.split_into_parameters();
            let items: Vec<String> = m.iter().map(|(k, v)| format!("{}={}", escape(k), escape(v))).collect();
            format!("{{{}}}", items.join(","))
        }
        "is_pipeline" => a.is_pipeline().to_string(),
        "is_resource_name" => a.is_resource_name().to_string(),
        "operator_name" => escape(&a.operator_name()),
        _ => "bad-case".to_string(),
    }
}

/// a history of API calls on one context (handles are reported as creation ordinals)
pub fn run_history(kind: &str, calls: &[&str], mut observe: impl FnMut(&dyn Context, &[OpHandle]) -> Option<String>) -> (Vec<String>, Option<String>) {
    let spec = CtxSpec { kind: kind.to_string(), resources: vec![], users: vec![] };
    with_ctx(&spec, |ctx| {
        let mut handles: Vec<OpHandle> = vec![];
        let mut outs = vec![];
        for call in calls {
            let parts: Vec<&str> = call.split('|').collect();
            let out = match parts.as_slice() {
                ["R", n, t] => {
                    if let Some(c) = user_ctor(t) {
                        ctx.register_op(&unescape(n), c);
                    }
                    "-".to_string()
                }
                ["S", n, b] => {
                    ctx.register_resource(&unescape(n), &unescape(b));
                    "-".to_string()
                }
                ["O", d] => match ctx.op(&unescape(d)) {
                    Ok(h) => {
                        handles.push(h);
                        format!("h{}", handles.len() - 1)
                    }
                    Err(e) => format!("err {}", err_class(&e)),
                },
                ["A", h, dir, data] => {
                    let k: usize = h.parse().unwrap_or(usize::MAX);
                    let handle = handles.get(k).copied().unwrap_or_default();
                    let mut d = parse_data(data);
                    match ctx.apply(handle, dir_of(dir), &mut d) {
                        Ok(n) => format!("n={} data={}", n, dump_data(&d)),
                        Err(e) => format!("err {}", err_class(&e)),
                    }
                }
                ["T", h] => {
                    let k: usize = h.parse().unwrap_or(usize::MAX);
                    let handle = handles.get(k).copied().unwrap_or_default();
                    match ctx.steps(handle) {
                        Ok(l) => dump_list(l),
                        Err(e) => format!("err {}", err_class(&e)),
                    }
                }
                ["P", h, i] => {
                    let k: usize = h.parse().unwrap_or(usize::MAX);
                    let handle = handles.get(k).copied().unwrap_or_default();
                    match ctx.params(handle, i.parse().unwrap_or(0)) {
                        Ok(p) => dump_parsed(&p),
                        Err(e) => format!("err {}", err_class(&e)),
                    }
                }
                _ => "bad-call".to_string(),
            };
            outs.push(out);
            if let Some(problem) = observe(ctx, &handles) {
                return (outs, Some(problem));
            }
        }
        (outs, None)
    })
}

/// the implementation's answer to one case line
pub fn exec_line(line: &str) -> String {
    let fields: Vec<&str> = line.split('\t').collect();
    match fields[0] {
        "OP" => exec_op(&fields[1..]),
        "OPG" => exec_opg(&fields[1..]),
        "TOK" => exec_tok(&fields[1..]),
        "HIST" => run_history(fields[1], &fields[2..], |_, _| None).0.join(" ;; "),
        "REG" => exec_reg(&fields[1..]),
        "ANG" => exec_ang(&fields[1..]),
        "TUP" => exec_tup(&fields[1..]),
        "ELL" => exec_ell(&fields[1..]),
        "GRID" => exec_grid(&fields[1..]),
        "GRIDS" => exec_grids(&fields[1..]),
        "KP" => {
            let (rc, out) = run_kp(&fields[1..]);
            format!("rc={} out={}", rc, escape(&out))
        }
        "PROJ" => match parse_proj(&unescape(fields.get(1).unwrap_or(&""))) {
            Ok(r) => format!("ok {}", escape(&r)),
            Err(e) => format!("err {}", err_class(&e)),
        },
        k if k.starts_with("S_") => crate::oracles::exec_oracle(k, &fields[1..]),
        _ => "bad-case".to_string(),
    }
}

/// Plain's register look-up on a register file written for this case (under $XDG_DATA_HOME)
pub fn with_register<T>(content: &str, f: impl FnOnce(&Plain) -> T) -> T {
    let dir = std::path::PathBuf::from(format!("/var/tmp/gv-reg-{}", std::process::id()));
    let res = dir.join("geodesy").join("resources");
    let _ = std::fs::create_dir_all(&res);
    let _ = std::fs::write(res.join("gvreg.md"), content);
    std::env::set_var("XDG_DATA_HOME", &dir);
    let ctx = Plain::default();
    let out = f(&ctx);
    let _ = std::fs::remove_dir_all(&dir);
    out
}

fn exec_reg(fields: &[&str]) -> String {
    let content = unescape(fields[0]);
    let suffix = unescape(fields[1]);
    with_register(&content, |ctx| match ctx.get_resource(&format!("gvreg:{suffix}")) {
        Ok(t) => format!("ok {}", escape(&t)),
        Err(_) => "none".to_string(),
    })
}

fn exec_ang(fields: &[&str]) -> String {
    let xs: Vec<f64> = fields[1].split(',').map(parse_f).collect();
    let r = match (fields[0], xs.as_slice()) {
        ("dms_to_dd", [d, m, s]) => angular::dms_to_dd(*d as i32, *m as u16, *s),
        ("dm_to_dd", [d, m]) => angular::dm_to_dd(*d as i32, *m),
        ("iso_dm_to_dd", [x]) => angular::iso_dm_to_dd(*x),
        ("dd_to_iso_dm", [x]) => angular::dd_to_iso_dm(*x),
        ("iso_dms_to_dd", [x]) => angular::iso_dms_to_dd(*x),
        ("dd_to_iso_dms", [x]) => angular::dd_to_iso_dms(*x),
        ("normalize_symmetric", [x]) => angular::normalize_symmetric(*x),
        ("normalize_positive", [x]) => angular::normalize_positive(*x),
        _ => return "bad-case".to_string(),
    };
    fbits(r)
}

/// one public function of the ellipsoid module: `ELL <name or a,rf> <function> <args>`
fn exec_ell(fields: &[&str]) -> String {
    if fields.len() != 3 {
        return "bad-case".to_string();
    }
    let Ok(e) = Ellipsoid::named(&unescape(fields[0])) else { return "err".to_string() };
    let a: Vec<f64> = if fields[2] == "-" { vec![] } else { fields[2].split(',').map(parse_f).collect() };
    let one = |x: f64| fbits(x);
    let four = |c: Coor4D| (0..4).map(|i| fbits(c[i])).collect::<Vec<_>>().join(",");
    match (fields[1], a.len()) {
        ("semimajor_axis", 0) => one(e.semimajor_axis()),
        ("flattening", 0) => one(e.flattening()),
        ("semiminor_axis", 0) => one(e.semiminor_axis()),
        ("second_flattening", 0) => one(e.second_flattening()),
        ("third_flattening", 0) => one(e.third_flattening()),
        ("aspect_ratio", 0) => one(e.aspect_ratio()),
        ("linear_eccentricity", 0) => one(e.linear_eccentricity()),
        ("eccentricity_squared", 0) => one(e.eccentricity_squared()),
        ("eccentricity", 0) => one(e.eccentricity()),
        ("second_eccentricity_squared", 0) => one(e.second_eccentricity_squared()),
        ("second_eccentricity", 0) => one(e.second_eccentricity()),
        ("polar_radius_of_curvature", 0) => one(e.polar_radius_of_curvature()),
        ("normalized_meridian_arc_unit", 0) => one(e.normalized_meridian_arc_unit()),
        ("rectifying_radius", 0) => one(e.rectifying_radius()),
        ("rectifying_radius_bowring", 0) => one(e.rectifying_radius_bowring()),
        ("meridian_quadrant", 0) => one(e.meridian_quadrant()),
        ("prime_vertical_radius_of_curvature", 1) => one(e.prime_vertical_radius_of_curvature(a[0])),
        ("meridian_radius_of_curvature", 1) => one(e.meridian_radius_of_curvature(a[0])),
        ("meridian_latitude_to_distance", 1) => one(e.meridian_latitude_to_distance(a[0])),
        ("meridian_distance_to_latitude", 1) => one(e.meridian_distance_to_latitude(a[0])),
        ("latitude_geographic_to_geocentric", 1) => one(e.latitude_geographic_to_geocentric(a[0])),
        ("latitude_geocentric_to_geographic", 1) => one(e.latitude_geocentric_to_geographic(a[0])),
        ("latitude_geographic_to_reduced", 1) => one(e.latitude_geographic_to_reduced(a[0])),
        ("latitude_reduced_to_geographic", 1) => one(e.latitude_reduced_to_geographic(a[0])),
        ("latitude_geographic_to_isometric", 1) => one(e.latitude_geographic_to_isometric(a[0])),
        ("latitude_isometric_to_geographic", 1) => one(e.latitude_isometric_to_geographic(a[0])),
        ("latitude_geographic_to_rectifying", 1) => one(e.latitude_geographic_to_rectifying(a[0], &e.coefficients_for_rectifying_latitude_computations())),
        ("latitude_rectifying_to_geographic", 1) => one(e.latitude_rectifying_to_geographic(a[0], &e.coefficients_for_rectifying_latitude_computations())),
        ("latitude_geographic_to_conformal", 1) => one(e.latitude_geographic_to_conformal(a[0], &e.coefficients_for_conformal_latitude_computations())),
        ("latitude_conformal_to_geographic", 1) => one(e.latitude_conformal_to_geographic(a[0], &e.coefficients_for_conformal_latitude_computations())),
        ("latitude_geographic_to_authalic", 1) => one(e.latitude_geographic_to_authalic(a[0], &e.coefficients_for_authalic_latitude_computations())),
        ("latitude_authalic_to_geographic", 1) => one(e.latitude_authalic_to_geographic(a[0], &e.coefficients_for_authalic_latitude_computations())),
        ("cartesian", 4) => four(e.cartesian(&Coor4D([a[0], a[1], a[2], a[3]]))),
        ("geographic", 4) => four(e.geographic(&Coor4D([a[0], a[1], a[2], a[3]]))),
        ("geodesic_fwd", 4) => four(e.geodesic_fwd(&Coor4D([a[0], a[1], 0., 0.]), a[2], a[3])),
        ("geodesic_inv", 4) => four(e.geodesic_inv(&Coor4D([a[0], a[1], 0., 0.]), &Coor4D([a[2], a[3], 0., 0.]))),
        ("distance", 4) => one(e.distance(&Coor4D([a[0], a[1], 0., 0.]), &Coor4D([a[2], a[3], 0., 0.]))),
        _ => "bad-case".to_string(),
    }
}

/// one method of the `CoordinateTuple` trait on a tuple of 2, 3 or 4 elements:
/// `TUP dim vals op args` prints the tuple afterwards and the value read, if any
/// a tuple type of a user of the library: `N` elements, the three required methods and `new`, everything else
/// from the trait's defaults
#[derive(Clone, Copy)]
pub struct UserTuple<const N: usize>(pub [f64; N]);
impl<const N: usize> CoordinateTuple for UserTuple<N> {
    fn new(fill: f64) -> Self {
        UserTuple([fill; N])
    }
    fn nth_unchecked(&self, n: usize) -> f64 {
        self.0[n]
    }
    fn set_nth_unchecked(&mut self, n: usize, value: f64) {
        self.0[n] = value;
    }
    fn dim(&self) -> usize {
        N
    }
}
pub fn user_tuple<const N: usize>(v: &[f64]) -> UserTuple<N> {
    let mut t = UserTuple([0.0; N]);
    t.0.copy_from_slice(v);
    t
}

fn tup_op<T: CoordinateTuple + Copy>(mut t: T, op: &str, a: &[f64]) -> String {
    let mut read: Vec<f64> = vec![];
    match (op, a.len()) {
        ("nth", 1) => read.push(t.nth(if a[0].is_finite() && a[0] >= 0.0 { a[0] as usize } else { usize::MAX })),
        ("x", 0) => read.push(t.x()),
        ("y", 0) => read.push(t.y()),
        ("z", 0) => read.push(t.z()),
        ("t", 0) => read.push(t.t()),
        ("set_nth", 2) => t.set_nth(if a[0].is_finite() && a[0] >= 0.0 { a[0] as usize } else { usize::MAX }, a[1]),
        ("set_xy", 2) => t.set_xy(a[0], a[1]),
        ("set_xyz", 3) => t.set_xyz(a[0], a[1], a[2]),
        ("set_xyzt", 4) => t.set_xyzt(a[0], a[1], a[2], a[3]),
        ("fill", 1) => t.fill(a[0]),
        ("update", _) => t.update(a),
        ("scale", 1) => t = t.scale(a[0]),
        ("dot", n) if n == t.dim() => {
            let mut other = T::new(0.0);
            other.update(a);
            read.push(t.dot(other));
        }
        _ => return "bad-case".to_string(),
    }
    let vals: Vec<String> = (0..t.dim()).map(|i| fbits(t.nth_unchecked(i))).collect();
    let read: Vec<String> = read.iter().map(|x| fbits(*x)).collect();
    format!("{} | {}", vals.join(","), read.join(","))
}

fn exec_tup(fields: &[&str]) -> String {
    if fields.len() != 4 {
        return "bad-case".to_string();
    }
    let v: Vec<f64> = fields[1].split(',').filter(|x| !x.is_empty()).map(parse_f).collect();
    let a: Vec<f64> = if fields[3] == "-" { vec![] } else { fields[3].split(',').map(parse_f).collect() };
    match (fields[0], v.len()) {
        ("2", 2) => tup_op(Coor2D([v[0], v[1]]), fields[2], &a),
        ("3", 3) => tup_op(Coor3D([v[0], v[1], v[2]]), fields[2], &a),
        ("4", 4) => tup_op(Coor4D([v[0], v[1], v[2], v[3]]), fields[2], &a),
        ("p", 2) => tup_op((v[0], v[1]), fields[2], &a),
        ("1", 1) => tup_op(user_tuple::<1>(&v), fields[2], &a),
        ("5", 5) => tup_op(user_tuple::<5>(&v), fields[2], &a),
        ("6", 6) => tup_op(user_tuple::<6>(&v), fields[2], &a),
        _ => "bad-case".to_string(),
    }
}

/// run the `kp` binary built from the working tree on the case's options, operation and files
pub fn run_kp(fields: &[&str]) -> (i32, String) {
    let kp = std::env::var("VERIF_KP").unwrap_or_else(|_| "/verif/harness/target-kp/debug/kp".to_string());
    let opts = fields[0];
    let op = unescape(fields[1]);
    let nfiles: usize = fields[2].parse().unwrap_or(0);
    let dir = std::path::PathBuf::from(format!("/var/tmp/gv-kp-{}", std::process::id()));
    let _ = std::fs::create_dir_all(&dir);
    let mut args: Vec<String> = vec![];
    for kv in opts.split(';') {
        let Some((k, v)) = kv.split_once('=') else { continue };
        if v == "-" {
            continue;
        }
        match k {
            "inv" => {
                if v == "1" {
                    args.push("--inv".into())
                }
            }
            "rt" => {
                if v == "1" {
                    args.push("--roundtrip".into())
                }
            }
            "z" => {
                args.push(format!("-z={}", parse_f(v)));
            }
            "t" => {
                args.push(format!("-t={}", parse_f(v)));
            }
            "d" => {
                args.push(format!("-d={v}"));
            }
            "D" => {
                args.push(format!("-D={v}"));
            }
            _ => {}
        }
    }
    args.push(op);
    // (the names sort in the reverse of the order the files are given in; a file whose text is that of an earlier
    // one is that file, named again)
    let mut written: Vec<(String, String)> = vec![];
    for i in 0..nfiles {
        let tag = format!("{}_{i}", 9 - (i % 10));
        let path = dir.join(format!("in{tag}.txt"));
        if let Some((_, earlier)) = written.iter().find(|(text, _)| text == fields[3 + i] && !text.is_empty()) {
            args.push(earlier.clone());
            continue;
        }
        if fields[3 + i] == "UNREADABLE" {
            args.push(dir.join(format!("missing{tag}.txt")).to_string_lossy().to_string());
        } else if fields[3 + i] == "DIRECTORY" {
            let d = dir.join(format!("adir{tag}"));
            let _ = std::fs::create_dir_all(&d);
            args.push(d.to_string_lossy().to_string());
        } else if let Some(prefix) = fields[3 + i].strip_prefix("BROKEN:") {
            // complete lines, then a line that is not UTF-8, then more lines
            let mut bytes = unescape(prefix).into_bytes();
            bytes.extend_from_slice(b"7 8 \xff\xfe # latin-1: \xe6\xf8\xe5\n9 9\n");
            let _ = std::fs::write(&path, bytes);
            args.push(path.to_string_lossy().to_string());
        } else {
            let _ = std::fs::write(&path, unescape(fields[3 + i]));
            args.push(path.to_string_lossy().to_string());
            written.push((fields[3 + i].to_string(), path.to_string_lossy().to_string()));
        }
    }
    let out = std::process::Command::new(kp).args(&args).env_remove("RUST_LOG").stdin(std::process::Stdio::null()).output();
    let _ = std::fs::remove_dir_all(&dir);
    match out {
        Ok(o) => (if o.status.success() { 0 } else { 1 }, String::from_utf8_lossy(&o.stdout).to_string()),
        Err(_) => (-1, String::new()),
    }
}

pub fn unhex(s: &str) -> Vec<u8> {
    (0..s.len() / 2).map(|i| u8::from_str_radix(&s[2 * i..2 * i + 2], 16).unwrap_or(0)).collect()
}

pub fn decode_grid(fmt: &str, payload: &str) -> Result<std::sync::Arc<dyn Grid>, Error> {
    if fmt == "gravsoft" {
        Ok(std::sync::Arc::new(BaseGrid::gravsoft(unescape(payload).as_bytes())?))
    } else if fmt == "gravsoftb" {
        Ok(std::sync::Arc::new(BaseGrid::gravsoft(&unhex(payload))?))
    } else {
        Ok(std::sync::Arc::new(Ntv2Grid::new(&unhex(payload))?))
    }
}

pub fn parse_points(s: &str) -> Vec<Coor4D> {
    if s.is_empty() {
        return vec![];
    }
    s.split(';')
        .map(|p| {
            let v: Vec<f64> = p.split(',').map(parse_f).collect();
            Coor4D([v[0], v[1], 0., 0.])
        })
        .collect()
}

pub fn dump_at(r: Option<Coor4D>) -> String {
    match r {
        Some(c) => dump_data(&[c]),
        None => "none".to_string(),
    }
}

fn exec_grid(fields: &[&str]) -> String {
    match decode_grid(fields[0], fields[1]) {
        Err(e) => format!("err {}", err_class(&e)),
        Ok(g) => {
            let m = parse_f(fields[2]);
            let ats: Vec<String> = parse_points(fields[3]).iter().map(|p| dump_at(g.at(p, m))).collect();
            format!("ok bands={} at={}", g.bands(), ats.join(";"))
        }
    }
}

fn exec_grids(fields: &[&str]) -> String {
    let k: usize = fields[0].parse().unwrap_or(0);
    let mut grids = vec![];
    for i in 0..k {
        match decode_grid(fields[1 + 2 * i], fields[2 + 2 * i]) {
            Ok(g) => grids.push(g),
            Err(_) => return "err decode".to_string(),
        }
    }
    let null = fields[1 + 2 * k] == "1";
    parse_points(fields[2 + 2 * k]).iter().map(|p| dump_at(grids_at(&grids, p, null))).collect::<Vec<_>>().join(";")
}

/// a context serving in-memory grids by name, everything else as `Minimal`
pub struct GridCtx {
    pub inner: Minimal,
    pub grids: BTreeMap<String, std::sync::Arc<dyn Grid>>,
    pub ops: std::sync::Mutex<BTreeMap<OpHandle, std::sync::Arc<Op>>>,
}

impl Context for GridCtx {
    fn new() -> Self {
        GridCtx { inner: Minimal::new(), grids: BTreeMap::new(), ops: std::sync::Mutex::new(BTreeMap::new()) }
    }
    fn op(&mut self, definition: &str) -> Result<OpHandle, Error> {
        // instantiate against `self`, so that grid look-ups come here
        let op = Op::new(definition, self)?;
        let id = op.id;
        self.ops.lock().unwrap().insert(id, std::sync::Arc::new(op));
        Ok(id)
    }
    fn apply(&self, op: OpHandle, direction: Direction, operands: &mut dyn CoordinateSet) -> Result<usize, Error> {
        let o = self.ops.lock().unwrap().get(&op).cloned().ok_or(Error::General("unknown id"))?;
        Ok(o.apply(self, operands, direction))
    }
    fn globals(&self) -> BTreeMap<String, String> {
        self.inner.globals()
    }
    fn steps(&self, _op: OpHandle) -> Result<&Vec<String>, Error> {
        Err(Error::General("not supported"))
    }
    fn params(&self, _op: OpHandle, _index: usize) -> Result<ParsedParameters, Error> {
        Err(Error::General("not supported"))
    }
    fn register_op(&mut self, name: &str, constructor: OpConstructor) {
        self.inner.register_op(name, constructor)
    }
    fn register_resource(&mut self, name: &str, definition: &str) {
        self.inner.register_resource(name, definition)
    }
    fn get_op(&self, name: &str) -> Result<OpConstructor, Error> {
        self.inner.get_op(name)
    }
    fn get_resource(&self, name: &str) -> Result<String, Error> {
        self.inner.get_resource(name)
    }
    fn get_blob(&self, name: &str) -> Result<Vec<u8>, Error> {
        self.inner.get_blob(name)
    }
    fn get_grid(&self, name: &str) -> Result<std::sync::Arc<dyn Grid>, Error> {
        self.grids.get(name).cloned().ok_or(Error::NotFound(name.to_string(), ": Grid".to_string()))
    }
}

/// an `OP` case on a context that serves the given grid files by name (`GridCtx`)
fn exec_opg(fields: &[&str]) -> String {
    let n: usize = fields[0].parse().unwrap_or(0);
    let mut ctx = GridCtx::new();
    for i in 0..n {
        if let Ok(g) = decode_grid(fields[2 + 3 * i], fields[3 + 3 * i]) {
            ctx.grids.insert(unescape(fields[1 + 3 * i]), g);
        }
    }
    let Some((spec, rest)) = parse_ctx(&fields[1 + 3 * n..]) else {
        return "bad-case".to_string();
    };
    if rest.len() != 4 {
        return "bad-case".to_string();
    }
    fill_ctx(&mut ctx, &spec);
    let def = unescape(rest[0]);
    let mode = rest[1];
    let dir = dir_of(rest[2]);
    let mut data = parse_data(rest[3]);
    match Op::new(&def, &ctx) {
        Err(e) => format!("err {}", err_class(&e)),
        Ok(op) => {
            let mut out = "ok".to_string();
            if mode == "apply" || mode == "both" {
                let n = op.apply(&ctx, &mut data, dir);
                out += &format!(" n={} data={}", n, dump_data(&data));
            }
            out
        }
    }
}
